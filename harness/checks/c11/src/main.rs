//! C11 — a multi-document stream is the list of its documents, each on its own.
//!
//! Differential oracle on the real code. A stream is *composed* by the generator
//! from document bodies (one of 32 kinds) and separators, so the cut into
//! documents is known by construction; it is then confirmed against the raw
//! `saphyr-parser` event stream (number of `DocumentStart` events, and per
//! document the same event shape as the body parsed on its own). Only confirmed
//! streams get verdicts.
//!
//! Expected items = every body deserialized **alone** with `from_str`:
//!   * empty / `~` / `null` bodies are skipped,
//!   * a body whose alias has no anchor in *that* body must fail (even when an
//!     earlier document of the stream defines the name),
//!   * `from_multiple` / `from_slice_multiple` = `Ok(list)` iff every document
//!     succeeds alone, else `Err`,
//!   * `read` / `read_with_options` yield the same items in order; after a
//!     document that fails with a type-level error the iterator goes on with the
//!     following document; at a syntax error it yields one `Err` and ends; `None`
//!     is reached within `documents + 2` calls of `next()` (calls are counted,
//!     never timed) and stays `None`,
//!   * `from_str` / `from_slice` / `from_reader` / `with_deserializer_from_*`
//!     return `Err` for every stream whose raw parse shows a second
//!     `DocumentStart`, and for a one-document stream give the document's value.
//!
//! Left unspecified (counted, no verdict): whether the iterator goes on after a
//! document that failed on a dangling alias (the statement names type-level and
//! syntax errors only), and everything after a dangling alias that the raw
//! parser itself reports as a scan error.

use serde::Deserialize;
use serde::de::DeserializeOwned;
use serde_json::{Value, json};
use serde_saphyr::{Error, Options};
use std::collections::BTreeMap;
use std::fmt::Debug;
use vcore::obs::{Fault, FaultReader, Schedule, catch, panic_site};
use vcore::reftree::{RawEvent, RawKind, raw_events, style_char};
use vcore::rng::{Rng, fnv_parts};
use vcore::run::{Finish, Run, Tier, par_range};
use vcore::val::Val;

// ------------------------------------------------------------------ targets

#[derive(Debug, Deserialize, PartialEq)]
#[allow(dead_code)]
struct Doc {
    a: i32,
    #[serde(default)]
    s: Option<String>,
    #[serde(default)]
    m: Option<BTreeMap<String, i32>>,
    #[serde(default)]
    l: Vec<i32>,
    /// `deserialize_unit` rejects a non-null value after *peeking* it (the event stays in the look-ahead slot)
    #[serde(default)]
    u: (),
    z: i32,
}

/// Anchor-identity target: pointer sharing inside one document is part of the value.
#[derive(Deserialize)]
struct RcDoc {
    a: serde_saphyr::RcAnchor<i32>,
    #[serde(default)]
    l: Option<serde_saphyr::RcAnchor<Vec<i32>>>,
    z: serde_saphyr::RcAnchor<i32>,
}

impl Debug for RcDoc {
    fn fmt(&self, f: &mut std::fmt::Formatter<'_>) -> std::fmt::Result {
        write!(
            f,
            "RcDoc{{a:{}, l:{:?}, z:{}, a_is_z:{}}}",
            *self.a.0,
            self.l.as_ref().map(|l| (*l.0).clone()),
            *self.z.0,
            std::rc::Rc::ptr_eq(&self.a.0, &self.z.0)
        )
    }
}

/// Ok(rendered value) or Err(error kind).
type Out = Result<String, String>;

fn conv<T: Debug>(r: Result<T, Error>) -> Out {
    match r {
        Ok(v) => Ok(format!("{v:?}")),
        Err(e) => Err(vcore::errs::kind(&e)),
    }
}

/// Validating target (garde and validator derive on the same struct).
#[derive(Debug, Deserialize, garde::Validate, validator::Validate)]
#[allow(dead_code)]
struct VDoc {
    #[garde(range(max = 5000))]
    #[validate(range(max = 5000))]
    a: i32,
    #[garde(skip)]
    #[serde(default)]
    l: Vec<i32>,
    #[garde(range(min = 0))]
    #[validate(range(min = 0))]
    z: i32,
}

// ------------------------------------------------------------------ option vectors

/// 0 = the plain (option-less) API functions; 1.. = the `_with_options` functions with this vector.
const N_OPTS: usize = 7;
const OPT_NAMES: [&str; N_OPTS] = [
    "plain-api",
    "unlimited",
    "no-snippet",
    "lastwins+strict-booleans+legacy-octal",
    "no-schema",
    "custom-budget",
    "default-options",
];

fn opts(o: usize) -> Option<Options> {
    let mut x = Options::default();
    #[allow(deprecated)]
    match o {
        0 => return None,
        1 => x = vcore::errs::unlimited_options(),
        2 => {
            x.with_snippet = false;
            x.crop_radius = 0;
        }
        3 => {
            x.duplicate_keys = serde_saphyr::DuplicateKeyPolicy::LastWins;
            x.strict_booleans = true;
            x.legacy_octal_numbers = true;
        }
        4 => x.no_schema = true,
        5 => {
            // generous but non-default limits: never reached by any generated stream (<= 64 documents)
            x.budget = serde_saphyr::budget! {
                max_documents: 200,
                max_events: 50_000,
                max_nodes: 50_000,
                max_anchors: 1_000,
                max_aliases: 1_000,
            };
        }
        _ => {}
    }
    Some(x)
}

// ------------------------------------------------------------------ entry points behind one interface

trait Api {
    type T: Debug + 'static;
    fn from_str(s: &str, o: Option<Options>) -> Result<Self::T, Error>;
    fn from_slice(b: &[u8], o: Option<Options>) -> Result<Self::T, Error>;
    fn from_reader(r: FaultReader<'_>, o: Option<Options>) -> Result<Self::T, Error>;
    fn wd_str(s: &str, o: Option<Options>) -> Result<Self::T, Error>;
    fn wd_slice(b: &[u8], o: Option<Options>) -> Result<Self::T, Error>;
    fn wd_reader(r: FaultReader<'_>, o: Option<Options>) -> Result<Self::T, Error>;
    fn multi(s: &str, o: Option<Options>) -> Result<Vec<Self::T>, Error>;
    fn slice_multi(b: &[u8], o: Option<Options>) -> Result<Vec<Self::T>, Error>;
    fn iter<'a, 'd: 'a>(r: &'a mut FaultReader<'d>, o: Option<Options>) -> Box<dyn Iterator<Item = Result<Self::T, Error>> + 'a>;
}

struct Plain<T>(std::marker::PhantomData<T>);
struct Garde<T>(std::marker::PhantomData<T>);
struct Validator<T>(std::marker::PhantomData<T>);

impl<T: DeserializeOwned + Debug + 'static> Api for Plain<T> {
    type T = T;
    fn from_str(s: &str, o: Option<Options>) -> Result<T, Error> {
        match o {
            None => serde_saphyr::from_str(s),
            Some(o) => serde_saphyr::from_str_with_options(s, o),
        }
    }
    fn from_slice(b: &[u8], o: Option<Options>) -> Result<T, Error> {
        match o {
            None => serde_saphyr::from_slice(b),
            Some(o) => serde_saphyr::from_slice_with_options(b, o),
        }
    }
    fn from_reader(r: FaultReader<'_>, o: Option<Options>) -> Result<T, Error> {
        match o {
            None => serde_saphyr::from_reader(r),
            Some(o) => serde_saphyr::from_reader_with_options(r, o),
        }
    }
    fn wd_str(s: &str, o: Option<Options>) -> Result<T, Error> {
        match o {
            None => serde_saphyr::with_deserializer_from_str(s, |de| T::deserialize(de)),
            Some(o) => serde_saphyr::with_deserializer_from_str_with_options(s, o, |de| T::deserialize(de)),
        }
    }
    fn wd_slice(b: &[u8], o: Option<Options>) -> Result<T, Error> {
        match o {
            None => serde_saphyr::with_deserializer_from_slice(b, |de| T::deserialize(de)),
            Some(o) => serde_saphyr::with_deserializer_from_slice_with_options(b, o, |de| T::deserialize(de)),
        }
    }
    fn wd_reader(r: FaultReader<'_>, o: Option<Options>) -> Result<T, Error> {
        match o {
            None => serde_saphyr::with_deserializer_from_reader(r, |de| T::deserialize(de)),
            Some(o) => serde_saphyr::with_deserializer_from_reader_with_options(r, o, |de| T::deserialize(de)),
        }
    }
    fn multi(s: &str, o: Option<Options>) -> Result<Vec<T>, Error> {
        match o {
            None => serde_saphyr::from_multiple(s),
            Some(o) => serde_saphyr::from_multiple_with_options(s, o),
        }
    }
    fn slice_multi(b: &[u8], o: Option<Options>) -> Result<Vec<T>, Error> {
        match o {
            None => serde_saphyr::from_slice_multiple(b),
            Some(o) => serde_saphyr::from_slice_multiple_with_options(b, o),
        }
    }
    fn iter<'a, 'd: 'a>(r: &'a mut FaultReader<'d>, o: Option<Options>) -> Box<dyn Iterator<Item = Result<T, Error>> + 'a> {
        match o {
            None => serde_saphyr::read::<_, T>(r),
            Some(o) => Box::new(serde_saphyr::read_with_options::<_, T>(r, o)),
        }
    }
}

impl<T> Api for Garde<T>
where
    T: DeserializeOwned + Debug + garde::Validate + 'static,
    <T as garde::Validate>::Context: Default,
{
    type T = T;
    fn from_str(s: &str, o: Option<Options>) -> Result<T, Error> {
        match o {
            None => serde_saphyr::from_str_valid(s),
            Some(o) => serde_saphyr::from_str_with_options_valid(s, o),
        }
    }
    fn from_slice(b: &[u8], o: Option<Options>) -> Result<T, Error> {
        match o {
            None => serde_saphyr::from_slice_valid(b),
            Some(o) => serde_saphyr::from_slice_with_options_valid(b, o),
        }
    }
    fn from_reader(r: FaultReader<'_>, o: Option<Options>) -> Result<T, Error> {
        match o {
            None => serde_saphyr::from_reader_valid(r),
            Some(o) => serde_saphyr::from_reader_with_options_valid(r, o),
        }
    }
    // no closure helpers for validating targets: the `_with_options` forms stand in
    fn wd_str(s: &str, o: Option<Options>) -> Result<T, Error> {
        serde_saphyr::from_str_with_options_valid(s, o.unwrap_or_default())
    }
    fn wd_slice(b: &[u8], o: Option<Options>) -> Result<T, Error> {
        serde_saphyr::from_slice_with_options_valid(b, o.unwrap_or_default())
    }
    fn wd_reader(r: FaultReader<'_>, o: Option<Options>) -> Result<T, Error> {
        serde_saphyr::from_reader_with_options_valid(r, o.unwrap_or_default())
    }
    fn multi(s: &str, o: Option<Options>) -> Result<Vec<T>, Error> {
        match o {
            None => serde_saphyr::from_multiple_valid(s),
            Some(o) => serde_saphyr::from_multiple_with_options_valid(s, o),
        }
    }
    fn slice_multi(b: &[u8], o: Option<Options>) -> Result<Vec<T>, Error> {
        serde_saphyr::from_slice_multiple_with_options_valid(b, o.unwrap_or_default())
    }
    fn iter<'a, 'd: 'a>(r: &'a mut FaultReader<'d>, o: Option<Options>) -> Box<dyn Iterator<Item = Result<T, Error>> + 'a> {
        match o {
            None => Box::new(serde_saphyr::read_valid::<_, T>(r)),
            Some(o) => Box::new(serde_saphyr::read_with_options_valid::<_, T>(r, o)),
        }
    }
}

impl<T> Api for Validator<T>
where
    T: DeserializeOwned + Debug + validator::Validate + 'static,
{
    type T = T;
    fn from_str(s: &str, o: Option<Options>) -> Result<T, Error> {
        match o {
            None => serde_saphyr::from_str_validate(s),
            Some(o) => serde_saphyr::from_str_with_options_validate(s, o),
        }
    }
    fn from_slice(b: &[u8], o: Option<Options>) -> Result<T, Error> {
        match o {
            None => serde_saphyr::from_slice_validate(b),
            Some(o) => serde_saphyr::from_slice_with_options_validate(b, o),
        }
    }
    fn from_reader(r: FaultReader<'_>, o: Option<Options>) -> Result<T, Error> {
        match o {
            None => serde_saphyr::from_reader_validate(r),
            Some(o) => serde_saphyr::from_reader_with_options_validate(r, o),
        }
    }
    fn wd_str(s: &str, o: Option<Options>) -> Result<T, Error> {
        serde_saphyr::from_str_with_options_validate(s, o.unwrap_or_default())
    }
    fn wd_slice(b: &[u8], o: Option<Options>) -> Result<T, Error> {
        serde_saphyr::from_slice_with_options_validate(b, o.unwrap_or_default())
    }
    fn wd_reader(r: FaultReader<'_>, o: Option<Options>) -> Result<T, Error> {
        serde_saphyr::from_reader_with_options_validate(r, o.unwrap_or_default())
    }
    fn multi(s: &str, o: Option<Options>) -> Result<Vec<T>, Error> {
        match o {
            None => serde_saphyr::from_multiple_validate(s),
            Some(o) => serde_saphyr::from_multiple_with_options_validate(s, o),
        }
    }
    fn slice_multi(b: &[u8], o: Option<Options>) -> Result<Vec<T>, Error> {
        serde_saphyr::from_slice_multiple_with_options_validate(b, o.unwrap_or_default())
    }
    fn iter<'a, 'd: 'a>(r: &'a mut FaultReader<'d>, o: Option<Options>) -> Box<dyn Iterator<Item = Result<T, Error>> + 'a> {
        match o {
            None => Box::new(serde_saphyr::read_validate::<_, T>(r)),
            Some(o) => Box::new(serde_saphyr::read_with_options_validate::<_, T>(r, o)),
        }
    }
}

#[derive(Default, Debug)]
struct IterTrace {
    items: Vec<Out>,
    calls: usize,
    ended: bool,
    item_after_none: bool,
}

#[derive(Clone, Copy, Debug, PartialEq)]
enum Single {
    FromStr,
    FromSlice,
    FromReader,
    WithDeStr,
    WithDeSlice,
    WithDeReader,
}
const SINGLES: [Single; 6] =
    [Single::FromStr, Single::FromSlice, Single::FromReader, Single::WithDeStr, Single::WithDeSlice, Single::WithDeReader];

impl Single {
    fn name(self) -> &'static str {
        match self {
            Single::FromStr => "from_str",
            Single::FromSlice => "from_slice",
            Single::FromReader => "from_reader",
            Single::WithDeStr => "with_deserializer_from_str",
            Single::WithDeSlice => "with_deserializer_from_slice",
            Single::WithDeReader => "with_deserializer_from_reader",
        }
    }
}

struct Target {
    name: &'static str,
    /// (text, option vector)
    alone: fn(&str, usize) -> Out,
    /// (text, via slice, option vector)
    batch: fn(&str, bool, usize) -> Result<Vec<String>, String>,
    /// (bytes, chunk, option vector, max next() calls)
    iter: fn(&[u8], usize, usize, usize) -> IterTrace,
    /// (text, entry point, chunk, option vector)
    single: fn(&str, Single, usize, usize) -> Out,
    /// two iterators alive at once, advanced by `schedule` (false = first, true = second), a
    /// single-document call on `probe` between two steps
    interleave: fn(&[u8], &[u8], &[bool], &str, usize, usize, usize) -> (IterTrace, IterTrace),
}

fn t_alone<A: Api>(s: &str, o: usize) -> Out {
    conv(A::from_str(s, opts(o)))
}

fn t_batch<A: Api>(s: &str, slice: bool, o: usize) -> Result<Vec<String>, String> {
    let r = if slice { A::slice_multi(s.as_bytes(), opts(o)) } else { A::multi(s, opts(o)) };
    match r {
        Ok(v) => Ok(v.iter().map(|x| format!("{x:?}")).collect()),
        Err(e) => Err(vcore::errs::kind(&e)),
    }
}

fn step<T: Debug>(it: &mut dyn Iterator<Item = Result<T, Error>>, tr: &mut IterTrace, max_calls: usize) {
    if tr.ended || tr.calls >= max_calls {
        return;
    }
    tr.calls += 1;
    match it.next() {
        None => tr.ended = true,
        Some(r) => tr.items.push(conv(r)),
    }
}

fn after_none<T>(it: &mut dyn Iterator<Item = Result<T, Error>>, tr: &mut IterTrace) {
    if tr.ended {
        for _ in 0..2 {
            if it.next().is_some() {
                tr.item_after_none = true;
            }
        }
    }
}

fn t_iter<A: Api>(bytes: &[u8], chunk: usize, o: usize, max_calls: usize) -> IterTrace {
    let mut rd = FaultReader::new(bytes, Schedule::fixed(chunk), Fault::None);
    let mut it = A::iter(&mut rd, opts(o));
    let mut tr = IterTrace::default();
    while !tr.ended && tr.calls < max_calls {
        step(&mut *it, &mut tr, max_calls);
    }
    after_none(&mut *it, &mut tr);
    tr
}

fn t_interleave<A: Api>(a: &[u8], b: &[u8], schedule: &[bool], probe: &str, o: usize, max_a: usize, max_b: usize) -> (IterTrace, IterTrace) {
    let mut ra = FaultReader::new(a, Schedule::fixed(7), Fault::None);
    let mut rb = FaultReader::new(b, Schedule::fixed(3), Fault::None);
    let mut ia = A::iter(&mut ra, opts(o));
    let mut ib = A::iter(&mut rb, opts(o));
    let (mut ta, mut tb) = (IterTrace::default(), IterTrace::default());
    for (i, second) in schedule.iter().enumerate() {
        if *second {
            step(&mut *ib, &mut tb, max_b);
        } else {
            step(&mut *ia, &mut ta, max_a);
        }
        if i % 3 == 1 {
            let _ = A::from_str(probe, opts(o));
        }
    }
    while !ta.ended && ta.calls < max_a {
        step(&mut *ia, &mut ta, max_a);
    }
    while !tb.ended && tb.calls < max_b {
        step(&mut *ib, &mut tb, max_b);
    }
    after_none(&mut *ia, &mut ta);
    after_none(&mut *ib, &mut tb);
    (ta, tb)
}

fn t_single<A: Api>(s: &str, which: Single, chunk: usize, o: usize) -> Out {
    let rd = || FaultReader::new(s.as_bytes(), Schedule::fixed(chunk), Fault::None);
    conv(match which {
        Single::FromStr => A::from_str(s, opts(o)),
        Single::FromSlice => A::from_slice(s.as_bytes(), opts(o)),
        Single::FromReader => A::from_reader(rd(), opts(o)),
        Single::WithDeStr => A::wd_str(s, opts(o)),
        Single::WithDeSlice => A::wd_slice(s.as_bytes(), opts(o)),
        Single::WithDeReader => A::wd_reader(rd(), opts(o)),
    })
}

macro_rules! target {
    ($n:expr, $a:ty) => {
        Target { name: $n, alone: t_alone::<$a>, batch: t_batch::<$a>, iter: t_iter::<$a>, single: t_single::<$a>, interleave: t_interleave::<$a> }
    };
}

/// the first `N_PLAIN` are the ordinary entry points; the last two go through the validating ones
const N_PLAIN: usize = 5;
static TARGETS: [Target; 7] = [
    target!("Doc", Plain<Doc>),
    target!("Val", Plain<Val>),
    target!("i64", Plain<i64>),
    target!("RcDoc", Plain<RcDoc>),
    target!("String", Plain<String>),
    target!("VDoc/garde", Garde<VDoc>),
    target!("VDoc/validator", Validator<VDoc>),
];

fn target_by_name(n: &str) -> Option<&'static Target> {
    TARGETS.iter().find(|t| t.name == n)
}

// ------------------------------------------------------------------ document kinds

#[derive(Clone, Copy, Debug, PartialEq)]
enum Nature {
    /// value or type-level error, decided by deserializing the body alone
    Plain,
    /// empty / null document: skipped by the multi-document entry points
    Null,
    /// contains an alias whose anchor is not in this document
    Alias,
    /// raw parser fails inside this document
    Syntax,
}

struct Kind {
    name: &'static str,
    nature: Nature,
    /// anchor names this kind defines / uses without defining
    defines: &'static [&'static str],
    uses: &'static [&'static str],
}

/// kinds of the main exhaustive enumeration
const K: usize = 19;
/// all kinds (the rest fail at their very first token, before any node event)
const K_ALL: usize = 33;
static KINDS: [Kind; K_ALL] = [
    Kind { name: "valid-block", nature: Nature::Plain, defines: &[], uses: &[] },
    Kind { name: "valid-flow", nature: Nature::Plain, defines: &[], uses: &[] },
    Kind { name: "valid-nested", nature: Nature::Plain, defines: &[], uses: &[] },
    Kind { name: "empty", nature: Nature::Null, defines: &[], uses: &[] },
    Kind { name: "tilde", nature: Nature::Null, defines: &[], uses: &[] },
    Kind { name: "anchor-def", nature: Nature::Plain, defines: &["x", "y"], uses: &[] },
    Kind { name: "alias-first-field", nature: Nature::Alias, defines: &[], uses: &["x"] },
    Kind { name: "type-error-first-field", nature: Nature::Plain, defines: &[], uses: &[] },
    Kind { name: "type-error-last-field", nature: Nature::Plain, defines: &[], uses: &[] },
    Kind { name: "syntax-error", nature: Nature::Syntax, defines: &[], uses: &[] },
    Kind { name: "unterminated-flow", nature: Nature::Syntax, defines: &[], uses: &[] },
    Kind { name: "overflow-root", nature: Nature::Plain, defines: &[], uses: &[] },
    Kind { name: "alias-nested-late", nature: Nature::Alias, defines: &[], uses: &["y"] },
    Kind { name: "type-error-nested", nature: Nature::Plain, defines: &[], uses: &[] },
    Kind { name: "missing-last-field", nature: Nature::Plain, defines: &[], uses: &[] },
    Kind { name: "type-error-in-replay", nature: Nature::Plain, defines: &["y"], uses: &[] },
    Kind { name: "root-int", nature: Nature::Plain, defines: &[], uses: &[] },
    Kind { name: "type-error-peeked-unit", nature: Nature::Plain, defines: &[], uses: &[] },
    // quoted root scalar spelled like null: a string, not a null document
    Kind { name: "quoted-null-dq", nature: Nature::Plain, defines: &[], uses: &[] },
    // documents that fail before producing any node
    Kind { name: "root-unterminated-dquote", nature: Nature::Syntax, defines: &[], uses: &[] },
    Kind { name: "root-reserved-indicator", nature: Nature::Syntax, defines: &[], uses: &[] },
    Kind { name: "root-unterminated-flow", nature: Nature::Syntax, defines: &[], uses: &[] },
    Kind { name: "root-undefined-alias", nature: Nature::Alias, defines: &[], uses: &["nope"] },
    Kind { name: "flow-unterminated-dquote", nature: Nature::Syntax, defines: &[], uses: &[] },
    Kind { name: "flow-reserved-indicator", nature: Nature::Syntax, defines: &[], uses: &[] },
    Kind { name: "flow-nested-unterminated", nature: Nature::Syntax, defines: &[], uses: &[] },
    Kind { name: "flow-undefined-alias", nature: Nature::Alias, defines: &[], uses: &["nope"] },
    // more quoted null-like / empty root scalars (strings)
    Kind { name: "quoted-tilde-sq", nature: Nature::Plain, defines: &[], uses: &[] },
    Kind { name: "quoted-empty-dq", nature: Nature::Plain, defines: &[], uses: &[] },
    Kind { name: "quoted-empty-sq", nature: Nature::Plain, defines: &[], uses: &[] },
    Kind { name: "quoted-Null-dq", nature: Nature::Plain, defines: &[], uses: &[] },
    Kind { name: "quoted-NULL-sq", nature: Nature::Plain, defines: &[], uses: &[] },
    // valid for every ordinary target, rejected by the validating ones (a > 5000)
    Kind { name: "fails-validation", nature: Nature::Plain, defines: &[], uses: &[] },
];
const FAIL_FIRST: std::ops::Range<usize> = 19..27;
/// quoted documents spelled like null / empty
const QUOTED_NULLISH: [usize; 6] = [18, 27, 28, 29, 30, 31];

/// Body text of a document of `kind` with the four numbers `v` (all >= 0).
fn body(kind: usize, v: [u32; 4]) -> String {
    let [v0, v1, v2, v3] = v;
    match kind {
        0 => format!("a: {v0}\nl: [{v1}, {v2}]\nz: {v3}\n"),
        1 => format!("{{a: {v0}, z: {v3}}}\n"),
        2 => format!("a: {v0}\ns: |\n  --- in {v1}\n  ... in\nm:\n  k: {v1}\n  j: {v2}\nl:\n- {v2}\n- {v3}\nz: {v3}\n"),
        3 => String::new(),
        4 => "~\n".to_string(),
        5 => format!("a: &x {v0}\nl: &y [{v1}, {v2}]\nz: *x\n"),
        6 => format!("a: *x\nz: {v3}\n"),
        7 => format!("a: n{v0}\nl: [{v1}]\nz: {v3}\n"),
        8 => format!("a: {v0}\nl: [{v1}, {v2}]\nz: n{v3}\n"),
        9 => format!("a: {v0}\n- x{v1}\n"),
        10 => format!("a: [{v0}, {v1}\n"),
        11 => format!("99999999999999999999{v0}\n"),
        12 => format!("a: {v0}\nl: [{v1}, *y]\nz: {v3}\n"),
        13 => format!("a: {v0}\nm:\n  k: n{v1}\n  j: {v2}\nl: [{v2}]\nz: {v3}\n"),
        14 => format!("a: {v0}\nl: [{v1}]\n"),
        15 => format!("a: {v0}\nl: &y [{v1}, {v2}]\nm: *y\nz: {v3}\n"),
        16 => format!("{v0}\n"),
        17 => format!("a: {v0}\nu: {v1}\nl: [{v2}]\nz: {v3}\n"),
        18 => "\"null\"\n".to_string(),
        19 => format!("\"abc{v0}\n"),
        20 => format!("@foo{v0}\n"),
        21 => format!("[{v0}, {v1}\n"),
        22 => "*nope\n".to_string(),
        23 => format!("[\"abc{v0}\n"),
        24 => format!("{{a: @foo{v0}}}\n"),
        25 => format!("{{a: [{v0}, {v1}\n"),
        26 => "[*nope]\n".to_string(),
        27 => "'~'\n".to_string(),
        28 => "\"\"\n".to_string(),
        29 => "''\n".to_string(),
        30 => "\"Null\"\n".to_string(),
        31 => "'NULL'\n".to_string(),
        32 => format!("a: 9999{v0}\nl: [{v1}]\nz: {v3}\n"),
        _ => unreachable!(),
    }
}

fn pos_vals(pos: usize) -> [u32; 4] {
    let b = 10 * pos as u32;
    [b + 1, b + 2, b + 3, b + 4]
}

/// Alias-free variant with the same line structure (for confirming the cut).
fn skeleton(body: &str) -> String {
    body.replace("*x", "00").replace("*y", "00").replace("*nope", "00000")
}

// ------------------------------------------------------------------ stream composition

#[derive(Clone, Debug)]
struct Stream {
    kinds: Vec<usize>,
    bodies: Vec<String>,
    /// marker style before document i (see `compose`)
    seps: Vec<u8>,
    trailer: u8,
    /// every line break of bodies and separators written as CR LF
    crlf: bool,
    text: String,
}

fn breaks(s: String, crlf: bool) -> String {
    if crlf { s.replace('\n', "\r\n") } else { s }
}

const N_SEPS: u8 = 7;
const N_TRAILERS: u8 = 4;

fn compose(bodies: &[String], seps: &[u8], trailer: u8) -> String {
    let mut s = String::new();
    for (i, b) in bodies.iter().enumerate() {
        let first = i == 0;
        match seps[i] {
            0 => s.push_str("---\n"),
            1 => {
                if !first {
                    s.push_str("...\n");
                }
                s.push_str("---\n");
            }
            2 => {
                if !first {
                    s.push_str(&format!("# after document {}\n", i - 1));
                }
                s.push_str("--- # marker comment\n");
            }
            3 => {
                if !first {
                    s.push_str("... # end comment\n");
                }
                s.push_str("---\n");
            }
            4 => {
                // implicit start: only meaningful for a non-empty first document
                if !(first && !b.is_empty() && !b.starts_with('#')) {
                    s.push_str("---\n");
                }
            }
            5 => {
                if !first {
                    s.push('\n');
                }
                s.push_str("---\n");
            }
            _ => {
                // content on the marker line (single-line bodies only)
                // (not a block mapping: `--- a: 1` is not a document `a: 1`)
                if b.matches('\n').count() == 1 && b.ends_with('\n') && b.starts_with(|c: char| !c.is_ascii_alphabetic() && c != '#' && c != '\n') {
                    s.push_str("--- ");
                } else {
                    s.push_str("---\n");
                }
            }
        }
        s.push_str(b);
    }
    match trailer {
        1 => s.push_str("...\n"),
        2 => s.push_str("# end of stream\n"),
        3 => s.push_str("...\n# end of stream\n"),
        _ => {}
    }
    s
}

impl Stream {
    fn new(kinds: Vec<usize>, bodies: Vec<String>, seps: Vec<u8>, trailer: u8, crlf: bool) -> Stream {
        let text = breaks(compose(&bodies, &seps, trailer), crlf);
        Stream { kinds, bodies, seps, trailer, crlf, text }
    }
    /// The text of document i as it is deserialized on its own.
    fn body_text(&self, i: usize) -> String {
        breaks(self.bodies[i].clone(), self.crlf)
    }
    fn n(&self) -> usize {
        self.kinds.len()
    }
    fn to_json(&self, target: &str, chunk: usize) -> Value {
        json!({
            "text": self.text,
            "kinds": self.kinds,
            "kind_names": self.kinds.iter().map(|k| KINDS[*k].name).collect::<Vec<_>>(),
            "bodies": self.bodies,
            "seps": self.seps,
            "trailer": self.trailer,
            "crlf": self.crlf,
            "opt_used": CALL_OPT.with(|c| c.get().0),
            "opt_used_name": OPT_NAMES[CALL_OPT.with(|c| c.get().0)],
            "opt": CALL_OPT.with(|c| c.get().1),
            "flip": CALL_OPT.with(|c| c.get().2),
            "target": target,
            "chunk": chunk,
        })
    }
    fn from_json(v: &Value) -> Option<(Stream, String, usize, usize, bool)> {
        let kinds: Vec<usize> = v["kinds"].as_array()?.iter().map(|x| x.as_u64().unwrap_or(0) as usize).collect();
        let bodies: Vec<String> = v["bodies"].as_array()?.iter().map(|x| x.as_str().unwrap_or("").to_string()).collect();
        let seps: Vec<u8> = v["seps"].as_array()?.iter().map(|x| x.as_u64().unwrap_or(0) as u8).collect();
        let trailer = v["trailer"].as_u64()? as u8;
        if kinds.len() != bodies.len() || kinds.len() != seps.len() || kinds.iter().any(|k| *k >= K_ALL) {
            return None;
        }
        let s = Stream::new(kinds, bodies, seps, trailer, v["crlf"].as_bool().unwrap_or(false));
        if s.text != v["text"].as_str()? {
            return None;
        }
        Some((
            s,
            v["target"].as_str()?.to_string(),
            v["chunk"].as_u64().unwrap_or(4096) as usize,
            (v["opt"].as_u64().unwrap_or(0) as usize).min(N_OPTS - 1),
            v["flip"].as_bool().unwrap_or(false),
        ))
    }
}

// ------------------------------------------------------------------ raw-parser confirmation

fn ev_shape(e: &RawEvent) -> String {
    match &e.kind {
        RawKind::Scalar { value, style, anchor, tag } => {
            format!("S{}{:?}{}{}", style_char(*style), value, if *anchor != 0 { "&" } else { "" }, tag.as_deref().unwrap_or(""))
        }
        RawKind::Alias(_) => "*".into(),
        RawKind::SeqStart { anchor, .. } => format!("[{}", if *anchor != 0 { "&" } else { "" }),
        RawKind::SeqEnd => "]".into(),
        RawKind::MapStart { anchor, .. } => format!("{{{}", if *anchor != 0 { "&" } else { "" }),
        RawKind::MapEnd => "}".into(),
        RawKind::DocStart(_) => "DS".into(),
        RawKind::DocEnd => "DE".into(),
        RawKind::StreamStart => "SS".into(),
        RawKind::StreamEnd => "SE".into(),
        RawKind::Nothing => "N".into(),
    }
}

/// Content-event shapes per document (a document that was cut short by a scan
/// error is returned as the last, possibly partial, entry).
fn docs_of(evs: &[RawEvent]) -> Vec<Vec<String>> {
    let mut out: Vec<Vec<String>> = Vec::new();
    for e in evs {
        match e.kind {
            RawKind::DocStart(_) => out.push(Vec::new()),
            RawKind::DocEnd | RawKind::StreamStart | RawKind::StreamEnd | RawKind::Nothing => {}
            _ => {
                if let Some(d) = out.last_mut() {
                    d.push(ev_shape(e));
                }
            }
        }
    }
    out
}

struct Confirmed {
    /// number of DocumentStart events the raw parser produced on the real text
    /// before its first scan error (or in total)
    raw_doc_starts: usize,
    /// index of the document in which the raw parser fails on the real text
    raw_err_doc: Option<usize>,
}

/// Confirm the generator's cut against the raw parser. `Err(reason)` = inconclusive.
fn confirm(st: &Stream) -> Result<Confirmed, &'static str> {
    let n = st.n();
    let first_syntax = st.kinds.iter().position(|k| KINDS[*k].nature == Nature::Syntax);
    // (a) alias-free skeleton: document count and per-document shape
    let skel_bodies: Vec<String> = st.bodies.iter().map(|b| skeleton(b)).collect();
    let skel = breaks(compose(&skel_bodies, &st.seps, st.trailer), st.crlf);
    let (evs, err) = raw_events(&skel);
    let docs = docs_of(&evs);
    match first_syntax {
        Some(f) => {
            if err.is_none() {
                return Err("cut not confirmed: syntax-error document parsed cleanly");
            }
            // (a failing implicit first document may fail before its DocumentStart is reported)
            if docs.len() != f + 1 && !(f == 0 && docs.is_empty()) {
                return Err("cut not confirmed: DocumentStart count before the scan error differs");
            }
        }
        None => {
            if err.is_some() {
                return Err("cut not confirmed: unexpected scan error in skeleton");
            }
            if docs.len() != n {
                return Err("cut not confirmed: DocumentStart count differs");
            }
        }
    }
    for i in 0..first_syntax.unwrap_or(n) {
        let (aevs, aerr) = raw_events(&breaks(format!("---\n{}", skel_bodies[i]), st.crlf));
        if aerr.is_some() {
            return Err("cut not confirmed: skeleton body does not parse alone");
        }
        let adocs = docs_of(&aevs);
        if adocs.len() != 1 || adocs[0] != docs[i] {
            return Err("cut not confirmed: document shape in stream differs from body alone");
        }
    }
    // (b) real text: where does the raw parser stop?
    let mut defined: Vec<&str> = Vec::new();
    let mut predicted: Option<usize> = None;
    for (i, k) in st.kinds.iter().enumerate() {
        let kd = &KINDS[*k];
        if kd.nature == Nature::Syntax || kd.uses.iter().any(|u| !defined.contains(u)) {
            predicted = Some(i);
            break;
        }
        defined.extend_from_slice(kd.defines);
    }
    let (revs, rerr) = raw_events(&st.text);
    let rdocs = docs_of(&revs);
    match predicted {
        Some(p) => {
            if rerr.is_none() || (rdocs.len() != p + 1 && !(p == 0 && rdocs.is_empty())) {
                return Err("cut not confirmed: raw parser does not fail in the predicted document");
            }
        }
        None => {
            if rerr.is_some() || rdocs.len() != n {
                return Err("cut not confirmed: raw parser result on the real text differs");
            }
        }
    }
    Ok(Confirmed { raw_doc_starts: rdocs.len(), raw_err_doc: predicted })
}

// ------------------------------------------------------------------ expectation

#[derive(Clone, Copy, Debug, PartialEq)]
enum Class {
    Ok,
    TypeErr,
    Syntax,
    /// dangling alias, raw parser resolved the name to an earlier document's anchor
    AliasRawOk,
    /// dangling alias, raw parser itself reports a scan error
    AliasRawErr,
    /// deserialized, then rejected by garde / validator
    Validation,
}

impl Class {
    fn tag(self) -> &'static str {
        match self {
            Class::Ok => "ok",
            Class::TypeErr => "type-error",
            Class::Syntax => "syntax-error",
            Class::AliasRawOk | Class::AliasRawErr => "dangling-alias",
            Class::Validation => "validation-error",
        }
    }
}

struct PlanItem {
    doc: usize,
    class: Class,
    /// Some(value) when the document succeeds alone
    value: Option<String>,
}

/// `alone[i]` = the body of document i deserialized on its own.
fn plan(st: &Stream, cf: &Confirmed, alone: &[Out]) -> Result<Vec<PlanItem>, &'static str> {
    let mut out = Vec::new();
    for i in 0..st.n() {
        let kd = &KINDS[st.kinds[i]];
        match kd.nature {
            Nature::Null => continue,
            Nature::Plain => match &alone[i] {
                Ok(v) => out.push(PlanItem { doc: i, class: Class::Ok, value: Some(v.clone()) }),
                Err(k) if k.starts_with("Validat") => out.push(PlanItem { doc: i, class: Class::Validation, value: None }),
                Err(_) => out.push(PlanItem { doc: i, class: Class::TypeErr, value: None }),
            },
            Nature::Syntax => {
                if alone[i].is_ok() {
                    return Err("model: syntax-error body deserialized alone without error");
                }
                out.push(PlanItem { doc: i, class: Class::Syntax, value: None });
            }
            Nature::Alias => {
                if alone[i].is_ok() {
                    return Err("model: dangling-alias body deserialized alone without error");
                }
                let class = if cf.raw_err_doc == Some(i) { Class::AliasRawErr } else { Class::AliasRawOk };
                out.push(PlanItem { doc: i, class, value: None });
            }
        }
    }
    Ok(out)
}

fn kind_group(k: usize) -> &'static str {
    match KINDS[k].nature {
        Nature::Null => "null",
        Nature::Alias => "alias",
        Nature::Syntax => "syntax",
        Nature::Plain => match k {
            0..=2 | 16 | 32 => "valid",
            5 => "anchor-def",
            15 => "replay",
            18 | 27..=31 => "quoted-null-like",
            _ => "type-error-kind",
        },
    }
}

// ------------------------------------------------------------------ the monitor

struct Local {
    c: BTreeMap<&'static str, u64>,
}

thread_local! {
    /// (option vector used by the call being judged, option vector of the stream, flip)
    static CALL_OPT: std::cell::Cell<(usize, usize, bool)> = const { std::cell::Cell::new((0, 0, false)) };
    static SEEN_LABELS: std::cell::RefCell<std::collections::HashSet<u64>> = std::cell::RefCell::new(Default::default());
    static MAX_SLACK: std::cell::Cell<u64> = const { std::cell::Cell::new(0) };
}

/// `run.observe` behind a per-thread filter (the global set is behind one lock).
fn observe(run: &Run, set: &'static str, class: &str, kind: &str) {
    let h = fnv_parts(&[set.as_bytes(), class.as_bytes(), kind.as_bytes()]);
    let new = SEEN_LABELS.with(|s| s.borrow_mut().insert(h));
    if new {
        run.observe(set, &format!("{class}:{kind}"));
    }
}
static VIOLATION_COUNTS: std::sync::Mutex<BTreeMap<String, u64>> = std::sync::Mutex::new(BTreeMap::new());
const MAX_REPORTS_PER_SIGNATURE: u64 = 16;

/// Report a violation; after `MAX_REPORTS_PER_SIGNATURE` reports of one signature the rest are
/// only counted (the run has failed anyway, and `Run::violation` de-duplicates with a linear scan).
fn viol(run: &Run, signature: &str, case: Value, detail: String) {
    let n = {
        let mut m = VIOLATION_COUNTS.lock().unwrap();
        let e = m.entry(signature.to_string()).or_insert(0);
        *e += 1;
        *e
    };
    if n <= MAX_REPORTS_PER_SIGNATURE {
        let detail = format!("{detail} [options: {}]", OPT_NAMES[CALL_OPT.with(|c| c.get().0)]);
        run.violation(signature, case, detail);
    }
}

impl Local {
    fn new() -> Self {
        Local { c: BTreeMap::new() }
    }
    fn add(&mut self, k: &'static str, n: u64) {
        *self.c.entry(k).or_insert(0) += n;
    }
}

fn show_items(items: &[Out]) -> String {
    let v: Vec<String> = items
        .iter()
        .map(|o| match o {
            Ok(v) => format!("Ok({v})"),
            Err(k) => format!("Err({k})"),
        })
        .collect();
    format!("[{}]", v.join(", "))
}

fn show_plan(p: &[PlanItem]) -> String {
    let v: Vec<String> = p
        .iter()
        .map(|i| match &i.value {
            Some(v) => format!("#{} Ok({v})", i.doc),
            None => format!("#{} Err<{}>", i.doc, i.class.tag()),
        })
        .collect();
    format!("[{}]", v.join(", "))
}

/// Compare the items of one iterator run with the plan.
fn check_iter(run: &Run, lc: &mut Local, st: &Stream, tn: &str, chunk: usize, entry: &'static str, plan: &[PlanItem], tr: &IterTrace) {
    let case = || {
        let mut c = st.to_json(tn, chunk);
        c["entry"] = json!(entry);
        c
    };
    let detail = |what: &str| format!("{entry}<{tn}>: {what}; expected {} got {} (calls={}, ended={})", show_plan(plan), show_items(&tr.items), tr.calls, tr.ended);
    if !tr.ended {
        viol(run,
            "C11:iter:no-none-within-documents+2-calls",
            case(),
            detail(&format!("iterator did not return None within {} next() calls for {} documents", tr.calls, st.n())),
        );
        return;
    }
    if tr.item_after_none {
        viol(run, "C11:iter:item-after-none", case(), detail("iterator yielded an item after returning None"));
        return;
    }
    lc.add("iter_runs_ended_within_bound", 1);
    let mut ai = 0usize;
    let mut prev: Option<Class> = None;
    let prev_tag = |p: Option<Class>| p.map(|c| c.tag()).unwrap_or("start");
    for item in plan {
        let grp = kind_group(st.kinds[item.doc]);
        let Some(act) = tr.items.get(ai) else {
            // iterator ended although documents remain
            match prev {
                Some(Class::AliasRawOk) => {
                    lc.add("unspecified/iterator-ended-after-dangling-alias", 1);
                }
                Some(Class::Validation) => {
                    lc.add("unspecified/iterator-ended-after-validation-error", 1);
                }
                _ => viol(run,
                    &format!("C11:iter:ended-early:after-{}", prev_tag(prev)),
                    case(),
                    detail(&format!("iterator ended before document #{} ({})", item.doc, KINDS[st.kinds[item.doc]].name)),
                ),
            }
            return;
        };
        match (&item.value, act) {
            (Some(v), Ok(a)) if v == a => {
                if prev == Some(Class::TypeErr) {
                    lc.add("iter_ok_item_right_after_type_error", 1);
                }
                if prev == Some(Class::AliasRawOk) {
                    lc.add("iter_ok_item_right_after_dangling_alias", 1);
                }
                if prev == Some(Class::Validation) {
                    lc.add("iter_ok_item_right_after_validation_error", 1);
                }
            }
            (Some(_), Ok(_)) => {
                viol(run,
                    &format!("C11:iter:value-differs:at-{grp}:after-{}", prev_tag(prev)),
                    case(),
                    detail(&format!("item for document #{} differs from the document deserialized alone", item.doc)),
                );
                return;
            }
            (Some(_), Err(_)) => {
                viol(run,
                    &format!("C11:iter:expected-ok-got-err:at-{grp}:after-{}", prev_tag(prev)),
                    case(),
                    detail(&format!("document #{} succeeds alone but failed in the stream", item.doc)),
                );
                return;
            }
            (None, Ok(_)) => {
                viol(run,
                    &format!("C11:iter:expected-err-got-ok:at-{grp}:after-{}", prev_tag(prev)),
                    case(),
                    detail(&format!("document #{} ({}) fails alone but succeeded in the stream", item.doc, KINDS[st.kinds[item.doc]].name)),
                );
                return;
            }
            (None, Err(k)) => {
                observe(run, "iter_error_kinds", item.class.tag(), k);
            }
        }
        ai += 1;
        match item.class {
            Class::Syntax => {
                if tr.items.len() != ai {
                    viol(run,
                        "C11:iter:continued-after-syntax-error",
                        case(),
                        detail(&format!("iterator yielded {} more item(s) after the syntax error in document #{}", tr.items.len() - ai, item.doc)),
                    );
                } else {
                    lc.add("iter_ended_at_syntax_error", 1);
                }
                return;
            }
            Class::AliasRawErr => {
                lc.add("unspecified/after-dangling-alias-scan-error", 1);
                return;
            }
            Class::AliasRawOk => lc.add("iter_dangling_alias_failed_in_its_document", 1),
            Class::TypeErr => lc.add("iter_type_error_items", 1),
            Class::Validation => lc.add("iter_validation_error_items", 1),
            Class::Ok => lc.add("iter_ok_items", 1),
        }
        prev = Some(item.class);
    }
    if tr.items.len() > ai {
        viol(run,
            &format!("C11:iter:extra-items:after-{}", prev_tag(prev)),
            case(),
            detail("iterator yielded more items than the stream has non-null documents"),
        );
    }
}

fn check_batch(run: &Run, lc: &mut Local, st: &Stream, tn: &str, entry: &'static str, plan: &[PlanItem], got: &Result<Vec<String>, String>) {
    let case = || {
        let mut c = st.to_json(tn, 0);
        c["entry"] = json!(entry);
        c
    };
    let first_bad = plan.iter().find(|p| p.value.is_none());
    match (first_bad, got) {
        (None, Ok(list)) => {
            let want: Vec<&String> = plan.iter().map(|p| p.value.as_ref().unwrap()).collect();
            if want.len() != list.len() || want.iter().zip(list.iter()).any(|(a, b)| *a != b) {
                viol(run,
                    "C11:batch:list-differs",
                    case(),
                    format!("{entry}<{tn}>: expected {} got [{}]", show_plan(plan), list.join(", ")),
                );
            } else {
                lc.add("batch_ok_lists", 1);
            }
        }
        (None, Err(k)) => viol(run,
            "C11:batch:expected-ok-got-err",
            case(),
            format!("{entry}<{tn}>: every document succeeds alone, stream gave Err({k}); expected {}", show_plan(plan)),
        ),
        (Some(bad), Ok(list)) => viol(run,
            &format!("C11:batch:expected-err-got-ok:{}", bad.class.tag()),
            case(),
            format!(
                "{entry}<{tn}>: document #{} ({}) fails alone, stream gave Ok([{}])",
                bad.doc,
                KINDS[st.kinds[bad.doc]].name,
                list.join(", ")
            ),
        ),
        (Some(bad), Err(k)) => {
            observe(run, "batch_error_kinds", bad.class.tag(), k);
            lc.add("batch_err", 1);
        }
    }
}

fn check_single(run: &Run, lc: &mut Local, st: &Stream, cf: &Confirmed, tn: &str, chunk: usize, which: Single, alone0: &Out, got: &Out) {
    let case = || {
        let mut c = st.to_json(tn, chunk);
        c["entry"] = json!(which.name());
        c
    };
    if cf.raw_doc_starts >= 2 {
        match got {
            Ok(v) => viol(run,
                "C11:single:multi-document-stream-accepted",
                case(),
                format!("{}<{tn}>: raw parser shows {} DocumentStart events, got Ok({v})", which.name(), cf.raw_doc_starts),
            ),
            Err(k) => {
                observe(run, "single_reject_kinds", which.name(), k);
                lc.add("single_rejected_multi_document_stream", 1);
            }
        }
        return;
    }
    if st.n() >= 2 {
        // the raw parser stops inside the first document: the stream must not be accepted
        if alone0.is_err() {
            match got {
                Ok(v) => viol(run,
                    "C11:single:failing-first-document-accepted",
                    case(),
                    format!("{}<{tn}>: first document fails alone ({alone0:?}), stream gave Ok({v})", which.name()),
                ),
                Err(_) => lc.add("single_rejected_failing_first_document", 1),
            }
        }
        return;
    }
    // exactly one document: markers and comments around it must not matter
    match (alone0, got) {
        (Ok(a), Ok(b)) if a == b => lc.add("single_one_document_stream_same_value", 1),
        (Err(_), Err(_)) => lc.add("single_one_document_stream_both_err", 1),
        _ => viol(run,
            "C11:single:one-document-stream-differs-from-document",
            case(),
            format!("{}<{tn}>: document alone {:?}, one-document stream {:?}", which.name(), alone0, got),
        ),
    }
}

struct Plan2 {
    which_singles: &'static [Single],
    trace_hooks: bool,
    /// option vector crossed in (1..N_OPTS); 0 = only the plain API functions
    opt: usize,
    /// which half of the entry points gets the option vector
    flip: bool,
}

/// Run every entry point on one confirmed stream for one target. `alone_plain[i]` / `alone_opt[i]` =
/// document i on its own through `from_str` / `from_str_with_options(opts(p2.opt))`.
fn check_stream(run: &Run, lc: &mut Local, st: &Stream, t: &'static Target, alone_plain: &[Out], alone_opt: &[Out], chunk: usize, p2: &Plan2) {
    let set_opt = |used: usize| CALL_OPT.with(|c| c.set((used, p2.opt, p2.flip)));
    set_opt(0);
    let cf = match confirm(st) {
        Ok(c) => c,
        Err(why) => {
            run.inconclusive(why);
            return;
        }
    };
    let (pl_plain, pl_opt) = match (plan(st, &cf, alone_plain), plan(st, &cf, alone_opt)) {
        (Ok(a), Ok(b)) => (a, b),
        (Err(why), _) | (_, Err(why)) => {
            run.inconclusive(why);
            return;
        }
    };
    let n = st.n();
    if n >= 2 {
        run.nontrivial(fnv_parts(&[st.text.as_bytes(), t.name.as_bytes(), &[p2.opt as u8, p2.flip as u8]]));
    }
    lc.add("streams_x_targets_checked", 1);
    let pan = |run: &Run, entry: &str, p: String| {
        let mut c = st.to_json(t.name, chunk);
        c["entry"] = json!(entry);
        viol(run, &format!("C11:panic:{}", panic_site(&p)), c, format!("{entry}<{}> panicked: {p}", t.name));
    };
    let pick = |with_opt: bool| if with_opt { (p2.opt, &pl_opt, alone_opt) } else { (0usize, &pl_plain, alone_plain) };
    // batch: one of the two functions gets the option vector
    for (slice, entry) in [(false, "from_multiple"), (true, "from_slice_multiple")] {
        let (o, pl, _) = pick(p2.opt != 0 && (slice != p2.flip));
        set_opt(o);
        run.eval();
        match catch(|| (t.batch)(&st.text, slice, o)) {
            Ok(got) => check_batch(run, lc, st, t.name, entry, pl, &got),
            Err(p) => pan(run, entry, p),
        }
    }
    // iterators: `read` and `read_with_options(option vector)`
    for (with_options, entry) in [(false, "read"), (true, "read_with_options")] {
        // without a crossed-in vector, read_with_options runs with Options::default()
        let (o, pl, _) = if with_options && p2.opt == 0 { (N_OPTS - 1, &pl_plain, alone_plain) } else { pick(with_options) };
        set_opt(o);
        run.eval();
        let ch = if with_options { chunk } else { 1 << 16 };
        let r = if p2.trace_hooks && with_options {
            let (r, trace) = vcore::hooks::traced(1 << 14, || catch(|| (t.iter)(st.text.as_bytes(), ch, o, n + 2)));
            let sh = trace.shadow();
            lc.add("hook_doc_resets", sh.doc_resets);
            lc.add("hook_parser_pumps", sh.pumps_parser);
            lc.add("hook_replay_pumps", sh.pumps_replay);
            lc.add("hook_traced_runs", 1);
            r
        } else {
            catch(|| (t.iter)(st.text.as_bytes(), ch, o, n + 2))
        };
        match r {
            Ok(tr) => {
                if tr.ended {
                    let slack = (tr.calls as i64 - n as i64).max(0) as u64;
                    if MAX_SLACK.with(|m| m.get() < slack && { m.set(slack); true }) {
                        run.max("iter_max_calls_minus_documents", slack);
                    }
                }
                check_iter(run, lc, st, t.name, ch, entry, pl, &tr)
            }
            Err(p) => pan(run, entry, p),
        }
    }
    // single-document entry points, alternately plain and with the option vector
    for (wi, &w) in p2.which_singles.iter().enumerate() {
        let (o, _, alone) = pick(p2.opt != 0 && ((wi % 2 == 0) != p2.flip));
        set_opt(o);
        run.eval();
        match catch(|| (t.single)(&st.text, w, chunk, o)) {
            Ok(got) => check_single(run, lc, st, &cf, t.name, chunk, w, &alone[0], &got),
            Err(p) => pan(run, w.name(), p),
        }
    }
    set_opt(0);
}

// ------------------------------------------------------------------ workloads

const EXH_STYLES: usize = 3;

fn exhaustive_stream(seq: &[usize], style: usize) -> Stream {
    let n = seq.len();
    let bodies: Vec<String> = seq.iter().enumerate().map(|(i, k)| body(*k, pos_vals(i))).collect();
    let (seps, trailer): (Vec<u8>, u8) = match style {
        0 => (vec![0; n], 0),
        1 => (vec![1; n], 1),
        3 => (vec![6; n], 0),
        _ => {
            let mut s = vec![2u8; n];
            s[0] = 4;
            (s, 2)
        }
    };
    Stream::new(seq.to_vec(), bodies, seps, trailer, false)
}

fn random_stream(rng: &mut Rng, max_docs: usize) -> Stream {
    let n = match rng.below(10) {
        0..=2 => rng.range(2, 6.min(max_docs)),
        3..=6 => rng.range(6.min(max_docs), 16.min(max_docs)),
        7..=8 => rng.range(16.min(max_docs), 40.min(max_docs)),
        _ => rng.range(40.min(max_docs), max_docs),
    };
    // how likely a fatal document is: mostly rare, so that long streams are walked to the end
    let fatal_pct = *rng.pick(&[0usize, 0, 2, 5, 15]);
    let alias_pct = *rng.pick(&[0usize, 5, 15, 30]);
    let mut kinds = Vec::with_capacity(n);
    let mut bodies = Vec::with_capacity(n);
    for _ in 0..n {
        let r = rng.below(100);
        let k = if r < fatal_pct {
            *rng.pick(&[9usize, 10, 19, 20, 21, 23, 24, 25])
        } else if r < fatal_pct + alias_pct {
            *rng.pick(&[6usize, 6, 12, 12, 22, 26])
        } else {
            *rng.pick(&[0usize, 0, 1, 2, 2, 3, 4, 5, 5, 7, 7, 8, 8, 11, 13, 13, 14, 15, 16, 17, 17, 18, 27, 28, 29, 30, 31, 32, 32])
        };
        let v = [rng.below(1000) as u32, rng.below(1000) as u32, rng.below(1000) as u32, rng.below(1000) as u32];
        let mut b = body(k, v);
        // spelling variants of the null document
        if k == 4 {
            b = (*rng.pick(&["~\n", "null\n", "~ # null\n", "# only a comment\n"])).to_string();
        }
        kinds.push(k);
        bodies.push(b);
    }
    let uniform = rng.chance(1, 3);
    let u = rng.below(4) as u8;
    let mut seps: Vec<u8> = (0..n).map(|_| if uniform { u } else { rng.below(N_SEPS as usize) as u8 }).collect();
    if rng.chance(1, 3) {
        seps[0] = 4;
    }
    let trailer = rng.below(N_TRAILERS as usize) as u8;
    let crlf = rng.chance(1, 5);
    Stream::new(kinds, bodies, seps, trailer, crlf)
}

fn alone_all(run: &Run, t: &Target, st: &Stream, o: usize) -> Option<Vec<Out>> {
    let mut v = Vec::with_capacity(st.n());
    for i in 0..st.n() {
        let b = &st.body_text(i);
        run.eval();
        match catch(|| (t.alone)(b, o)) {
            Ok(out) => v.push(out),
            Err(p) => {
                viol(
                    run,
                    &format!("C11:panic:{}", panic_site(&p)),
                    json!({"text": b, "target": t.name, "opt": o, "entry": "from_str (document alone)"}),
                    format!("from_str<{}> on a single document panicked: {p}", t.name),
                );
                return None;
            }
        }
    }
    Some(v)
}

/// All sequences of length `lo..=hi` over `alphabet`, addressed by index.
struct SeqSpace {
    alphabet: Vec<usize>,
    lo: usize,
    offsets: Vec<usize>,
}

impl SeqSpace {
    fn new(alphabet: Vec<usize>, lo: usize, hi: usize) -> SeqSpace {
        let mut offsets = vec![0usize];
        for n in lo..=hi {
            let last = *offsets.last().unwrap();
            offsets.push(last + alphabet.len().pow(n as u32));
        }
        SeqSpace { alphabet, lo, offsets }
    }
    fn total(&self) -> usize {
        *self.offsets.last().unwrap()
    }
    fn seq(&self, idx: usize) -> Vec<usize> {
        let j = (1..self.offsets.len()).find(|j| idx < self.offsets[*j]).unwrap();
        let n = self.lo + j - 1;
        let mut r = idx - self.offsets[j - 1];
        let a = self.alphabet.len();
        let mut seq = vec![0usize; n];
        for d in (0..n).rev() {
            seq[d] = self.alphabet[r % a];
            r /= a;
        }
        seq
    }
}

const TWO_SINGLES: [&[Single]; 3] =
    [&[Single::FromStr, Single::WithDeReader], &[Single::FromSlice, Single::FromReader], &[Single::WithDeStr, Single::WithDeSlice]];

fn main() {
    let run = Run::from_args("C11");
    let all_singles: &'static [Single] = &SINGLES;

    if let Some(rep) = run.is_replay() {
        let case = &rep["case"];
        match Stream::from_json(case) {
            Some((st, tn, chunk, opt, flip)) => {
                let Some(t) = target_by_name(&tn) else {
                    eprintln!("harness error: unknown target in replay file");
                    std::process::exit(2);
                };
                let mut lc = Local::new();
                if let (Some(ap), Some(ao)) = (alone_all(&run, t, &st, 0), alone_all(&run, t, &st, opt)) {
                    check_stream(&run, &mut lc, &st, t, &ap, &ao, chunk.max(1), &Plan2 { which_singles: all_singles, trace_hooks: false, opt, flip });
                    check_stream(&run, &mut lc, &st, t, &ap, &ao, chunk.max(1), &Plan2 { which_singles: all_singles, trace_hooks: false, opt, flip: !flip });
                }
            }
            None => {
                // a panic of from_str on one document
                if let (Some(text), Some(tn)) = (case["text"].as_str(), case["target"].as_str())
                    && let Some(t) = target_by_name(tn)
                {
                    let st = Stream::new(vec![0], vec![text.to_string()], vec![4], 0, false);
                    let _ = alone_all(&run, t, &st, (case["opt"].as_u64().unwrap_or(0) as usize).min(N_OPTS - 1));
                } else {
                    eprintln!("harness error: replay file does not describe a C11 case");
                    std::process::exit(2);
                }
            }
        }
        run.finish(Finish::new("replay"));
    }

    let tier = run.tier;
    let max_len = tier.pick(4usize, 5usize);
    let max_pos = max_len + 1;

    // ---- documents alone, per (option vector, target, kind, position): the expectation table of the exhaustive parts
    let mut alone_tab: Vec<Vec<Vec<Vec<Out>>>> = Vec::new(); // [opt][target][kind][pos]
    for o in 0..N_OPTS {
        let mut per_target = Vec::new();
        for t in TARGETS.iter() {
            let mut per_kind = Vec::new();
            for k in 0..K_ALL {
                let mut per_pos = Vec::new();
                for pos in 0..max_pos {
                    run.eval();
                    let b = body(k, pos_vals(pos));
                    match catch(|| (t.alone)(&b, o)) {
                        Ok(out) => {
                            run.observe(
                                "document_alone_outcomes",
                                &format!("{}<{}>[{}]: {}", KINDS[k].name, t.name, OPT_NAMES[o], match &out {
                                    Ok(_) => "Ok".to_string(),
                                    Err(e) => format!("Err({e})"),
                                }),
                            );
                            per_pos.push(out);
                        }
                        Err(p) => {
                            viol(
                                &run,
                                &format!("C11:panic:{}", panic_site(&p)),
                                json!({"text": b, "target": t.name, "opt": o, "entry": "from_str (document alone)"}),
                                format!("from_str<{}> panicked: {p}", t.name),
                            );
                            per_pos.push(Err("panic".into()));
                        }
                    }
                }
                per_kind.push(per_pos);
            }
            per_target.push(per_kind);
        }
        alone_tab.push(per_target);
    }
    let alone_of = |o: usize, ti: usize, seq: &[usize]| -> Vec<Out> { seq.iter().enumerate().map(|(i, k)| alone_tab[o][ti][*k][i].clone()).collect() };

    // one exhaustive stream through the given targets; the option vector rotates with the index
    let exh = |lc: &mut Local, st: &Stream, seq: &[usize], idx: usize, targets: std::ops::Range<usize>, singles: &'static [Single], hooks: bool| {
        let chunk = [1usize, 3, 7, 64, 4096][idx % 5];
        let opt = 1 + idx % (N_OPTS - 1);
        let flip = (idx / (N_OPTS - 1)) % 2 == 1;
        for ti in targets {
            let (ap, ao) = (alone_of(0, ti, seq), alone_of(opt, ti, seq));
            check_stream(&run, lc, st, &TARGETS[ti], &ap, &ao, chunk, &Plan2 { which_singles: singles, trace_hooks: hooks && ti == 1, opt, flip });
        }
    };
    let sample = |st: &Stream| json!({"text": st.text, "kinds": st.kinds.iter().map(|k| KINDS[*k].name).collect::<Vec<_>>()});

    // ---- F1 exhaustive: every kind sequence of length 1..=max_len over the 19 main kinds x 3 layouts x 5 targets
    let main_space = SeqSpace::new((0..K).collect(), 1, max_len);
    run.count("exhaustive_kind_sequences", main_space.total() as u64);
    par_range(main_space.total() * EXH_STYLES, |idx| {
        let seq = main_space.seq(idx / EXH_STYLES);
        let st = exhaustive_stream(&seq, idx % EXH_STYLES);
        let mut lc = Local::new();
        lc.add("exhaustive_streams", 1);
        // all six single-document entry points for short streams; two of them (rotating) beyond
        let singles: &'static [Single] = if seq.len() <= 3 { all_singles } else { TWO_SINGLES[idx % 3] };
        exh(&mut lc, &st, &seq, idx, 0..N_PLAIN, singles, idx % 64 == 0);
        if idx % 40_009 == 0 {
            run.sample(|| sample(&st));
        }
        run.count_map(&lc.c);
    });

    // ---- F2 exhaustive, one document deeper: every sequence of length max_len+1 over 10 core kinds x 3 layouts x 5 targets
    let core: Vec<usize> = vec![0, 1, 3, 5, 6, 7, 8, 9, 14, 17];
    let core_space = SeqSpace::new(core.clone(), max_len + 1, max_len + 1);
    run.count("core_deeper_sequences", core_space.total() as u64);
    par_range(core_space.total() * EXH_STYLES, |idx| {
        let seq = core_space.seq(idx / EXH_STYLES);
        let st = exhaustive_stream(&seq, idx % EXH_STYLES);
        let mut lc = Local::new();
        lc.add("core_deeper_streams", 1);
        exh(&mut lc, &st, &seq, idx, 0..N_PLAIN, TWO_SINGLES[idx % 3], false);
        if idx % 80_021 == 0 {
            run.sample(|| sample(&st));
        }
        run.count_map(&lc.c);
    });

    // ---- F3 exhaustive: documents that fail at their first token, as first and as non-first document:
    //      every prefix of length 0..=2 over the 19 main kinds x 8 failing kinds x 7 marker layouts x {no, one} following document
    let mut prefixes: Vec<Vec<usize>> = vec![vec![]];
    for a in 0..K {
        prefixes.push(vec![a]);
        for b in 0..K {
            prefixes.push(vec![a, b]);
        }
    }
    let n_fail = FAIL_FIRST.len();
    let fam_total = prefixes.len() * n_fail * N_SEPS as usize * 2;
    par_range(fam_total, |idx| {
        let with_suffix = idx % 2 == 1;
        let sep = ((idx / 2) % N_SEPS as usize) as u8;
        let fk = FAIL_FIRST.start + (idx / 2 / N_SEPS as usize) % n_fail;
        let prefix = &prefixes[idx / 2 / N_SEPS as usize / n_fail];
        let mut seq = prefix.clone();
        seq.push(fk);
        if with_suffix {
            seq.push(0);
        }
        let n = seq.len();
        let bodies: Vec<String> = seq.iter().enumerate().map(|(i, k)| body(*k, pos_vals(i))).collect();
        let mut seps = vec![if sep == 4 { 0 } else { sep }; n];
        if sep == 4 {
            seps[0] = 4;
        }
        let st = Stream::new(seq.clone(), bodies, seps, 0, false);
        let mut lc = Local::new();
        lc.add("first_token_failure_streams", 1);
        exh(&mut lc, &st, &seq, idx, 0..TARGETS.len(), all_singles, false);
        if idx % 9973 == 0 {
            run.sample(|| sample(&st));
        }
        run.count_map(&lc.c);
    });

    // ---- F4 exhaustive: quoted null-like documents (strings) next to real null documents, in every position:
    //      every sequence of length 1..=max_len over 11 kinds x 4 layouts
    let q_space = SeqSpace::new([0usize, 3, 4, 7, 16].iter().copied().chain(QUOTED_NULLISH.iter().copied()).collect(), 1, max_len);
    run.count("quoted_null_family_sequences", q_space.total() as u64);
    par_range(q_space.total() * 4, |idx| {
        let seq = q_space.seq(idx / 4);
        if !seq.iter().any(|k| QUOTED_NULLISH.contains(k)) {
            return; // already in the main enumeration
        }
        let st = exhaustive_stream(&seq, idx % 4);
        let mut lc = Local::new();
        lc.add("quoted_null_family_streams", 1);
        exh(&mut lc, &st, &seq, idx, 0..TARGETS.len(), all_singles, false);
        if idx % 19_997 == 0 {
            run.sample(|| sample(&st));
        }
        run.count_map(&lc.c);
    });

    // ---- F5 exhaustive: the validating entry points (garde: *_valid, validator: *_validate):
    //      every sequence of length 1..=max_len over 10 kinds x 3 layouts x 2 validating targets
    let v_space = SeqSpace::new(vec![0, 32, 3, 5, 6, 7, 8, 9, 14, 18], 1, max_len);
    run.count("validating_family_sequences", v_space.total() as u64);
    par_range(v_space.total() * EXH_STYLES, |idx| {
        let seq = v_space.seq(idx / EXH_STYLES);
        let st = exhaustive_stream(&seq, idx % EXH_STYLES);
        let mut lc = Local::new();
        lc.add("validating_family_streams", 1);
        exh(&mut lc, &st, &seq, idx, N_PLAIN..TARGETS.len(), all_singles, false);
        if idx % 9_973 == 0 {
            run.sample(|| sample(&st));
        }
        run.count_map(&lc.c);
    });

    // ---- F6 random longer streams (2..=64 documents), fresh numbers in every document, all 7 targets
    let n_random = tier.pick(60_000usize, 250_000usize);
    par_range(n_random, |i| {
        let mut rng = Rng::stream(run.seed, i as u64);
        let st = random_stream(&mut rng, 64);
        let mut lc = Local::new();
        lc.add("random_streams", 1);
        if st.crlf {
            lc.add("random_streams_crlf", 1);
        }
        run.max("random_max_documents", st.n() as u64);
        let chunk = *rng.pick(&[1usize, 2, 5, 13, 100, 8192]);
        let opt = rng.range(1, N_OPTS - 1);
        let flip = rng.bool();
        for (ti, t) in TARGETS.iter().enumerate() {
            let (Some(ap), Some(ao)) = (alone_all(&run, t, &st, 0), alone_all(&run, t, &st, opt)) else { continue };
            check_stream(&run, &mut lc, &st, t, &ap, &ao, chunk, &Plan2 { which_singles: all_singles, trace_hooks: ti == 1 && i % 16 == 0, opt, flip });
        }
        if i % 2_999 == 0 {
            run.sample(|| sample(&st));
        }
        run.count_map(&lc.c);
    });

    // ---- F7 histories: two iterators alive on one thread, advanced in a random interleaving, with
    //      single-document calls in between; each must still yield its own stream's items
    let n_inter = tier.pick(40_000usize, 200_000usize);
    par_range(n_inter, |i| {
        let mut rng = Rng::stream(run.seed ^ 0x1e7e_11ea_5eed, i as u64);
        let sa = random_stream(&mut rng, 12);
        let sb = random_stream(&mut rng, 12);
        let ti = i % TARGETS.len();
        let t = &TARGETS[ti];
        let o = rng.below(N_OPTS);
        let mut lc = Local::new();
        let prep = |st: &Stream| -> Option<Vec<PlanItem>> {
            let cf = match confirm(st) {
                Ok(c) => c,
                Err(why) => {
                    run.inconclusive(why);
                    return None;
                }
            };
            let alone = alone_all(&run, t, st, o)?;
            match plan(st, &cf, &alone) {
                Ok(p) => Some(p),
                Err(why) => {
                    run.inconclusive(why);
                    None
                }
            }
        };
        let (Some(pa), Some(pb)) = (prep(&sa), prep(&sb)) else { return };
        let sched: Vec<bool> = (0..sa.n() + sb.n() + 4).map(|_| rng.bool()).collect();
        let probe = body(*rng.pick(&[0usize, 5, 7, 15, 6, 32]), [1, 2, 3, 4]);
        CALL_OPT.with(|c| c.set((o, o, false)));
        run.evals(2);
        match catch(|| (t.interleave)(sa.text.as_bytes(), sb.text.as_bytes(), &sched, &probe, o, sa.n() + 2, sb.n() + 2)) {
            Ok((ta, tb)) => {
                let entry = if o == 0 { "read (two iterators interleaved)" } else { "read_with_options (two iterators interleaved)" };
                check_iter(&run, &mut lc, &sa, t.name, 7, entry, &pa, &ta);
                check_iter(&run, &mut lc, &sb, t.name, 3, entry, &pb, &tb);
                lc.add("interleaved_iterator_pairs", 1);
                run.nontrivial(fnv_parts(&[sa.text.as_bytes(), sb.text.as_bytes(), t.name.as_bytes(), &[o as u8], b"interleaved"]));
            }
            Err(p) => viol(
                &run,
                &format!("C11:panic:{}", panic_site(&p)),
                sa.to_json(t.name, 7),
                format!("interleaved iterators over {:?} and {:?} panicked: {p}", sa.text, sb.text),
            ),
        }
        CALL_OPT.with(|c| c.set((0, 0, false)));
        run.count_map(&lc.c);
    });

    let names = |ks: &[usize]| ks.iter().map(|k| KINDS[*k].name).collect::<Vec<_>>().join(", ");
    let scope = format!(
        "F1: every sequence of length 1..={max_len} over the {K} main document kinds ({}) x 3 layouts (`---` | `...`+`---`+final `...` | implicit first document + comment lines + `--- # comment`) x 5 targets (derived struct Doc, untyped Val, i64, RcAnchor struct, String); \
         F2: every sequence of length {} over 10 core kinds ({}) x 3 layouts x 5 targets; \
         F3: every prefix of length 0..=2 over the main kinds followed by one of {} kinds that fail at their first token ({}) x 7 marker layouts (incl. content on the `--- ` line) x {{no, one}} following document x 7 targets; \
         F4: every sequence of length 1..={max_len} over 11 kinds (valid-block, empty, tilde, type-error-first-field, root-int and six quoted null-like/empty root scalars) that contains a quoted one x 4 layouts x 7 targets; \
         F5: every sequence of length 1..={max_len} over 10 kinds ({}) x 3 layouts x the validating entry points of garde (*_valid) and validator (*_validate). \
         Every stream goes through from_multiple, from_slice_multiple, read, read_with_options and the single-document entry points (all six in F3-F5 and for length <= 3, two rotating otherwise); half of these calls (alternating) use the `_with_options` form with one of 6 option vectors ({}) that rotates with the stream index, the expectation being the documents alone under the same vector",
        names(&(0..K).collect::<Vec<_>>()),
        max_len + 1,
        names(&core),
        FAIL_FIRST.len(),
        names(&FAIL_FIRST.collect::<Vec<_>>()),
        names(&v_space.alphabet),
        OPT_NAMES[1..].join(" | "),
    );
    let fin = Finish::new(
        "a case (stream text, target, option vector, which half of the entry points gets the vector) is non-trivial when the stream has >= 2 documents and its cut was confirmed by the raw parser's DocumentStart count and per-document event shapes; an interleaved pair of iterators counts once per (both texts, target, option vector); distinct by hash of those parts. Besides the exhaustive families: seeded random streams of 2..=64 documents (fresh numbers, mixed separators, null spellings, CRLF) through all 7 targets, and random pairs of streams (<= 12 documents each) iterated concurrently on one thread with single-document calls in between",
    )
    .exhaustive(scope)
    .assume("raw saphyr-parser event stream is the ground truth for where documents start and where a scan error occurs")
    .assume("option vectors never bring a limit into reach (<= 64 documents, <= 130 anchors per stream); tight budgets are not crossed in because the batch functions count cumulatively and the iterators per document, by documented policy")
    .assume("unspecified, no verdict: whether the iterator continues after a document that failed on a dangling alias or was rejected by a validator; everything after a dangling alias that the raw parser reports as scan error; content after `...` without `---` is never generated")
    .min_nontrivial(if tier == Tier::Quick { 200_000 } else { 2_000_000 });
    run.finish(fin);
}
