//! C11 — a multi-document stream is the list of its documents, each on its own.
//!
//! Differential oracle on the real code. A stream is *composed* by the generator
//! from document bodies (one of 32 kinds) and separators, so the cut into
//! documents is known by construction; it is then confirmed against the raw
//! `saphyr-parser` event stream (number of `DocumentStart` events, and per
//! document the same event shape as the body parsed on its own). Only confirmed
//! streams get verdicts.
//!
//! Expected items = every body deserialized **alone** with `from_str`:
//!   * empty / `~` / `null` bodies are skipped,
//!   * a body whose alias has no anchor in *that* body must fail (even when an
//!     earlier document of the stream defines the name),
//!   * `from_multiple` / `from_slice_multiple` = `Ok(list)` iff every document
//!     succeeds alone, else `Err`,
//!   * `read` / `read_with_options` yield the same items in order; after a
//!     document that fails with a type-level error the iterator goes on with the
//!     following document; at a syntax error it yields one `Err` and ends; `None`
//!     is reached within `documents + 2` calls of `next()` (calls are counted,
//!     never timed) and stays `None`,
//!   * `from_str` / `from_slice` / `from_reader` / `with_deserializer_from_*`
//!     return `Err` for every stream whose raw parse shows a second
//!     `DocumentStart`, and for a one-document stream give the document's value.
//!
//! Left unspecified (counted, no verdict): whether the iterator goes on after a
//! document that failed on a dangling alias (the statement names type-level and
//! syntax errors only), and everything after a dangling alias that the raw
//! parser itself reports as a scan error.

use serde::Deserialize;
use serde::de::DeserializeOwned;
use serde_json::{Value, json};
use std::collections::BTreeMap;
use std::fmt::Debug;
use vcore::obs::{Fault, FaultReader, Schedule, catch, panic_site};
use vcore::reftree::{RawEvent, RawKind, raw_events, style_char};
use vcore::rng::{Rng, fnv_parts};
use vcore::run::{Finish, Run, Tier, par_range};
use vcore::val::Val;

// ------------------------------------------------------------------ targets

#[derive(Debug, Deserialize, PartialEq)]
#[allow(dead_code)]
struct Doc {
    a: i32,
    #[serde(default)]
    s: Option<String>,
    #[serde(default)]
    m: Option<BTreeMap<String, i32>>,
    #[serde(default)]
    l: Vec<i32>,
    /// `deserialize_unit` rejects a non-null value after *peeking* it (the event stays in the look-ahead slot)
    #[serde(default)]
    u: (),
    z: i32,
}

/// Anchor-identity target: pointer sharing inside one document is part of the value.
#[derive(Deserialize)]
struct RcDoc {
    a: serde_saphyr::RcAnchor<i32>,
    #[serde(default)]
    l: Option<serde_saphyr::RcAnchor<Vec<i32>>>,
    z: serde_saphyr::RcAnchor<i32>,
}

impl Debug for RcDoc {
    fn fmt(&self, f: &mut std::fmt::Formatter<'_>) -> std::fmt::Result {
        write!(
            f,
            "RcDoc{{a:{}, l:{:?}, z:{}, a_is_z:{}}}",
            *self.a.0,
            self.l.as_ref().map(|l| (*l.0).clone()),
            *self.z.0,
            std::rc::Rc::ptr_eq(&self.a.0, &self.z.0)
        )
    }
}

/// Ok(rendered value) or Err(error kind).
type Out = Result<String, String>;

fn conv<T: Debug>(r: Result<T, serde_saphyr::Error>) -> Out {
    match r {
        Ok(v) => Ok(format!("{v:?}")),
        Err(e) => Err(vcore::errs::kind(&e)),
    }
}

#[derive(Default, Debug)]
struct IterTrace {
    items: Vec<Out>,
    calls: usize,
    ended: bool,
    item_after_none: bool,
}

#[derive(Clone, Copy, Debug, PartialEq)]
enum Single {
    FromStr,
    FromSlice,
    FromReader,
    WithDeStr,
    WithDeSlice,
    WithDeReader,
}
const SINGLES: [Single; 6] =
    [Single::FromStr, Single::FromSlice, Single::FromReader, Single::WithDeStr, Single::WithDeSlice, Single::WithDeReader];

impl Single {
    fn name(self) -> &'static str {
        match self {
            Single::FromStr => "from_str",
            Single::FromSlice => "from_slice",
            Single::FromReader => "from_reader",
            Single::WithDeStr => "with_deserializer_from_str",
            Single::WithDeSlice => "with_deserializer_from_slice",
            Single::WithDeReader => "with_deserializer_from_reader",
        }
    }
}

struct Target {
    name: &'static str,
    alone: fn(&str) -> Out,
    batch: fn(&str, bool) -> Result<Vec<String>, String>,
    iter: fn(&[u8], usize, bool, usize) -> IterTrace,
    single: fn(&str, Single, usize) -> Out,
}

fn t_alone<T: DeserializeOwned + Debug>(s: &str) -> Out {
    conv(serde_saphyr::from_str::<T>(s))
}

fn t_batch<T: DeserializeOwned + Debug>(s: &str, slice: bool) -> Result<Vec<String>, String> {
    let r = if slice { serde_saphyr::from_slice_multiple::<T>(s.as_bytes()) } else { serde_saphyr::from_multiple::<T>(s) };
    match r {
        Ok(v) => Ok(v.iter().map(|x| format!("{x:?}")).collect()),
        Err(e) => Err(vcore::errs::kind(&e)),
    }
}

fn t_iter<T: DeserializeOwned + Debug>(bytes: &[u8], chunk: usize, with_options: bool, max_calls: usize) -> IterTrace {
    let mut rd = FaultReader::new(bytes, Schedule::fixed(chunk), Fault::None);
    let mut it: Box<dyn Iterator<Item = Result<T, serde_saphyr::Error>> + '_> = if with_options {
        Box::new(serde_saphyr::read_with_options::<_, T>(&mut rd, serde_saphyr::Options::default()))
    } else {
        serde_saphyr::read::<_, T>(&mut rd)
    };
    let mut tr = IterTrace::default();
    while tr.calls < max_calls {
        tr.calls += 1;
        match it.next() {
            None => {
                tr.ended = true;
                break;
            }
            Some(r) => tr.items.push(conv(r)),
        }
    }
    if tr.ended {
        for _ in 0..2 {
            if it.next().is_some() {
                tr.item_after_none = true;
            }
        }
    }
    tr
}

fn t_single<T: DeserializeOwned + Debug>(s: &str, which: Single, chunk: usize) -> Out {
    match which {
        Single::FromStr => conv(serde_saphyr::from_str::<T>(s)),
        Single::FromSlice => conv(serde_saphyr::from_slice::<T>(s.as_bytes())),
        Single::FromReader => {
            let rd = FaultReader::new(s.as_bytes(), Schedule::fixed(chunk), Fault::None);
            conv(serde_saphyr::from_reader::<_, T>(rd))
        }
        Single::WithDeStr => conv(serde_saphyr::with_deserializer_from_str(s, |de| T::deserialize(de))),
        Single::WithDeSlice => conv(serde_saphyr::with_deserializer_from_slice(s.as_bytes(), |de| T::deserialize(de))),
        Single::WithDeReader => {
            let rd = FaultReader::new(s.as_bytes(), Schedule::fixed(chunk), Fault::None);
            conv(serde_saphyr::with_deserializer_from_reader(rd, |de| T::deserialize(de)))
        }
    }
}

macro_rules! target {
    ($n:expr, $t:ty) => {
        Target { name: $n, alone: t_alone::<$t>, batch: t_batch::<$t>, iter: t_iter::<$t>, single: t_single::<$t> }
    };
}

static TARGETS: [Target; 5] =
    [target!("Doc", Doc), target!("Val", Val), target!("i64", i64), target!("RcDoc", RcDoc), target!("String", String)];

fn target_by_name(n: &str) -> Option<&'static Target> {
    TARGETS.iter().find(|t| t.name == n)
}

// ------------------------------------------------------------------ document kinds

#[derive(Clone, Copy, Debug, PartialEq)]
enum Nature {
    /// value or type-level error, decided by deserializing the body alone
    Plain,
    /// empty / null document: skipped by the multi-document entry points
    Null,
    /// contains an alias whose anchor is not in this document
    Alias,
    /// raw parser fails inside this document
    Syntax,
}

struct Kind {
    name: &'static str,
    nature: Nature,
    /// anchor names this kind defines / uses without defining
    defines: &'static [&'static str],
    uses: &'static [&'static str],
}

/// kinds of the main exhaustive enumeration
const K: usize = 19;
/// all kinds (the rest fail at their very first token, before any node event)
const K_ALL: usize = 32;
static KINDS: [Kind; K_ALL] = [
    Kind { name: "valid-block", nature: Nature::Plain, defines: &[], uses: &[] },
    Kind { name: "valid-flow", nature: Nature::Plain, defines: &[], uses: &[] },
    Kind { name: "valid-nested", nature: Nature::Plain, defines: &[], uses: &[] },
    Kind { name: "empty", nature: Nature::Null, defines: &[], uses: &[] },
    Kind { name: "tilde", nature: Nature::Null, defines: &[], uses: &[] },
    Kind { name: "anchor-def", nature: Nature::Plain, defines: &["x", "y"], uses: &[] },
    Kind { name: "alias-first-field", nature: Nature::Alias, defines: &[], uses: &["x"] },
    Kind { name: "type-error-first-field", nature: Nature::Plain, defines: &[], uses: &[] },
    Kind { name: "type-error-last-field", nature: Nature::Plain, defines: &[], uses: &[] },
    Kind { name: "syntax-error", nature: Nature::Syntax, defines: &[], uses: &[] },
    Kind { name: "unterminated-flow", nature: Nature::Syntax, defines: &[], uses: &[] },
    Kind { name: "overflow-root", nature: Nature::Plain, defines: &[], uses: &[] },
    Kind { name: "alias-nested-late", nature: Nature::Alias, defines: &[], uses: &["y"] },
    Kind { name: "type-error-nested", nature: Nature::Plain, defines: &[], uses: &[] },
    Kind { name: "missing-last-field", nature: Nature::Plain, defines: &[], uses: &[] },
    Kind { name: "type-error-in-replay", nature: Nature::Plain, defines: &["y"], uses: &[] },
    Kind { name: "root-int", nature: Nature::Plain, defines: &[], uses: &[] },
    Kind { name: "type-error-peeked-unit", nature: Nature::Plain, defines: &[], uses: &[] },
    // quoted root scalar spelled like null: a string, not a null document
    Kind { name: "quoted-null-dq", nature: Nature::Plain, defines: &[], uses: &[] },
    // documents that fail before producing any node
    Kind { name: "root-unterminated-dquote", nature: Nature::Syntax, defines: &[], uses: &[] },
    Kind { name: "root-reserved-indicator", nature: Nature::Syntax, defines: &[], uses: &[] },
    Kind { name: "root-unterminated-flow", nature: Nature::Syntax, defines: &[], uses: &[] },
    Kind { name: "root-undefined-alias", nature: Nature::Alias, defines: &[], uses: &["nope"] },
    Kind { name: "flow-unterminated-dquote", nature: Nature::Syntax, defines: &[], uses: &[] },
    Kind { name: "flow-reserved-indicator", nature: Nature::Syntax, defines: &[], uses: &[] },
    Kind { name: "flow-nested-unterminated", nature: Nature::Syntax, defines: &[], uses: &[] },
    Kind { name: "flow-undefined-alias", nature: Nature::Alias, defines: &[], uses: &["nope"] },
    // more quoted null-like / empty root scalars (strings)
    Kind { name: "quoted-tilde-sq", nature: Nature::Plain, defines: &[], uses: &[] },
    Kind { name: "quoted-empty-dq", nature: Nature::Plain, defines: &[], uses: &[] },
    Kind { name: "quoted-empty-sq", nature: Nature::Plain, defines: &[], uses: &[] },
    Kind { name: "quoted-Null-dq", nature: Nature::Plain, defines: &[], uses: &[] },
    Kind { name: "quoted-NULL-sq", nature: Nature::Plain, defines: &[], uses: &[] },
];
const FAIL_FIRST: std::ops::Range<usize> = 19..27;
/// quoted documents spelled like null / empty
const QUOTED_NULLISH: [usize; 6] = [18, 27, 28, 29, 30, 31];

/// Body text of a document of `kind` with the four numbers `v` (all >= 0).
fn body(kind: usize, v: [u32; 4]) -> String {
    let [v0, v1, v2, v3] = v;
    match kind {
        0 => format!("a: {v0}\nl: [{v1}, {v2}]\nz: {v3}\n"),
        1 => format!("{{a: {v0}, z: {v3}}}\n"),
        2 => format!("a: {v0}\ns: |\n  --- in {v1}\n  ... in\nm:\n  k: {v1}\n  j: {v2}\nl:\n- {v2}\n- {v3}\nz: {v3}\n"),
        3 => String::new(),
        4 => "~\n".to_string(),
        5 => format!("a: &x {v0}\nl: &y [{v1}, {v2}]\nz: *x\n"),
        6 => format!("a: *x\nz: {v3}\n"),
        7 => format!("a: n{v0}\nl: [{v1}]\nz: {v3}\n"),
        8 => format!("a: {v0}\nl: [{v1}, {v2}]\nz: n{v3}\n"),
        9 => format!("a: {v0}\n- x{v1}\n"),
        10 => format!("a: [{v0}, {v1}\n"),
        11 => format!("99999999999999999999{v0}\n"),
        12 => format!("a: {v0}\nl: [{v1}, *y]\nz: {v3}\n"),
        13 => format!("a: {v0}\nm:\n  k: n{v1}\n  j: {v2}\nl: [{v2}]\nz: {v3}\n"),
        14 => format!("a: {v0}\nl: [{v1}]\n"),
        15 => format!("a: {v0}\nl: &y [{v1}, {v2}]\nm: *y\nz: {v3}\n"),
        16 => format!("{v0}\n"),
        17 => format!("a: {v0}\nu: {v1}\nl: [{v2}]\nz: {v3}\n"),
        18 => "\"null\"\n".to_string(),
        19 => format!("\"abc{v0}\n"),
        20 => format!("@foo{v0}\n"),
        21 => format!("[{v0}, {v1}\n"),
        22 => "*nope\n".to_string(),
        23 => format!("[\"abc{v0}\n"),
        24 => format!("{{a: @foo{v0}}}\n"),
        25 => format!("{{a: [{v0}, {v1}\n"),
        26 => "[*nope]\n".to_string(),
        27 => "'~'\n".to_string(),
        28 => "\"\"\n".to_string(),
        29 => "''\n".to_string(),
        30 => "\"Null\"\n".to_string(),
        31 => "'NULL'\n".to_string(),
        _ => unreachable!(),
    }
}

fn pos_vals(pos: usize) -> [u32; 4] {
    let b = 10 * pos as u32;
    [b + 1, b + 2, b + 3, b + 4]
}

/// Alias-free variant with the same line structure (for confirming the cut).
fn skeleton(body: &str) -> String {
    body.replace("*x", "00").replace("*y", "00").replace("*nope", "00000")
}

// ------------------------------------------------------------------ stream composition

#[derive(Clone, Debug)]
struct Stream {
    kinds: Vec<usize>,
    bodies: Vec<String>,
    /// marker style before document i (see `compose`)
    seps: Vec<u8>,
    trailer: u8,
    /// every line break of bodies and separators written as CR LF
    crlf: bool,
    text: String,
}

fn breaks(s: String, crlf: bool) -> String {
    if crlf { s.replace('\n', "\r\n") } else { s }
}

const N_SEPS: u8 = 7;
const N_TRAILERS: u8 = 4;

fn compose(bodies: &[String], seps: &[u8], trailer: u8) -> String {
    let mut s = String::new();
    for (i, b) in bodies.iter().enumerate() {
        let first = i == 0;
        match seps[i] {
            0 => s.push_str("---\n"),
            1 => {
                if !first {
                    s.push_str("...\n");
                }
                s.push_str("---\n");
            }
            2 => {
                if !first {
                    s.push_str(&format!("# after document {}\n", i - 1));
                }
                s.push_str("--- # marker comment\n");
            }
            3 => {
                if !first {
                    s.push_str("... # end comment\n");
                }
                s.push_str("---\n");
            }
            4 => {
                // implicit start: only meaningful for a non-empty first document
                if !(first && !b.is_empty() && !b.starts_with('#')) {
                    s.push_str("---\n");
                }
            }
            5 => {
                if !first {
                    s.push('\n');
                }
                s.push_str("---\n");
            }
            _ => {
                // content on the marker line (single-line bodies only)
                // (not a block mapping: `--- a: 1` is not a document `a: 1`)
                if b.matches('\n').count() == 1 && b.ends_with('\n') && b.starts_with(|c: char| !c.is_ascii_alphabetic() && c != '#' && c != '\n') {
                    s.push_str("--- ");
                } else {
                    s.push_str("---\n");
                }
            }
        }
        s.push_str(b);
    }
    match trailer {
        1 => s.push_str("...\n"),
        2 => s.push_str("# end of stream\n"),
        3 => s.push_str("...\n# end of stream\n"),
        _ => {}
    }
    s
}

impl Stream {
    fn new(kinds: Vec<usize>, bodies: Vec<String>, seps: Vec<u8>, trailer: u8, crlf: bool) -> Stream {
        let text = breaks(compose(&bodies, &seps, trailer), crlf);
        Stream { kinds, bodies, seps, trailer, crlf, text }
    }
    /// The text of document i as it is deserialized on its own.
    fn body_text(&self, i: usize) -> String {
        breaks(self.bodies[i].clone(), self.crlf)
    }
    fn n(&self) -> usize {
        self.kinds.len()
    }
    fn to_json(&self, target: &str, chunk: usize) -> Value {
        json!({
            "text": self.text,
            "kinds": self.kinds,
            "kind_names": self.kinds.iter().map(|k| KINDS[*k].name).collect::<Vec<_>>(),
            "bodies": self.bodies,
            "seps": self.seps,
            "trailer": self.trailer,
            "crlf": self.crlf,
            "target": target,
            "chunk": chunk,
        })
    }
    fn from_json(v: &Value) -> Option<(Stream, String, usize)> {
        let kinds: Vec<usize> = v["kinds"].as_array()?.iter().map(|x| x.as_u64().unwrap_or(0) as usize).collect();
        let bodies: Vec<String> = v["bodies"].as_array()?.iter().map(|x| x.as_str().unwrap_or("").to_string()).collect();
        let seps: Vec<u8> = v["seps"].as_array()?.iter().map(|x| x.as_u64().unwrap_or(0) as u8).collect();
        let trailer = v["trailer"].as_u64()? as u8;
        if kinds.len() != bodies.len() || kinds.len() != seps.len() || kinds.iter().any(|k| *k >= K_ALL) {
            return None;
        }
        let s = Stream::new(kinds, bodies, seps, trailer, v["crlf"].as_bool().unwrap_or(false));
        if s.text != v["text"].as_str()? {
            return None;
        }
        Some((s, v["target"].as_str()?.to_string(), v["chunk"].as_u64().unwrap_or(4096) as usize))
    }
}

// ------------------------------------------------------------------ raw-parser confirmation

fn ev_shape(e: &RawEvent) -> String {
    match &e.kind {
        RawKind::Scalar { value, style, anchor, tag } => {
            format!("S{}{:?}{}{}", style_char(*style), value, if *anchor != 0 { "&" } else { "" }, tag.as_deref().unwrap_or(""))
        }
        RawKind::Alias(_) => "*".into(),
        RawKind::SeqStart { anchor, .. } => format!("[{}", if *anchor != 0 { "&" } else { "" }),
        RawKind::SeqEnd => "]".into(),
        RawKind::MapStart { anchor, .. } => format!("{{{}", if *anchor != 0 { "&" } else { "" }),
        RawKind::MapEnd => "}".into(),
        RawKind::DocStart(_) => "DS".into(),
        RawKind::DocEnd => "DE".into(),
        RawKind::StreamStart => "SS".into(),
        RawKind::StreamEnd => "SE".into(),
        RawKind::Nothing => "N".into(),
    }
}

/// Content-event shapes per document (a document that was cut short by a scan
/// error is returned as the last, possibly partial, entry).
fn docs_of(evs: &[RawEvent]) -> Vec<Vec<String>> {
    let mut out: Vec<Vec<String>> = Vec::new();
    for e in evs {
        match e.kind {
            RawKind::DocStart(_) => out.push(Vec::new()),
            RawKind::DocEnd | RawKind::StreamStart | RawKind::StreamEnd | RawKind::Nothing => {}
            _ => {
                if let Some(d) = out.last_mut() {
                    d.push(ev_shape(e));
                }
            }
        }
    }
    out
}

struct Confirmed {
    /// number of DocumentStart events the raw parser produced on the real text
    /// before its first scan error (or in total)
    raw_doc_starts: usize,
    /// index of the document in which the raw parser fails on the real text
    raw_err_doc: Option<usize>,
}

/// Confirm the generator's cut against the raw parser. `Err(reason)` = inconclusive.
fn confirm(st: &Stream) -> Result<Confirmed, &'static str> {
    let n = st.n();
    let first_syntax = st.kinds.iter().position(|k| KINDS[*k].nature == Nature::Syntax);
    // (a) alias-free skeleton: document count and per-document shape
    let skel_bodies: Vec<String> = st.bodies.iter().map(|b| skeleton(b)).collect();
    let skel = breaks(compose(&skel_bodies, &st.seps, st.trailer), st.crlf);
    let (evs, err) = raw_events(&skel);
    let docs = docs_of(&evs);
    match first_syntax {
        Some(f) => {
            if err.is_none() {
                return Err("cut not confirmed: syntax-error document parsed cleanly");
            }
            // (a failing implicit first document may fail before its DocumentStart is reported)
            if docs.len() != f + 1 && !(f == 0 && docs.is_empty()) {
                return Err("cut not confirmed: DocumentStart count before the scan error differs");
            }
        }
        None => {
            if err.is_some() {
                return Err("cut not confirmed: unexpected scan error in skeleton");
            }
            if docs.len() != n {
                return Err("cut not confirmed: DocumentStart count differs");
            }
        }
    }
    for i in 0..first_syntax.unwrap_or(n) {
        let (aevs, aerr) = raw_events(&breaks(format!("---\n{}", skel_bodies[i]), st.crlf));
        if aerr.is_some() {
            return Err("cut not confirmed: skeleton body does not parse alone");
        }
        let adocs = docs_of(&aevs);
        if adocs.len() != 1 || adocs[0] != docs[i] {
            return Err("cut not confirmed: document shape in stream differs from body alone");
        }
    }
    // (b) real text: where does the raw parser stop?
    let mut defined: Vec<&str> = Vec::new();
    let mut predicted: Option<usize> = None;
    for (i, k) in st.kinds.iter().enumerate() {
        let kd = &KINDS[*k];
        if kd.nature == Nature::Syntax || kd.uses.iter().any(|u| !defined.contains(u)) {
            predicted = Some(i);
            break;
        }
        defined.extend_from_slice(kd.defines);
    }
    let (revs, rerr) = raw_events(&st.text);
    let rdocs = docs_of(&revs);
    match predicted {
        Some(p) => {
            if rerr.is_none() || (rdocs.len() != p + 1 && !(p == 0 && rdocs.is_empty())) {
                return Err("cut not confirmed: raw parser does not fail in the predicted document");
            }
        }
        None => {
            if rerr.is_some() || rdocs.len() != n {
                return Err("cut not confirmed: raw parser result on the real text differs");
            }
        }
    }
    Ok(Confirmed { raw_doc_starts: rdocs.len(), raw_err_doc: predicted })
}

// ------------------------------------------------------------------ expectation

#[derive(Clone, Copy, Debug, PartialEq)]
enum Class {
    Ok,
    TypeErr,
    Syntax,
    /// dangling alias, raw parser resolved the name to an earlier document's anchor
    AliasRawOk,
    /// dangling alias, raw parser itself reports a scan error
    AliasRawErr,
}

impl Class {
    fn tag(self) -> &'static str {
        match self {
            Class::Ok => "ok",
            Class::TypeErr => "type-error",
            Class::Syntax => "syntax-error",
            Class::AliasRawOk | Class::AliasRawErr => "dangling-alias",
        }
    }
}

struct PlanItem {
    doc: usize,
    class: Class,
    /// Some(value) when the document succeeds alone
    value: Option<String>,
}

/// `alone[i]` = the body of document i deserialized on its own.
fn plan(st: &Stream, cf: &Confirmed, alone: &[Out]) -> Result<Vec<PlanItem>, &'static str> {
    let mut out = Vec::new();
    for i in 0..st.n() {
        let kd = &KINDS[st.kinds[i]];
        match kd.nature {
            Nature::Null => continue,
            Nature::Plain => match &alone[i] {
                Ok(v) => out.push(PlanItem { doc: i, class: Class::Ok, value: Some(v.clone()) }),
                Err(_) => out.push(PlanItem { doc: i, class: Class::TypeErr, value: None }),
            },
            Nature::Syntax => {
                if alone[i].is_ok() {
                    return Err("model: syntax-error body deserialized alone without error");
                }
                out.push(PlanItem { doc: i, class: Class::Syntax, value: None });
            }
            Nature::Alias => {
                if alone[i].is_ok() {
                    return Err("model: dangling-alias body deserialized alone without error");
                }
                let class = if cf.raw_err_doc == Some(i) { Class::AliasRawErr } else { Class::AliasRawOk };
                out.push(PlanItem { doc: i, class, value: None });
            }
        }
    }
    Ok(out)
}

fn kind_group(k: usize) -> &'static str {
    match KINDS[k].nature {
        Nature::Null => "null",
        Nature::Alias => "alias",
        Nature::Syntax => "syntax",
        Nature::Plain => match k {
            0..=2 | 16 => "valid",
            5 => "anchor-def",
            15 => "replay",
            18 | 27..=31 => "quoted-null-like",
            _ => "type-error-kind",
        },
    }
}

// ------------------------------------------------------------------ the monitor

struct Local {
    c: BTreeMap<&'static str, u64>,
}

thread_local! {
    static SEEN_LABELS: std::cell::RefCell<std::collections::HashSet<u64>> = std::cell::RefCell::new(Default::default());
    static MAX_SLACK: std::cell::Cell<u64> = const { std::cell::Cell::new(0) };
}

/// `run.observe` behind a per-thread filter (the global set is behind one lock).
fn observe(run: &Run, set: &'static str, class: &str, kind: &str) {
    let h = fnv_parts(&[set.as_bytes(), class.as_bytes(), kind.as_bytes()]);
    let new = SEEN_LABELS.with(|s| s.borrow_mut().insert(h));
    if new {
        run.observe(set, &format!("{class}:{kind}"));
    }
}
static VIOLATION_COUNTS: std::sync::Mutex<BTreeMap<String, u64>> = std::sync::Mutex::new(BTreeMap::new());
const MAX_REPORTS_PER_SIGNATURE: u64 = 16;

/// Report a violation; after `MAX_REPORTS_PER_SIGNATURE` reports of one signature the rest are
/// only counted (the run has failed anyway, and `Run::violation` de-duplicates with a linear scan).
fn viol(run: &Run, signature: &str, case: Value, detail: String) {
    let n = {
        let mut m = VIOLATION_COUNTS.lock().unwrap();
        let e = m.entry(signature.to_string()).or_insert(0);
        *e += 1;
        *e
    };
    if n <= MAX_REPORTS_PER_SIGNATURE {
        run.violation(signature, case, detail);
    }
}

impl Local {
    fn new() -> Self {
        Local { c: BTreeMap::new() }
    }
    fn add(&mut self, k: &'static str, n: u64) {
        *self.c.entry(k).or_insert(0) += n;
    }
}

fn show_items(items: &[Out]) -> String {
    let v: Vec<String> = items
        .iter()
        .map(|o| match o {
            Ok(v) => format!("Ok({v})"),
            Err(k) => format!("Err({k})"),
        })
        .collect();
    format!("[{}]", v.join(", "))
}

fn show_plan(p: &[PlanItem]) -> String {
    let v: Vec<String> = p
        .iter()
        .map(|i| match &i.value {
            Some(v) => format!("#{} Ok({v})", i.doc),
            None => format!("#{} Err<{}>", i.doc, i.class.tag()),
        })
        .collect();
    format!("[{}]", v.join(", "))
}

/// Compare the items of one iterator run with the plan.
fn check_iter(run: &Run, lc: &mut Local, st: &Stream, tn: &str, chunk: usize, entry: &'static str, plan: &[PlanItem], tr: &IterTrace) {
    let case = || {
        let mut c = st.to_json(tn, chunk);
        c["entry"] = json!(entry);
        c
    };
    let detail = |what: &str| format!("{entry}<{tn}>: {what}; expected {} got {} (calls={}, ended={})", show_plan(plan), show_items(&tr.items), tr.calls, tr.ended);
    if !tr.ended {
        viol(run,
            "C11:iter:no-none-within-documents+2-calls",
            case(),
            detail(&format!("iterator did not return None within {} next() calls for {} documents", tr.calls, st.n())),
        );
        return;
    }
    if tr.item_after_none {
        viol(run, "C11:iter:item-after-none", case(), detail("iterator yielded an item after returning None"));
        return;
    }
    lc.add("iter_runs_ended_within_bound", 1);
    let mut ai = 0usize;
    let mut prev: Option<Class> = None;
    let prev_tag = |p: Option<Class>| p.map(|c| c.tag()).unwrap_or("start");
    for item in plan {
        let grp = kind_group(st.kinds[item.doc]);
        let Some(act) = tr.items.get(ai) else {
            // iterator ended although documents remain
            match prev {
                Some(Class::AliasRawOk) => {
                    lc.add("unspecified/iterator-ended-after-dangling-alias", 1);
                }
                _ => viol(run,
                    &format!("C11:iter:ended-early:after-{}", prev_tag(prev)),
                    case(),
                    detail(&format!("iterator ended before document #{} ({})", item.doc, KINDS[st.kinds[item.doc]].name)),
                ),
            }
            return;
        };
        match (&item.value, act) {
            (Some(v), Ok(a)) if v == a => {
                if prev == Some(Class::TypeErr) {
                    lc.add("iter_ok_item_right_after_type_error", 1);
                }
                if prev == Some(Class::AliasRawOk) {
                    lc.add("iter_ok_item_right_after_dangling_alias", 1);
                }
            }
            (Some(_), Ok(_)) => {
                viol(run,
                    &format!("C11:iter:value-differs:at-{grp}:after-{}", prev_tag(prev)),
                    case(),
                    detail(&format!("item for document #{} differs from the document deserialized alone", item.doc)),
                );
                return;
            }
            (Some(_), Err(_)) => {
                viol(run,
                    &format!("C11:iter:expected-ok-got-err:at-{grp}:after-{}", prev_tag(prev)),
                    case(),
                    detail(&format!("document #{} succeeds alone but failed in the stream", item.doc)),
                );
                return;
            }
            (None, Ok(_)) => {
                viol(run,
                    &format!("C11:iter:expected-err-got-ok:at-{grp}:after-{}", prev_tag(prev)),
                    case(),
                    detail(&format!("document #{} ({}) fails alone but succeeded in the stream", item.doc, KINDS[st.kinds[item.doc]].name)),
                );
                return;
            }
            (None, Err(k)) => {
                observe(run, "iter_error_kinds", item.class.tag(), k);
            }
        }
        ai += 1;
        match item.class {
            Class::Syntax => {
                if tr.items.len() != ai {
                    viol(run,
                        "C11:iter:continued-after-syntax-error",
                        case(),
                        detail(&format!("iterator yielded {} more item(s) after the syntax error in document #{}", tr.items.len() - ai, item.doc)),
                    );
                } else {
                    lc.add("iter_ended_at_syntax_error", 1);
                }
                return;
            }
            Class::AliasRawErr => {
                lc.add("unspecified/after-dangling-alias-scan-error", 1);
                return;
            }
            Class::AliasRawOk => lc.add("iter_dangling_alias_failed_in_its_document", 1),
            Class::TypeErr => lc.add("iter_type_error_items", 1),
            Class::Ok => lc.add("iter_ok_items", 1),
        }
        prev = Some(item.class);
    }
    if tr.items.len() > ai {
        viol(run,
            &format!("C11:iter:extra-items:after-{}", prev_tag(prev)),
            case(),
            detail("iterator yielded more items than the stream has non-null documents"),
        );
    }
}

fn check_batch(run: &Run, lc: &mut Local, st: &Stream, tn: &str, entry: &'static str, plan: &[PlanItem], got: &Result<Vec<String>, String>) {
    let case = || {
        let mut c = st.to_json(tn, 0);
        c["entry"] = json!(entry);
        c
    };
    let first_bad = plan.iter().find(|p| p.value.is_none());
    match (first_bad, got) {
        (None, Ok(list)) => {
            let want: Vec<&String> = plan.iter().map(|p| p.value.as_ref().unwrap()).collect();
            if want.len() != list.len() || want.iter().zip(list.iter()).any(|(a, b)| *a != b) {
                viol(run,
                    "C11:batch:list-differs",
                    case(),
                    format!("{entry}<{tn}>: expected {} got [{}]", show_plan(plan), list.join(", ")),
                );
            } else {
                lc.add("batch_ok_lists", 1);
            }
        }
        (None, Err(k)) => viol(run,
            "C11:batch:expected-ok-got-err",
            case(),
            format!("{entry}<{tn}>: every document succeeds alone, stream gave Err({k}); expected {}", show_plan(plan)),
        ),
        (Some(bad), Ok(list)) => viol(run,
            &format!("C11:batch:expected-err-got-ok:{}", bad.class.tag()),
            case(),
            format!(
                "{entry}<{tn}>: document #{} ({}) fails alone, stream gave Ok([{}])",
                bad.doc,
                KINDS[st.kinds[bad.doc]].name,
                list.join(", ")
            ),
        ),
        (Some(bad), Err(k)) => {
            observe(run, "batch_error_kinds", bad.class.tag(), k);
            lc.add("batch_err", 1);
        }
    }
}

fn check_single(run: &Run, lc: &mut Local, st: &Stream, cf: &Confirmed, tn: &str, chunk: usize, which: Single, alone0: &Out, got: &Out) {
    let case = || {
        let mut c = st.to_json(tn, chunk);
        c["entry"] = json!(which.name());
        c
    };
    if cf.raw_doc_starts >= 2 {
        match got {
            Ok(v) => viol(run,
                "C11:single:multi-document-stream-accepted",
                case(),
                format!("{}<{tn}>: raw parser shows {} DocumentStart events, got Ok({v})", which.name(), cf.raw_doc_starts),
            ),
            Err(k) => {
                observe(run, "single_reject_kinds", which.name(), k);
                lc.add("single_rejected_multi_document_stream", 1);
            }
        }
        return;
    }
    if st.n() >= 2 {
        // the raw parser stops inside the first document: the stream must not be accepted
        if alone0.is_err() {
            match got {
                Ok(v) => viol(run,
                    "C11:single:failing-first-document-accepted",
                    case(),
                    format!("{}<{tn}>: first document fails alone ({alone0:?}), stream gave Ok({v})", which.name()),
                ),
                Err(_) => lc.add("single_rejected_failing_first_document", 1),
            }
        }
        return;
    }
    // exactly one document: markers and comments around it must not matter
    match (alone0, got) {
        (Ok(a), Ok(b)) if a == b => lc.add("single_one_document_stream_same_value", 1),
        (Err(_), Err(_)) => lc.add("single_one_document_stream_both_err", 1),
        _ => viol(run,
            "C11:single:one-document-stream-differs-from-document",
            case(),
            format!("{}<{tn}>: document alone {:?}, one-document stream {:?}", which.name(), alone0, got),
        ),
    }
}

struct Plan2 {
    which_singles: &'static [Single],
    trace_hooks: bool,
}

/// Run every entry point on one confirmed stream for one target.
fn check_stream(run: &Run, lc: &mut Local, st: &Stream, t: &'static Target, alone: &[Out], chunk: usize, p2: &Plan2) {
    let cf = match confirm(st) {
        Ok(c) => c,
        Err(why) => {
            run.inconclusive(why);
            return;
        }
    };
    let pl = match plan(st, &cf, alone) {
        Ok(p) => p,
        Err(why) => {
            run.inconclusive(why);
            return;
        }
    };
    let n = st.n();
    if n >= 2 {
        run.nontrivial(fnv_parts(&[st.text.as_bytes(), t.name.as_bytes()]));
    }
    lc.add("streams_x_targets_checked", 1);
    let pan = |run: &Run, entry: &str, p: String| {
        let mut c = st.to_json(t.name, chunk);
        c["entry"] = json!(entry);
        viol(run, &format!("C11:panic:{}", panic_site(&p)), c, format!("{entry}<{}> panicked: {p}", t.name));
    };
    // batch
    for (slice, entry) in [(false, "from_multiple"), (true, "from_slice_multiple")] {
        run.eval();
        match catch(|| (t.batch)(&st.text, slice)) {
            Ok(got) => check_batch(run, lc, st, t.name, entry, &pl, &got),
            Err(p) => pan(run, entry, p),
        }
    }
    // iterators
    for (with_options, entry) in [(false, "read"), (true, "read_with_options")] {
        run.eval();
        let ch = if with_options { chunk } else { 1 << 16 };
        let r = if p2.trace_hooks && with_options {
            let (r, trace) = vcore::hooks::traced(1 << 14, || catch(|| (t.iter)(st.text.as_bytes(), ch, with_options, n + 2)));
            let sh = trace.shadow();
            lc.add("hook_doc_resets", sh.doc_resets);
            lc.add("hook_parser_pumps", sh.pumps_parser);
            lc.add("hook_replay_pumps", sh.pumps_replay);
            lc.add("hook_traced_runs", 1);
            r
        } else {
            catch(|| (t.iter)(st.text.as_bytes(), ch, with_options, n + 2))
        };
        match r {
            Ok(tr) => {
                if tr.ended {
                    let slack = (tr.calls as i64 - n as i64).max(0) as u64;
                    if MAX_SLACK.with(|m| m.get() < slack && { m.set(slack); true }) {
                        run.max("iter_max_calls_minus_documents", slack);
                    }
                }
                check_iter(run, lc, st, t.name, ch, entry, &pl, &tr)
            }
            Err(p) => pan(run, entry, p),
        }
    }
    // single-document entry points
    for &w in p2.which_singles {
        run.eval();
        match catch(|| (t.single)(&st.text, w, chunk)) {
            Ok(got) => check_single(run, lc, st, &cf, t.name, chunk, w, &alone[0], &got),
            Err(p) => pan(run, w.name(), p),
        }
    }
}

// ------------------------------------------------------------------ workloads

const EXH_STYLES: usize = 3;

fn exhaustive_stream(seq: &[usize], style: usize) -> Stream {
    let n = seq.len();
    let bodies: Vec<String> = seq.iter().enumerate().map(|(i, k)| body(*k, pos_vals(i))).collect();
    let (seps, trailer): (Vec<u8>, u8) = match style {
        0 => (vec![0; n], 0),
        1 => (vec![1; n], 1),
        3 => (vec![6; n], 0),
        _ => {
            let mut s = vec![2u8; n];
            s[0] = 4;
            (s, 2)
        }
    };
    Stream::new(seq.to_vec(), bodies, seps, trailer, false)
}

fn random_stream(rng: &mut Rng) -> Stream {
    let n = match rng.below(10) {
        0..=2 => rng.range(2, 6),
        3..=6 => rng.range(6, 16),
        _ => rng.range(16, 40),
    };
    // how likely a fatal document is: mostly rare, so that long streams are walked to the end
    let fatal_pct = *rng.pick(&[0usize, 0, 2, 5, 15]);
    let alias_pct = *rng.pick(&[0usize, 5, 15, 30]);
    let mut kinds = Vec::with_capacity(n);
    let mut bodies = Vec::with_capacity(n);
    for _ in 0..n {
        let r = rng.below(100);
        let k = if r < fatal_pct {
            *rng.pick(&[9usize, 10, 19, 20, 21, 23, 24, 25])
        } else if r < fatal_pct + alias_pct {
            *rng.pick(&[6usize, 6, 12, 12, 22, 26])
        } else {
            *rng.pick(&[0usize, 0, 1, 2, 2, 3, 4, 5, 5, 7, 7, 8, 8, 11, 13, 13, 14, 15, 16, 17, 17, 18, 27, 28, 29, 30, 31])
        };
        let v = [rng.below(1000) as u32, rng.below(1000) as u32, rng.below(1000) as u32, rng.below(1000) as u32];
        let mut b = body(k, v);
        // spelling variants of the null document
        if k == 4 {
            b = (*rng.pick(&["~\n", "null\n", "~ # null\n", "# only a comment\n"])).to_string();
        }
        kinds.push(k);
        bodies.push(b);
    }
    let uniform = rng.chance(1, 3);
    let u = rng.below(4) as u8;
    let mut seps: Vec<u8> = (0..n).map(|_| if uniform { u } else { rng.below(N_SEPS as usize) as u8 }).collect();
    if rng.chance(1, 3) {
        seps[0] = 4;
    }
    let trailer = rng.below(N_TRAILERS as usize) as u8;
    let crlf = rng.chance(1, 5);
    Stream::new(kinds, bodies, seps, trailer, crlf)
}

fn alone_all(run: &Run, t: &Target, st: &Stream) -> Option<Vec<Out>> {
    let mut v = Vec::with_capacity(st.n());
    for i in 0..st.n() {
        let b = &st.body_text(i);
        run.eval();
        match catch(|| (t.alone)(b)) {
            Ok(o) => v.push(o),
            Err(p) => {
                viol(run,
                    &format!("C11:panic:{}", panic_site(&p)),
                    json!({"text": b, "target": t.name, "entry": "from_str (document alone)"}),
                    format!("from_str<{}> on a single document panicked: {p}", t.name),
                );
                return None;
            }
        }
    }
    Some(v)
}

fn main() {
    let run = Run::from_args("C11");
    let all_singles: &'static [Single] = &SINGLES;

    if let Some(rep) = run.is_replay() {
        let case = &rep["case"];
        match Stream::from_json(case) {
            Some((st, tn, chunk)) => {
                let Some(t) = target_by_name(&tn) else {
                    eprintln!("harness error: unknown target in replay file");
                    std::process::exit(2);
                };
                let mut lc = Local::new();
                if let Some(alone) = alone_all(&run, t, &st) {
                    check_stream(&run, &mut lc, &st, t, &alone, chunk.max(1), &Plan2 { which_singles: all_singles, trace_hooks: false });
                }
            }
            None => {
                // a panic of from_str on one document
                if let (Some(text), Some(tn)) = (case["text"].as_str(), case["target"].as_str())
                    && let Some(t) = target_by_name(tn)
                {
                    let st = Stream::new(vec![0], vec![text.to_string()], vec![4], 0, false);
                    let _ = alone_all(&run, t, &st);
                } else {
                    eprintln!("harness error: replay file does not describe a C11 case");
                    std::process::exit(2);
                }
            }
        }
        run.finish(Finish::new("replay"));
    }

    let tier = run.tier;
    let max_len = tier.pick(4usize, 5usize);

    // ---- documents alone, per (target, kind, position): the expectation table of the exhaustive part
    let mut alone_tab: Vec<Vec<Vec<Out>>> = Vec::new(); // [target][kind][pos]
    for t in TARGETS.iter() {
        let mut per_kind = Vec::new();
        for k in 0..K_ALL {
            let mut per_pos = Vec::new();
            for pos in 0..max_len {
                run.eval();
                let b = body(k, pos_vals(pos));
                match catch(|| (t.alone)(&b)) {
                    Ok(o) => {
                        run.observe(
                            "document_alone_outcomes",
                            &format!("{}<{}>: {}", KINDS[k].name, t.name, match &o {
                                Ok(_) => "Ok".to_string(),
                                Err(e) => format!("Err({e})"),
                            }),
                        );
                        per_pos.push(o);
                    }
                    Err(p) => {
                        viol(&run,
                            &format!("C11:panic:{}", panic_site(&p)),
                            json!({"text": b, "target": t.name, "entry": "from_str (document alone)"}),
                            format!("from_str<{}> panicked: {p}", t.name),
                        );
                        per_pos.push(Err("panic".into()));
                    }
                }
            }
            per_kind.push(per_pos);
        }
        alone_tab.push(per_kind);
    }

    // ---- exhaustive: every kind sequence of length 1..=max_len x 3 separator styles x 4 targets
    let mut offsets = vec![0usize];
    for n in 1..=max_len {
        offsets.push(offsets[n - 1] + K.pow(n as u32));
    }
    let total_seq = offsets[max_len];
    run.count("exhaustive_kind_sequences", total_seq as u64);
    par_range(total_seq * EXH_STYLES, |idx| {
        let style = idx % EXH_STYLES;
        let sidx = idx / EXH_STYLES;
        let n = (1..=max_len).find(|n| sidx < offsets[*n]).unwrap();
        let mut r = sidx - offsets[n - 1];
        let mut seq = vec![0usize; n];
        for d in (0..n).rev() {
            seq[d] = r % K;
            r /= K;
        }
        let st = exhaustive_stream(&seq, style);
        let mut lc = Local::new();
        lc.add("exhaustive_streams", 1);
        let chunk = [1usize, 3, 7, 64, 4096][idx % 5];
        // all six single-document entry points for short streams; two of them (rotating) beyond
        let singles: &'static [Single] = if n <= 3 {
            all_singles
        } else {
            match idx % 3 {
                0 => &[Single::FromStr, Single::WithDeReader],
                1 => &[Single::FromSlice, Single::FromReader],
                _ => &[Single::WithDeStr, Single::WithDeSlice],
            }
        };
        for (ti, t) in TARGETS.iter().enumerate() {
            let alone: Vec<Out> = seq.iter().enumerate().map(|(i, k)| alone_tab[ti][*k][i].clone()).collect();
            check_stream(&run, &mut lc, &st, t, &alone, chunk, &Plan2 { which_singles: singles, trace_hooks: ti == 1 && idx % 64 == 0 });
        }
        if idx % 40_009 == 0 {
            run.sample(|| json!({"text": st.text, "kinds": st.kinds.iter().map(|k| KINDS[*k].name).collect::<Vec<_>>()}));
        }
        run.count_map(&lc.c);
    });

    // ---- exhaustive: documents that fail at their first token, as first and as non-first document:
    //      every prefix of length 0..=2 over the 18 base kinds x 8 failing kinds x 7 marker layouts x {no, one} following document
    let mut prefixes: Vec<Vec<usize>> = vec![vec![]];
    for a in 0..K {
        prefixes.push(vec![a]);
        for b in 0..K {
            prefixes.push(vec![a, b]);
        }
    }
    let n_fail = FAIL_FIRST.len();
    let fam_total = prefixes.len() * n_fail * N_SEPS as usize * 2;
    run.count("first_token_failure_streams_planned", fam_total as u64);
    par_range(fam_total, |idx| {
        let with_suffix = idx % 2 == 1;
        let sep = ((idx / 2) % N_SEPS as usize) as u8;
        let fk = FAIL_FIRST.start + (idx / 2 / N_SEPS as usize) % n_fail;
        let prefix = &prefixes[idx / 2 / N_SEPS as usize / n_fail];
        let mut seq = prefix.clone();
        seq.push(fk);
        if with_suffix {
            seq.push(0);
        }
        let n = seq.len();
        let bodies: Vec<String> = seq.iter().enumerate().map(|(i, k)| body(*k, pos_vals(i))).collect();
        let mut seps = vec![if sep == 4 { 0 } else { sep }; n];
        if sep == 4 {
            seps[0] = 4;
        }
        let st = Stream::new(seq.clone(), bodies, seps, 0, false);
        let mut lc = Local::new();
        lc.add("first_token_failure_streams", 1);
        let chunk = [1usize, 3, 7, 64, 4096][idx % 5];
        for (ti, t) in TARGETS.iter().enumerate() {
            let alone: Vec<Out> = seq.iter().enumerate().map(|(i, k)| alone_tab[ti][*k][i].clone()).collect();
            check_stream(&run, &mut lc, &st, t, &alone, chunk, &Plan2 { which_singles: all_singles, trace_hooks: false });
        }
        if idx % 9973 == 0 {
            run.sample(|| json!({"text": st.text, "kinds": st.kinds.iter().map(|k| KINDS[*k].name).collect::<Vec<_>>()}));
        }
        run.count_map(&lc.c);
    });

    // ---- exhaustive: quoted null-like documents (strings) next to real null documents, in every position:
    //      every sequence of length 1..=max_len over 11 kinds x 4 layouts
    let alphabet: Vec<usize> = [0usize, 3, 4, 7, 16].iter().copied().chain(QUOTED_NULLISH.iter().copied()).collect();
    let a_n = alphabet.len();
    let mut q_off = vec![0usize];
    for n in 1..=max_len {
        q_off.push(q_off[n - 1] + a_n.pow(n as u32));
    }
    let q_total = q_off[max_len];
    run.count("quoted_null_family_sequences", q_total as u64);
    par_range(q_total * 4, |idx| {
        let style = idx % 4;
        let sidx = idx / 4;
        let n = (1..=max_len).find(|n| sidx < q_off[*n]).unwrap();
        let mut r = sidx - q_off[n - 1];
        let mut seq = vec![0usize; n];
        for d in (0..n).rev() {
            seq[d] = alphabet[r % a_n];
            r /= a_n;
        }
        if !seq.iter().any(|k| QUOTED_NULLISH.contains(k)) {
            return; // already in the main enumeration
        }
        let st = exhaustive_stream(&seq, style);
        let mut lc = Local::new();
        lc.add("quoted_null_family_streams", 1);
        let chunk = [1usize, 3, 7, 64, 4096][idx % 5];
        for (ti, t) in TARGETS.iter().enumerate() {
            let alone: Vec<Out> = seq.iter().enumerate().map(|(i, k)| alone_tab[ti][*k][i].clone()).collect();
            check_stream(&run, &mut lc, &st, t, &alone, chunk, &Plan2 { which_singles: all_singles, trace_hooks: false });
        }
        if idx % 19_997 == 0 {
            run.sample(|| json!({"text": st.text, "kinds": st.kinds.iter().map(|k| KINDS[*k].name).collect::<Vec<_>>()}));
        }
        run.count_map(&lc.c);
    });

    // ---- random longer streams (2..=40 documents), fresh numbers in every document
    let n_random = tier.pick(20_000usize, 100_000usize);
    par_range(n_random, |i| {
        let mut rng = Rng::stream(run.seed, i as u64);
        let st = random_stream(&mut rng);
        let mut lc = Local::new();
        lc.add("random_streams", 1);
        if st.crlf {
            lc.add("random_streams_crlf", 1);
        }
        run.max("random_max_documents", st.n() as u64);
        let chunk = *rng.pick(&[1usize, 2, 5, 13, 100, 8192]);
        for (ti, t) in TARGETS.iter().enumerate() {
            let Some(alone) = alone_all(&run, t, &st) else { continue };
            check_stream(&run, &mut lc, &st, t, &alone, chunk, &Plan2 { which_singles: all_singles, trace_hooks: ti == 1 && i % 16 == 0 });
        }
        if i % 997 == 0 {
            run.sample(|| json!({"text": st.text, "kinds": st.kinds.iter().map(|k| KINDS[*k].name).collect::<Vec<_>>()}));
        }
        run.count_map(&lc.c);
    });

    let scope = format!(
        "every sequence of length 1..={max_len} over {K} document kinds ({}) x 3 separator layouts (`---` | `...`+`---`+final `...` | implicit first document + comment lines + `--- # comment`) x 5 targets (derived struct Doc, untyped Val, i64, RcAnchor struct, String) x entry points from_multiple, from_slice_multiple, read, read_with_options and the six single-document entry points (all six for length <= 3, two rotating for longer); plus every prefix of length 0..=2 over those kinds followed by one of {} kinds that fail at their first token ({}) x 7 marker layouts (incl. content on the `--- ` line) x {{no, one}} following document, all entry points; plus every sequence of length 1..={max_len} over 11 kinds (valid-block, empty, tilde, type-error-first-field, root-int and six quoted null-like/empty root scalars \"null\" '~' \"\" '' \"Null\" 'NULL') x 4 layouts",
        KINDS[..K].iter().map(|k| k.name).collect::<Vec<_>>().join(", "),
        FAIL_FIRST.len(),
        KINDS[FAIL_FIRST].iter().map(|k| k.name).collect::<Vec<_>>().join(", ")
    );
    let fin = Finish::new(
        "a case (stream text, target) is non-trivial when the stream has >= 2 documents and its cut was confirmed by the raw parser's DocumentStart count and per-document event shapes; distinct by hash(text, target)",
    )
    .exhaustive(scope)
    .assume("raw saphyr-parser event stream is the ground truth for where documents start and where a scan error occurs")
    .assume("default Options (limits far above anything generated: <= 40 documents, <= 80 anchors)")
    .assume("whether the iterator continues after a document that failed on a dangling alias is unspecified; everything after a dangling alias that the raw parser reports as scan error is unspecified")
    .min_nontrivial(if tier == Tier::Quick { 50_000 } else { 500_000 });
    run.finish(fin);
}
