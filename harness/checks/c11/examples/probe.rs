use serde::Deserialize;
use vcore::reftree::{RawKind, raw_events};

#[derive(Debug, Deserialize, PartialEq)]
#[allow(dead_code)]
struct Doc {
    a: i32,
    #[serde(default)]
    m: Option<std::collections::BTreeMap<String, i32>>,
    #[serde(default)]
    l: Vec<i32>,
    z: i32,
}

fn show_raw(s: &str) {
    let (evs, err) = raw_events(s);
    let ds = evs.iter().filter(|e| matches!(e.kind, RawKind::DocStart(_))).count();
    let kinds: Vec<String> = evs
        .iter()
        .map(|e| match &e.kind {
            RawKind::DocStart(b) => format!("DS({b})"),
            RawKind::DocEnd => "DE".into(),
            RawKind::Scalar { value, anchor, .. } => format!("S({value:?},{anchor})"),
            RawKind::Alias(i) => format!("*{i}"),
            RawKind::MapStart { .. } => "M+".into(),
            RawKind::MapEnd => "M-".into(),
            RawKind::SeqStart { .. } => "Q+".into(),
            RawKind::SeqEnd => "Q-".into(),
            RawKind::StreamStart => "SS".into(),
            RawKind::StreamEnd => "SE".into(),
            RawKind::Nothing => "N".into(),
        })
        .collect();
    println!("  raw: docstarts={ds} err={:?}", err.map(|e| (e.info, e.line, e.col)));
    println!("  ev: {}", kinds.join(" "));
}

fn iter_items<T: serde::de::DeserializeOwned + std::fmt::Debug>(s: &str) -> Vec<String> {
    let mut r = std::io::Cursor::new(s.as_bytes());
    let mut it = serde_saphyr::read_with_options::<_, T>(&mut r, serde_saphyr::Options::default());
    let mut out = vec![];
    for _ in 0..20 {
        match it.next() {
            None => {
                out.push("None".into());
                break;
            }
            Some(x) => out.push(vcore::errs::outcome(&x)),
        }
    }
    out
}

fn main() {
    let streams = [
        "",
        "---\n",
        "---\n---\na: 1\nz: 2\n",
        "a: 1\nz: 2\n---\n",
        "a: 1\nz: 2\n...\n",
        "a: 1\nz: 2\n...\n# c\n",
        "a: 1\nz: 2\n...\n---\n",
        "a: 1\nz: 2\n...\n[1, 2\n",
        "a: 1\nz: 2\n...\n@\n",
        "a: 1\nz: 2\n...\nb: 3\n",
        "---\na: &x 7\nz: *x\n---\na: *x\nz: 1\n---\na: 5\nz: 6\n",
        "---\na: *x\nz: 1\n---\na: 5\nz: 6\n",
        "---\na: 1\nl: [1, *y]\nz: 2\n---\na: 5\nz: 6\n",
        "---\na: 1\n b: 2\n---\na: 5\nz: 6\n",
        "---\na: [1, 2\n---\na: 5\nz: 6\n",
        "---\na: @x\n---\na: 5\nz: 6\n",
        "---\na: 1\n- x\n---\na: 5\nz: 6\n",
        "---\na: \"unterminated\n---\na: 5\nz: 6\n",
        "---\na: bad\nz: 2\n---\na: [1, 2\n---\na: 5\nz: 6\n",
        "---\na: bad\nz: 2\n---\na: 1\n- x\n---\na: 5\nz: 6\n",
        "---\n99999999999999999999\n---\na: 5\nz: 6\n",
        "---\n~\n---\na: 5\nz: 6\n--- # c\n~\n...\n---\nnull\n",
        "--- # c\na: 5 # c\nz: 6\n... # c\n--- # d\na: 1\nz: 2\n# end\n",
        "---\na: 1\nm:\n  k: bad\n  j: 2\nl: [1]\nz: 2\n---\na: 5\nz: 6\n",
        "--- a: 1\n",
        "---\n{a: 2, z: 4}\n---\n{a: 2, z: 4}\n",
        "---\n{a: 2, z: 4}\n...\n",
    ];
    for s in streams {
        println!("STREAM {s:?}");
        show_raw(s);
        println!("  from_str<Doc>: {}", vcore::errs::outcome(&serde_saphyr::from_str::<Doc>(s)));
        println!("  from_str<Val>: {}", vcore::errs::outcome(&serde_saphyr::from_str::<vcore::Val>(s)));
        println!("  multi<Doc>: {}", vcore::errs::outcome(&serde_saphyr::from_multiple::<Doc>(s)));
        println!("  multi<Val>: {}", vcore::errs::outcome(&serde_saphyr::from_multiple::<vcore::Val>(s)));
        println!("  iter<Doc>: {:?}", iter_items::<Doc>(s));
        println!("  iter<Val>: {:?}", iter_items::<vcore::Val>(s));
        println!("  iter<i64>: {:?}", iter_items::<i64>(s));
    }
}
