//! C06 — scalars are interpreted exactly per requested type and options; never wrapped.
//!
//! Independent reference model (vcore::refscalar, no serde-saphyr code involved):
//! for every cell (scalar text, style, tag, position, target type, option vector)
//! the oracle computes an *expectation*
//!
//!   * `ok`  — the set of values the library may return (the natural value(s));
//!   * `err` — whether rejecting is allowed;
//!
//! and the library's `Ok(v)` / `Err` is judged against it. Expectations are
//! *definite* (exactly one allowed outcome: documented token that fits → that
//! value; no natural reading → Err; quoted scalar into a string target → the
//! text verbatim …) or *unspecified* (several outcomes allowed; counted, still
//! checked: an `Ok(v)` outside the set is a violation — that is where wrapped,
//! saturated and truncated integers show up whatever the acceptance policy is).
//!
//! The scalar of every generated document is confirmed with the raw parser
//! (value, style, tag) before any verdict is taken.

use serde::Deserialize;
use serde::de::{DeserializeOwned, Deserializer, Visitor};
use serde_json::{Value, json};
use serde_saphyr::{Error, Options};
use std::collections::BTreeMap;
use vcore::refscalar::{
    self as rs, B64, Inferred, Tri, b64_encode, ref_b64, ref_bool, ref_char, ref_float, ref_int, ref_null, ref_null_option,
    ref_plain_is_ambiguous, ref_untyped_plain,
};
use vcore::reftree::{self, RNode, render_checked};
use vcore::rng::{Rng, fnv_parts};
use vcore::run::{Finish, Run, Tier, par_range};
use vcore::scalarcorpus::{self, Family, Token};
use vcore::targets::Bytes;
use vcore::val::Val;
use vcore::ydoc::{Node, RenderOpts, Style};

// ------------------------------------------------------------------ cell coordinates

#[derive(Clone, Copy, Debug, PartialEq, Eq)]
enum TagC {
    None,
    Int,
    Float,
    Bool,
    Null,
    Str,
    Binary,
    NonSpecific,
    Custom,
}

const TAGS: &[(TagC, Option<&str>)] = &[
    (TagC::None, None),
    (TagC::Str, Some("!!str")),
    (TagC::Binary, Some("!!binary")),
    (TagC::Int, Some("!!int")),
    (TagC::Float, Some("!!float")),
    (TagC::Bool, Some("!!bool")),
    (TagC::Null, Some("!!null")),
    (TagC::NonSpecific, Some("!")),
    (TagC::Custom, Some("!custom")),
];

fn tag_name(t: TagC) -> &'static str {
    TAGS.iter().find(|(c, _)| *c == t).and_then(|(_, s)| *s).unwrap_or("")
}

fn tag_of_source(s: Option<&str>) -> Option<TagC> {
    match s {
        None => Some(TagC::None),
        Some(s) => TAGS.iter().find(|(_, n)| *n == Some(s)).map(|(c, _)| *c),
    }
}

const STYLES: &[Style] = &[Style::Plain, Style::Double, Style::Single, Style::Literal, Style::Folded];

fn style_name(s: Style) -> &'static str {
    match s {
        Style::Plain => "plain",
        Style::Single => "single",
        Style::Double => "double",
        Style::Literal => "literal",
        Style::Folded => "folded",
    }
}

#[derive(Clone, Copy, Debug, PartialEq, Eq)]
enum Pos {
    Root,
    Seq,
    Map,
    /// `- &a S` / `- *a`: the second element arrives through an alias
    AliasSeq,
    /// `a: &a S` / `b: *a`: the value of `b` arrives through an alias
    AliasMap,
    /// `base: &m {k: S}` / `d: {<<: *m}`: `d.k` arrives through a merge
    MergeVal,
    /// `S: v`: the scalar is a mapping key
    Key,
    /// `S: payload` at the root, read as an externally tagged enum: the scalar names the variant
    EnumKey,
}
const POSITIONS: &[Pos] = &[Pos::Root, Pos::Seq, Pos::Map];
/// other ways for the same scalar to reach the same target
const ARRIVALS: &[Pos] = &[Pos::AliasSeq, Pos::AliasMap, Pos::MergeVal, Pos::Key];
fn pos_name(p: Pos) -> &'static str {
    match p {
        Pos::Root => "root",
        Pos::Seq => "seq",
        Pos::Map => "map",
        Pos::AliasSeq => "alias-seq",
        Pos::AliasMap => "alias-map",
        Pos::MergeVal => "merge-value",
        Pos::Key => "key",
        Pos::EnumKey => "enum-key",
    }
}
fn pos_of_name(s: &str) -> Pos {
    [Pos::Root, Pos::Seq, Pos::Map, Pos::AliasSeq, Pos::AliasMap, Pos::MergeVal, Pos::Key, Pos::EnumKey]
        .into_iter()
        .find(|p| pos_name(*p) == s)
        .unwrap_or(Pos::Root)
}

#[derive(Clone, Copy, Debug, PartialEq, Eq)]
enum Base {
    I(u32),
    U(u32),
    F32,
    F64,
    Bool,
    Char,
    String,
    ViaStr,
    Bytes,
    /// `Vec<u8>` (goes through `deserialize_seq`; only used for `!!binary` payloads)
    VecU8,
    Val,
    /// externally tagged enum whose variant names look like scalars of every kind
    Enum,
}

#[derive(Clone, Copy, Debug)]
struct Tgt {
    name: &'static str,
    base: Base,
    opt: bool,
}

const TARGETS: &[Tgt] = &[
    Tgt { name: "i8", base: Base::I(8), opt: false },
    Tgt { name: "i16", base: Base::I(16), opt: false },
    Tgt { name: "i32", base: Base::I(32), opt: false },
    Tgt { name: "i64", base: Base::I(64), opt: false },
    Tgt { name: "i128", base: Base::I(128), opt: false },
    Tgt { name: "u8", base: Base::U(8), opt: false },
    Tgt { name: "u16", base: Base::U(16), opt: false },
    Tgt { name: "u32", base: Base::U(32), opt: false },
    Tgt { name: "u64", base: Base::U(64), opt: false },
    Tgt { name: "u128", base: Base::U(128), opt: false },
    Tgt { name: "f32", base: Base::F32, opt: false },
    Tgt { name: "f64", base: Base::F64, opt: false },
    Tgt { name: "bool", base: Base::Bool, opt: false },
    Tgt { name: "char", base: Base::Char, opt: false },
    Tgt { name: "String", base: Base::String, opt: false },
    Tgt { name: "via_deserialize_str", base: Base::ViaStr, opt: false },
    Tgt { name: "Bytes", base: Base::Bytes, opt: false },
    Tgt { name: "Val", base: Base::Val, opt: false },
    Tgt { name: "Option<i64>", base: Base::I(64), opt: true },
    Tgt { name: "Option<u8>", base: Base::U(8), opt: true },
    Tgt { name: "Option<f64>", base: Base::F64, opt: true },
    Tgt { name: "Option<bool>", base: Base::Bool, opt: true },
    Tgt { name: "Option<String>", base: Base::String, opt: true },
];

fn family_of(base: Base) -> &'static str {
    match base {
        Base::I(_) | Base::U(_) => "int",
        Base::F32 | Base::F64 => "float",
        Base::Bool => "bool",
        Base::Char => "char",
        Base::String => "string",
        Base::ViaStr => "str",
        Base::Bytes | Base::VecU8 => "bytes",
        Base::Val => "untyped",
        Base::Enum => "enum",
    }
}

fn relevant(t: &Tgt, fam: Family) -> bool {
    let b = match t.base {
        Base::I(_) | Base::U(_) => fam == Family::Int,
        Base::F32 | Base::F64 => matches!(fam, Family::Float | Family::Int),
        Base::Bool => fam == Family::Bool,
        Base::Char => fam == Family::Char,
        Base::Bytes | Base::VecU8 => fam == Family::B64,
        Base::String | Base::ViaStr | Base::Val | Base::Enum => true,
    };
    b || (t.opt && fam == Family::Null)
}

/// option vector: bit0 strict_booleans, bit1 no_schema, bit2 legacy_octal_numbers, bit3 ignore_binary_tag_for_string
fn mk_opts(bits: u8) -> Options {
    let mut o = vcore::errs::unlimited_options();
    #[allow(deprecated)]
    {
        o.strict_booleans = bits & 1 != 0;
        o.no_schema = bits & 2 != 0;
        o.legacy_octal_numbers = bits & 4 != 0;
        o.ignore_binary_tag_for_string = bits & 8 != 0;
        o.angle_conversions = false;
        o.with_snippet = false;
    }
    o
}

/// The option bits the *oracle* of a target family reads (the library is run with the
/// full vector, so an option that influences a family it should not shows up as a violation).
fn oracle_option_mask(base: Base) -> u8 {
    match base {
        Base::I(_) | Base::U(_) => 4,
        Base::F32 | Base::F64 | Base::Bytes | Base::VecU8 => 0,
        Base::Bool => 1,
        Base::Char | Base::ViaStr | Base::Enum => 1 | 2,
        Base::String => 1 | 2 | 8,
        Base::Val => 1 | 4 | 8,
    }
}

#[derive(Clone, Copy)]
struct Ob {
    strict: bool,
    no_schema: bool,
    legacy: bool,
    ignore_bin: bool,
}
fn ob(bits: u8) -> Ob {
    Ob { strict: bits & 1 != 0, no_schema: bits & 2 != 0, legacy: bits & 4 != 0, ignore_bin: bits & 8 != 0 }
}

// ------------------------------------------------------------------ values

#[derive(Clone, Debug, PartialEq)]
enum Got {
    I(i128),
    U(u128),
    F32(u32),
    F64(u64),
    B(bool),
    C(char),
    S(String),
    Y(Vec<u8>),
    V(Val),
    /// Option::None
    N,
}

/// String through `Deserializer::deserialize_str` (what `&str` / `Cow<str>` use).
#[derive(Debug)]
struct ViaStr(String);
impl<'de> Deserialize<'de> for ViaStr {
    fn deserialize<D: Deserializer<'de>>(d: D) -> Result<ViaStr, D::Error> {
        struct V;
        impl<'de> Visitor<'de> for V {
            type Value = String;
            fn expecting(&self, f: &mut std::fmt::Formatter) -> std::fmt::Result {
                f.write_str("a string")
            }
            fn visit_str<E>(self, v: &str) -> Result<String, E> {
                Ok(v.to_string())
            }
            fn visit_string<E>(self, v: String) -> Result<String, E> {
                Ok(v)
            }
        }
        d.deserialize_str(V).map(ViaStr)
    }
}

/// A mapping as the list of its (key, value) pairs, for any key type.
struct Pairs<K>(Vec<(K, String)>);
impl<'de, K: Deserialize<'de>> Deserialize<'de> for Pairs<K> {
    fn deserialize<D: Deserializer<'de>>(d: D) -> Result<Pairs<K>, D::Error> {
        struct V<K>(std::marker::PhantomData<K>);
        impl<'de, K: Deserialize<'de>> Visitor<'de> for V<K> {
            type Value = Pairs<K>;
            fn expecting(&self, f: &mut std::fmt::Formatter) -> std::fmt::Result {
                f.write_str("a mapping")
            }
            fn visit_map<A: serde::de::MapAccess<'de>>(self, mut a: A) -> Result<Pairs<K>, A::Error> {
                let mut v = Vec::new();
                while let Some(k) = a.next_key::<K>()? {
                    let x = a.next_value::<String>()?;
                    v.push((k, x));
                }
                Ok(Pairs(v))
            }
        }
        d.deserialize_map(V(std::marker::PhantomData))
    }
}

/// Variant names that look like every kind of scalar.
#[derive(Deserialize, Debug, PartialEq)]
enum Named {
    #[serde(rename = "abc")]
    Abc,
    #[serde(rename = "1")]
    One,
    #[serde(rename = "0x1F")]
    Hex,
    #[serde(rename = "1_000")]
    Sep,
    #[serde(rename = "true")]
    True,
    #[serde(rename = "yes")]
    Yes,
    #[serde(rename = "n")]
    N,
    #[serde(rename = "null")]
    Null,
    #[serde(rename = "~")]
    Tilde,
    #[serde(rename = "1.5")]
    Float,
    #[serde(rename = ".inf")]
    Inf,
    #[serde(rename = "-0o7")]
    NegOct,
    #[serde(rename = "007")]
    LeadZero,
    #[serde(rename = "two words")]
    Spaced,
    #[serde(rename = "nt")]
    Nt(String),
    #[serde(rename = "7")]
    Seven(i64),
    #[serde(rename = "off")]
    Off(bool),
}
const NAMED_UNITS: &[(&str, &str)] = &[
    ("abc", "Abc"),
    ("1", "One"),
    ("0x1F", "Hex"),
    ("1_000", "Sep"),
    ("true", "True"),
    ("yes", "Yes"),
    ("n", "N"),
    ("null", "Null"),
    ("~", "Tilde"),
    ("1.5", "Float"),
    (".inf", "Inf"),
    ("-0o7", "NegOct"),
    ("007", "LeadZero"),
    ("two words", "Spaced"),
];
/// (variant name, payload text, Debug of the expected value)
const NAMED_NEWTYPES: &[(&str, &str, &str)] = &[("nt", "x", "Nt(\"x\")"), ("7", "12", "Seven(12)"), ("off", "true", "Off(true)")];

fn fetch<T: DeserializeOwned>(doc: &str, pos: Pos, o: Options) -> Result<Option<T>, Error> {
    match pos {
        Pos::EnumKey => serde_saphyr::from_str_with_options::<T>(doc, o).map(Some),
        Pos::AliasSeq => serde_saphyr::from_str_with_options::<Vec<T>>(doc, o).map(|mut v| if v.len() == 2 { v.pop() } else { None }),
        Pos::AliasMap => serde_saphyr::from_str_with_options::<BTreeMap<String, T>>(doc, o)
            .map(|mut m| if m.len() == 2 { m.remove("b") } else { None }),
        Pos::MergeVal => serde_saphyr::from_str_with_options::<BTreeMap<String, BTreeMap<String, T>>>(doc, o).map(|mut m| {
            if m.len() != 2 {
                return None;
            }
            let mut d = m.remove("d")?;
            if d.len() == 1 { d.remove("k") } else { None }
        }),
        Pos::Key => serde_saphyr::from_str_with_options::<Pairs<T>>(doc, o)
            .map(|mut p| if p.0.len() == 1 { p.0.pop().map(|(k, _)| k) } else { None }),
        Pos::Root => serde_saphyr::from_str_with_options::<T>(doc, o).map(Some),
        Pos::Seq => serde_saphyr::from_str_with_options::<Vec<T>>(doc, o).map(|mut v| if v.len() == 1 { v.pop() } else { None }),
        Pos::Map => serde_saphyr::from_str_with_options::<BTreeMap<String, T>>(doc, o)
            .map(|mut m| if m.len() == 1 { m.remove("k") } else { None }),
    }
}

/// Run the real code for one cell. `Ok(None)` = the container did not have the
/// expected single entry (not a C06 matter; inconclusive).
fn run_lib(t: &Tgt, doc: &str, pos: Pos, o: Options) -> Result<Option<Got>, Error> {
    macro_rules! go {
        ($ty:ty, $conv:expr) => {
            if t.opt {
                fetch::<Option<$ty>>(doc, pos, o).map(|x| {
                    x.map(|ov| match ov {
                        None => Got::N,
                        Some(v) => $conv(v),
                    })
                })
            } else {
                fetch::<$ty>(doc, pos, o).map(|x| x.map($conv))
            }
        };
    }
    match t.base {
        Base::I(8) => go!(i8, |v| Got::I(v as i128)),
        Base::I(16) => go!(i16, |v| Got::I(v as i128)),
        Base::I(32) => go!(i32, |v| Got::I(v as i128)),
        Base::I(64) => go!(i64, |v| Got::I(v as i128)),
        Base::I(_) => go!(i128, Got::I),
        Base::U(8) => go!(u8, |v| Got::U(v as u128)),
        Base::U(16) => go!(u16, |v| Got::U(v as u128)),
        Base::U(32) => go!(u32, |v| Got::U(v as u128)),
        Base::U(64) => go!(u64, |v| Got::U(v as u128)),
        Base::U(_) => go!(u128, Got::U),
        Base::F32 => go!(f32, |v| Got::F32(rs::norm_f32(v))),
        Base::F64 => go!(f64, |v| Got::F64(rs::norm_f64(v))),
        Base::Bool => go!(bool, Got::B),
        Base::Char => go!(char, Got::C),
        Base::String => go!(String, Got::S),
        Base::ViaStr => go!(ViaStr, |v: ViaStr| Got::S(v.0)),
        Base::Bytes => go!(Bytes, |v: Bytes| Got::Y(v.0)),
        Base::VecU8 => go!(Vec<u8>, Got::Y),
        Base::Val => go!(Val, Got::V),
        Base::Enum => go!(Named, |v: Named| Got::S(format!("{v:?}"))),
    }
}

fn show_got(g: &Got) -> String {
    match g {
        Got::F32(b) => format!("f32:{:?} (bits {b:#x})", f32::from_bits(*b)),
        Got::F64(b) => format!("f64:{:?} (bits {b:#x})", f64::from_bits(*b)),
        Got::V(v) => format!("Val {v}"),
        other => format!("{other:?}"),
    }
}

// ------------------------------------------------------------------ expectation

struct Sc<'a> {
    value: &'a str,
    style: Style,
    tag: TagC,
}

#[derive(Debug)]
struct Expect {
    ok: Vec<Got>,
    /// any Ok value is acceptable (class without a model)
    any_ok: bool,
    err: bool,
    class: &'static str,
}

impl Expect {
    fn must(g: Got, class: &'static str) -> Expect {
        Expect { ok: vec![g], any_ok: false, err: false, class }
    }
    fn must_err(class: &'static str) -> Expect {
        Expect { ok: vec![], any_ok: false, err: true, class }
    }
    fn one_of(ok: Vec<Got>, err: bool, class: &'static str) -> Expect {
        Expect { ok, any_ok: false, err, class }
    }
    fn any(class: &'static str) -> Expect {
        Expect { ok: vec![], any_ok: true, err: true, class }
    }
    fn definite(&self) -> bool {
        !self.any_ok && ((self.ok.len() == 1 && !self.err) || (self.ok.is_empty() && self.err))
    }
}

fn inferred_to_val(i: &Inferred) -> Val {
    match i {
        Inferred::Null => Val::Null,
        Inferred::Bool(b) => Val::Bool(*b),
        Inferred::Int(v) => Val::Int(*v),
        Inferred::Float(bits) => Val::F(*bits),
        Inferred::Str(s) => Val::Str(s.clone()),
    }
}

/// Must a plain untagged scalar with this text be quoted under `no_schema`?
fn ambiguity(value: &str, o: Ob) -> Tri<()> {
    match ref_plain_is_ambiguous(value) {
        Tri::Yes(()) => {
            // a YAML-1.1-only boolean is not "parseable as a boolean" when strict_booleans is on,
            // and a token documented only through the legacy-octal rule is lenient without it
            if o.strict && ref_bool(value, true).is_no() && !ref_bool(value, false).is_no() {
                Tri::Maybe(())
            } else {
                Tri::Yes(())
            }
        }
        other => other,
    }
}

fn decoded_utf8(value: &str) -> Option<Result<String, ()>> {
    match ref_b64(value) {
        B64::Valid(b) => Some(String::from_utf8(b).map_err(|_| ())),
        _ => None,
    }
}

fn expect_base(base: Base, sc: &Sc, o: Ob) -> Expect {
    let plain = sc.style == Style::Plain;
    let quoted = matches!(sc.style, Style::Single | Style::Double);
    let block = matches!(sc.style, Style::Literal | Style::Folded);
    match base {
        // ------------------------------------------------ integers
        Base::I(bits) | Base::U(bits) => {
            let signed_t = matches!(base, Base::I(_));
            let Some(r) = ref_int(sc.value, o.legacy) else {
                return Expect::must_err("int:no-reading");
            };
            let cands: Vec<Got> = if signed_t {
                r.signed_candidates(bits).into_iter().map(Got::I).collect()
            } else {
                r.unsigned_candidates(bits).into_iter().map(Got::U).collect()
            };
            if cands.is_empty() {
                return Expect::must_err("int:out-of-range");
            }
            let doc_ok = r.documented
                && r.alternative.is_none()
                && plain
                && matches!(sc.tag, TagC::None | TagC::Int)
                && (signed_t || !r.negative);
            if doc_ok {
                Expect::must(cands[0].clone(), "int:documented-fits")
            } else {
                Expect::one_of(cands, true, "int:lenient-spelling-or-context")
            }
        }
        // ------------------------------------------------ floats
        Base::F32 | Base::F64 => {
            let Some(fr) = ref_float(sc.value) else {
                if ref_int(sc.value, o.legacy).is_some() || ref_int(sc.value, !o.legacy).is_some() {
                    return Expect::any("float:integer-only-spelling");
                }
                return Expect::must_err("float:no-reading");
            };
            let g = if base == Base::F32 { Got::F32(fr.f32_bits()) } else { Got::F64(fr.f64_bits()) };
            if fr.documented && plain && matches!(sc.tag, TagC::None | TagC::Float) {
                Expect::must(g, "float:documented")
            } else {
                Expect::one_of(vec![g], true, "float:lenient-spelling-or-context")
            }
        }
        // ------------------------------------------------ bool
        Base::Bool => match ref_bool(sc.value, o.strict) {
            Tri::Yes(b) if plain && matches!(sc.tag, TagC::None | TagC::Bool) => Expect::must(Got::B(b), "bool:documented"),
            Tri::Yes(b) | Tri::Maybe(b) => Expect::one_of(vec![Got::B(b)], true, "bool:lenient-spelling-or-context"),
            Tri::No => Expect::must_err("bool:no-reading"),
        },
        // ------------------------------------------------ char
        Base::Char => {
            if sc.tag == TagC::Binary {
                return Expect::any("char:binary-tag");
            }
            let Some(c) = ref_char(sc.value) else {
                return Expect::must_err("char:not-single-scalar-value");
            };
            let nullp = ref_null(sc.value, Style::Plain);
            let amb = ambiguity(sc.value, o);
            let soft = Expect::one_of(vec![Got::C(c)], true, "char:tag-or-style-context");
            match sc.tag {
                TagC::None | TagC::Str => {
                    if quoted {
                        return Expect::must(Got::C(c), "char:quoted");
                    }
                    let awkward = !nullp.is_no() || (o.no_schema && !amb.is_no());
                    if block {
                        return if awkward { soft } else { Expect::must(Got::C(c), "char:block") };
                    }
                    // plain
                    if sc.tag == TagC::Str {
                        return if awkward { soft } else { Expect::must(Got::C(c), "char:plain") };
                    }
                    if nullp.is_yes() {
                        return Expect::must_err("char:plain-null");
                    }
                    if !nullp.is_no() {
                        return soft;
                    }
                    if o.no_schema {
                        match amb {
                            Tri::Yes(()) => return Expect::must_err("char:no-schema-needs-quoting"),
                            Tri::Maybe(()) => return soft,
                            Tri::No => {}
                        }
                    }
                    Expect::must(Got::C(c), "char:plain")
                }
                _ => soft,
            }
        }
        // ------------------------------------------------ String (deserialize_string)
        Base::String => {
            let nullp = ref_null(sc.value, sc.style);
            let amb = if plain { ambiguity(sc.value, o) } else { Tri::No };
            let verbatim = Got::S(sc.value.to_string());
            let soft = |class| Expect::one_of(vec![Got::S(sc.value.to_string())], true, class);
            match sc.tag {
                TagC::Binary if !o.ignore_bin => {
                    if plain && (!nullp.is_no() || (o.no_schema && !amb.is_no())) {
                        return Expect::any("string:binary-plain-null-or-ambiguous");
                    }
                    match ref_b64(sc.value) {
                        B64::Valid(b) => match String::from_utf8(b) {
                            Ok(s) => Expect::must(Got::S(s), "string:binary-decoded"),
                            Err(_) => Expect::must_err("string:binary-not-utf8"),
                        },
                        B64::Invalid(_) => Expect::must_err("string:binary-invalid-base64"),
                        B64::Unspecified(_) => Expect::any("string:binary-unspecified-blank"),
                    }
                }
                TagC::None | TagC::Binary => {
                    if quoted {
                        return Expect::must(verbatim, "string:quoted-verbatim");
                    }
                    if block {
                        return if sc.value.is_empty() { soft("string:empty-block") } else { Expect::must(verbatim, "string:block-verbatim") };
                    }
                    match nullp {
                        Tri::Yes(()) => return Expect::must_err("string:plain-null"),
                        Tri::Maybe(()) => return soft("string:plain-null-other-casing"),
                        Tri::No => {}
                    }
                    if o.no_schema {
                        match amb {
                            Tri::Yes(()) => return Expect::must_err("string:no-schema-needs-quoting"),
                            Tri::Maybe(()) => return soft("string:no-schema-lenient-spelling"),
                            Tri::No => {}
                        }
                    }
                    Expect::must(verbatim, "string:plain-verbatim")
                }
                TagC::Str => {
                    if quoted || (block && !sc.value.is_empty()) {
                        return Expect::must(verbatim, "string:str-tag-verbatim");
                    }
                    if !nullp.is_no() || (o.no_schema && !amb.is_no()) || block {
                        return soft("string:str-tag-null-or-ambiguous");
                    }
                    Expect::must(verbatim, "string:str-tag-verbatim")
                }
                TagC::NonSpecific | TagC::Custom => soft("string:application-tag"),
                TagC::Int | TagC::Float | TagC::Bool | TagC::Null => soft("string:core-non-string-tag"),
            }
        }
        // ------------------------------------------------ deserialize_str
        Base::ViaStr => {
            let nullp = ref_null(sc.value, sc.style);
            let amb = if plain { ambiguity(sc.value, o) } else { Tri::No };
            let verbatim = Got::S(sc.value.to_string());
            let soft = |class| Expect::one_of(vec![Got::S(sc.value.to_string())], true, class);
            match sc.tag {
                TagC::None | TagC::Str => {
                    if quoted || (block && !sc.value.is_empty()) {
                        return Expect::must(verbatim, "str:non-plain-verbatim");
                    }
                    if block {
                        return soft("str:empty-block");
                    }
                    if sc.tag == TagC::None && nullp.is_yes() {
                        return Expect::must_err("str:plain-null");
                    }
                    if !nullp.is_no() || (o.no_schema && !amb.is_no()) {
                        return soft("str:null-or-ambiguous");
                    }
                    Expect::must(verbatim, "str:plain-verbatim")
                }
                TagC::Binary => {
                    let mut ok = vec![verbatim];
                    if let Some(Ok(s)) = decoded_utf8(sc.value) {
                        ok.push(Got::S(s));
                    }
                    Expect::one_of(ok, true, "str:binary-tag")
                }
                _ => soft("str:other-tag"),
            }
        }
        // ------------------------------------------------ enum variant named by the scalar (unit form)
        Base::Enum => {
            if !matches!(sc.tag, TagC::None | TagC::Str) {
                return Expect::any("enum:tagged-name");
            }
            let Some((_, dbg)) = NAMED_UNITS.iter().find(|(n, _)| *n == sc.value) else {
                return if NAMED_NEWTYPES.iter().any(|(n, _, _)| *n == sc.value) {
                    Expect::must_err("enum:newtype-variant-without-payload")
                } else if block || ref_null(sc.value, sc.style) != Tri::No {
                    Expect::any("enum:null-or-block-name")
                } else {
                    Expect::must_err("enum:unknown-name")
                };
            };
            enum_name_expect(Got::S(dbg.to_string()), sc, o)
        }
        // ------------------------------------------------ Vec<u8> from a !!binary scalar
        Base::VecU8 => {
            if sc.tag == TagC::Binary {
                match ref_b64(sc.value) {
                    B64::Valid(b) => Expect::must(Got::Y(b), "vec-u8:binary-decoded"),
                    B64::Invalid(_) => Expect::must_err("vec-u8:binary-invalid-base64"),
                    B64::Unspecified(_) => Expect::any("vec-u8:binary-unspecified-blank"),
                }
            } else {
                Expect::any("vec-u8:scalar-without-binary-tag")
            }
        }
        // ------------------------------------------------ bytes
        Base::Bytes => {
            if sc.tag == TagC::Binary {
                match ref_b64(sc.value) {
                    B64::Valid(b) => Expect::must(Got::Y(b), "bytes:binary-decoded"),
                    B64::Invalid(_) => Expect::must_err("bytes:binary-invalid-base64"),
                    B64::Unspecified(_) => Expect::any("bytes:binary-unspecified-blank"),
                }
            } else {
                let mut ok = vec![Got::Y(sc.value.as_bytes().to_vec())];
                if let B64::Valid(b) = ref_b64(sc.value) {
                    ok.push(Got::Y(b));
                }
                Expect::one_of(ok, true, "bytes:scalar-without-binary-tag")
            }
        }
        // ------------------------------------------------ untyped
        Base::Val => {
            let nullp = ref_null(sc.value, sc.style);
            let vs = |s: &str| Got::V(Val::Str(s.to_string()));
            let inference = || -> (Vec<Got>, bool) {
                let u = ref_untyped_plain(sc.value, o.strict, o.legacy);
                (u.allowed.iter().map(|i| Got::V(inferred_to_val(i))).collect(), u.definite)
            };
            let with_str = |mut v: Vec<Got>| {
                let s = vs(sc.value);
                if !v.contains(&s) {
                    v.push(s);
                }
                v
            };
            match sc.tag {
                TagC::Null => {
                    if sc.value.is_empty() || sc.value == "~" || sc.value.eq_ignore_ascii_case("null") {
                        Expect::must(Got::V(Val::Null), "untyped:null-tag")
                    } else {
                        Expect::one_of(vec![Got::V(Val::Null)], true, "untyped:null-tag-on-text")
                    }
                }
                TagC::None => {
                    if !plain {
                        return Expect::must(vs(sc.value), "untyped:non-plain-is-string");
                    }
                    let (allowed, definite) = inference();
                    if definite {
                        let class = match &allowed[0] {
                            Got::V(Val::Null) => "untyped:plain-null",
                            Got::V(Val::Bool(_)) => "untyped:plain-bool",
                            Got::V(Val::Int(_)) => "untyped:plain-int",
                            Got::V(Val::F(_)) => "untyped:plain-float",
                            _ => "untyped:plain-string",
                        };
                        Expect::must(allowed[0].clone(), class)
                    } else {
                        Expect::one_of(allowed, false, "untyped:plain-lenient-spelling")
                    }
                }
                TagC::Str => {
                    if !plain || nullp.is_no() {
                        Expect::must(vs(sc.value), "untyped:str-tag")
                    } else {
                        Expect::one_of(vec![Got::V(Val::Null), vs(sc.value)], false, "untyped:str-tag-on-null")
                    }
                }
                TagC::NonSpecific | TagC::Custom => {
                    let ok = if plain { with_str(inference().0) } else { vec![vs(sc.value)] };
                    Expect::one_of(ok, true, "untyped:application-tag")
                }
                TagC::Int | TagC::Float | TagC::Bool => {
                    let mut ok = if plain { inference().0 } else { vec![] };
                    match sc.tag {
                        TagC::Int => {
                            if let Some(r) = ref_int(sc.value, o.legacy) {
                                for v in [r.to_i128(), r.alt_i128()].into_iter().flatten() {
                                    ok.push(Got::V(Val::Int(v)));
                                }
                            }
                        }
                        TagC::Float => {
                            if let Some(f) = ref_float(sc.value) {
                                ok.push(Got::V(Val::F(f.f64_bits())));
                                ok.push(vs(rs::canonical_nonfinite(f.f64_bits())));
                            }
                        }
                        _ => {
                            if let Some(b) = ref_bool(sc.value, o.strict).value() {
                                ok.push(Got::V(Val::Bool(b)));
                            }
                        }
                    }
                    Expect::one_of(with_str(ok), true, "untyped:core-scalar-tag")
                }
                TagC::Binary => {
                    if o.ignore_bin {
                        let ok = if plain { with_str(inference().0) } else { vec![vs(sc.value)] };
                        return Expect::one_of(ok, false, "untyped:binary-tag-ignored");
                    }
                    if plain && !nullp.is_no() {
                        let mut ok = vec![Got::V(Val::Null)];
                        if let Some(Ok(s)) = decoded_utf8(sc.value) {
                            ok.push(vs(&s));
                        }
                        return Expect::one_of(ok, true, "untyped:binary-tag-on-null");
                    }
                    match ref_b64(sc.value) {
                        B64::Valid(b) => match String::from_utf8(b) {
                            Ok(s) => Expect::must(vs(&s), "untyped:binary-decoded"),
                            // Not text: the documentation pins the error only for String targets;
                            // an untyped target may hold the bytes, and then exactly these.
                            Err(e) => Expect::one_of(
                                vec![Got::V(Val::Bytes(e.into_bytes()))],
                                true,
                                "untyped:binary-not-utf8",
                            ),
                        },
                        B64::Invalid(_) => Expect::must_err("untyped:binary-invalid-base64"),
                        B64::Unspecified(_) => Expect::any("untyped:binary-unspecified-blank"),
                    }
                }
            }
        }
    }
}

/// A scalar that names an enum variant (as the whole value, or as the key of `{name: payload}`).
fn enum_name_expect(ok: Got, sc: &Sc, o: Ob) -> Expect {
    let quoted = matches!(sc.style, Style::Single | Style::Double);
    if quoted {
        return Expect::must(ok, "enum:quoted-name");
    }
    if sc.style != Style::Plain {
        return Expect::one_of(vec![ok], true, "enum:block-name");
    }
    match ambiguity(sc.value, o) {
        Tri::No => Expect::must(ok, "enum:plain-name"),
        Tri::Yes(()) if o.no_schema && sc.tag == TagC::None => Expect::must_err("enum:no-schema-needs-quoting"),
        _ => Expect::one_of(vec![ok], true, "enum:plain-name-looks-like-non-string"),
    }
}

/// Expectation for `{S: payload}` read as an enum: S names the variant.
fn enum_key_expect(sc: &Sc, o: Ob) -> Expect {
    if !matches!(sc.tag, TagC::None | TagC::Str) {
        return Expect::any("enum:tagged-name");
    }
    if let Some((_, _, dbg)) = NAMED_NEWTYPES.iter().find(|(n, _, _)| *n == sc.value) {
        return enum_name_expect(Got::S(dbg.to_string()), sc, o);
    }
    if NAMED_UNITS.iter().any(|(n, _)| *n == sc.value) {
        return Expect::any("enum:unit-variant-with-payload");
    }
    if sc.style == Style::Literal || sc.style == Style::Folded || ref_null(sc.value, sc.style) != Tri::No {
        return Expect::any("enum:null-or-block-name");
    }
    Expect::must_err("enum:unknown-name")
}

fn expect_at(t: &Tgt, sc: &Sc, o: Ob, pos: Pos) -> Expect {
    if pos == Pos::EnumKey { enum_key_expect(sc, o) } else { expect(t, sc, o) }
}

fn expect(t: &Tgt, sc: &Sc, o: Ob) -> Expect {
    let inner = expect_base(t.base, sc, o);
    if !t.opt {
        return inner;
    }
    let text_nullish = sc.value.is_empty() || sc.value == "~" || sc.value.eq_ignore_ascii_case("null");
    let n: Tri<()> = match sc.tag {
        TagC::Null => {
            if text_nullish {
                Tri::Yes(())
            } else {
                Tri::Maybe(())
            }
        }
        TagC::None => ref_null_option(sc.value, sc.style),
        _ => {
            if ref_null_option(sc.value, sc.style).is_no() {
                Tri::No
            } else {
                Tri::Maybe(())
            }
        }
    };
    match n {
        Tri::Yes(()) => Expect::must(Got::N, "option:null-is-none"),
        Tri::No => inner,
        Tri::Maybe(()) => {
            let mut ok = inner.ok;
            ok.push(Got::N);
            Expect { ok, any_ok: inner.any_ok, err: inner.err, class: "option:maybe-null" }
        }
    }
}

// ------------------------------------------------------------------ judging

enum Verdict {
    Held,
    Unspecified,
    Violation { shape: &'static str, detail: String },
}

fn int_wrong_value_class(base: Base, got: &Got, value: &str, o: Ob) -> &'static str {
    let Some(r) = ref_int(value, o.legacy) else { return "garbage" };
    let (bits, lib_bits): (u32, u128) = match (base, got) {
        (Base::I(b), Got::I(v)) => (b, *v as u128),
        (Base::U(b), Got::U(v)) => (b, *v),
        _ => return "other",
    };
    let mask = if bits >= 128 { u128::MAX } else { (1u128 << bits) - 1 };
    let mut low = r.magnitude.low_u128();
    if r.negative {
        low = low.wrapping_neg();
    }
    if (low & mask) == (lib_bits & mask) {
        return "wrapped";
    }
    let (min, max): (u128, u128) = match base {
        Base::I(b) => {
            let half = 1u128 << (b - 1);
            (half.wrapping_neg(), half - 1)
        }
        _ => (0, mask),
    };
    if let Some(alt) = ref_int(value, !o.legacy)
        && (alt.to_i128().map(|v| v as u128) == Some(lib_bits) || alt.to_u128() == Some(lib_bits))
    {
        return "legacy-octal-option-misapplied";
    }
    if (lib_bits & mask) == (min & mask) || (lib_bits & mask) == (max & mask) {
        return "saturated";
    }
    "other"
}

fn int_rejected_class(base: Base, value: &str, o: Ob) -> String {
    let Some(r) = ref_int(value, o.legacy) else { return "none".into() };
    let radix = if r.radix == 10 { "decimal" } else { "nondecimal" };
    let boundary = match base {
        Base::I(b) => match r.to_i128() {
            Some(v) if b == 128 && v == i128::MIN => "i128-min",
            Some(v) if b < 128 && v == -(1i128 << (b - 1)) => "width-min",
            Some(v) if b < 128 && v == (1i128 << (b - 1)) - 1 => "width-max",
            Some(i128::MAX) => "width-max",
            _ => "inner",
        },
        Base::U(b) => match r.to_u128() {
            Some(v) if b < 128 && v == (1u128 << b) - 1 => "width-max",
            Some(u128::MAX) => "width-max",
            Some(0) => "zero",
            _ => "inner",
        },
        _ => "inner",
    };
    format!("{radix}:{boundary}")
}

/// Which documented reading makes a plain scalar "not a string" (for signatures).
fn ambiguity_reason(value: &str) -> String {
    if ref_null(value, Style::Plain).is_yes() {
        "null".into()
    } else if ref_bool(value, false).is_yes() {
        "bool".into()
    } else if rs::int_is_documented(value, false) {
        format!("int:{}", int_rejected_class(Base::I(128), value, ob(0)))
    } else {
        "float".into()
    }
}

fn judge(e: &Expect, got: &Result<Got, String>) -> Verdict {
    match got {
        Ok(g) => {
            if e.any_ok || e.ok.contains(g) {
                if e.definite() { Verdict::Held } else { Verdict::Unspecified }
            } else if e.ok.is_empty() {
                Verdict::Violation { shape: "accepted", detail: format!("expected Err, library returned Ok({})", show_got(g)) }
            } else {
                Verdict::Violation {
                    shape: "wrong-value",
                    detail: format!(
                        "library returned Ok({}), natural value(s): {}{}",
                        show_got(g),
                        e.ok.iter().map(show_got).collect::<Vec<_>>().join(" | "),
                        if e.err { " (or Err)" } else { "" }
                    ),
                }
            }
        }
        Err(kind) => {
            if e.err {
                if e.definite() { Verdict::Held } else { Verdict::Unspecified }
            } else {
                Verdict::Violation {
                    shape: "rejected",
                    detail: format!(
                        "library returned Err({kind}), expected Ok({})",
                        e.ok.iter().map(show_got).collect::<Vec<_>>().join(" | ")
                    ),
                }
            }
        }
    }
}

/// A broken library can violate millions of cells; keep the first few witnesses per
/// signature and only count the rest (the run still fails, evidence shows the totals).
static REPORTED: std::sync::Mutex<BTreeMap<String, u64>> = std::sync::Mutex::new(BTreeMap::new());
const WITNESSES_PER_SIGNATURE: u64 = 6;

fn report(run: &Run, sig: &str, case: impl FnOnce() -> Value, detail: String) {
    let n = {
        let mut m = REPORTED.lock().unwrap();
        let c = m.entry(sig.to_string()).or_insert(0);
        *c += 1;
        *c
    };
    if n <= WITNESSES_PER_SIGNATURE {
        run.violation(sig, case(), detail);
    }
}

fn flush_report_totals(run: &Run) {
    for (sig, n) in REPORTED.lock().unwrap().iter() {
        run.count(&format!("violating_cells/{sig}"), *n);
    }
}

#[derive(Default)]
struct Local {
    evals: u64,
    held: BTreeMap<&'static str, u64>,
    unspec: BTreeMap<&'static str, u64>,
    misc: BTreeMap<&'static str, u64>,
    kinds: BTreeMap<String, u64>,
}

impl Local {
    fn flush(&mut self, run: &Run) {
        run.evals(self.evals);
        for (k, v) in &self.held {
            run.count(&format!("held/{k}"), *v);
        }
        for (k, v) in &self.unspec {
            run.count(&format!("unspecified/{k}"), *v);
        }
        run.count_map(&self.misc);
        for (k, v) in &self.kinds {
            run.observe("error_kinds", k);
            run.count(&format!("error_kind/{k}"), *v);
        }
        *self = Local::default();
    }
    fn bump(m: &mut BTreeMap<&'static str, u64>, k: &'static str) {
        *m.entry(k).or_insert(0) += 1;
    }
}

/// Execute and judge one cell. Returns true when a verdict (held/unspecified) was reached.
#[allow(clippy::too_many_arguments)]
fn cell(run: &Run, loc: &mut Local, t: &Tgt, sc: &Sc, e: &Expect, doc: &str, pos: Pos, obits: u8, sample_kind: bool) {
    loc.evals += 1;
    let r = vcore::obs::catch(|| run_lib(t, doc, pos, mk_opts(obits)));
    let case = || {
        json!({"doc": doc, "pos": pos_name(pos), "target": t.name, "opts": obits,
               "value": sc.value, "style": style_name(sc.style), "tag": tag_name(sc.tag)})
    };
    let got: Result<Got, String> = match r {
        Err(p) => {
            report(run, &format!("C06:panic:{}", vcore::obs::panic_site(&p)), case, p);
            return;
        }
        Ok(Ok(Some(g))) => {
            Local::bump(&mut loc.misc, "library_ok");
            Ok(g)
        }
        Ok(Ok(None)) => {
            run.inconclusive("embedded scalar: container did not deliver exactly one entry");
            return;
        }
        Ok(Err(err)) => {
            Local::bump(&mut loc.misc, "library_err");
            if sc.style == Style::Folded && matches!(err.without_snippet(), Error::FoldedBlockScalarMustIndentContent { .. }) {
                // event-layer rule about folded scalars starting in column 0, not scalar interpretation
                Local::bump(&mut loc.unspec, "folded-block-at-column-0-rejected-before-interpretation");
                return;
            }
            let need_kind = sample_kind || !e.err;
            if need_kind {
                let k = vcore::errs::kind(&err);
                if sample_kind {
                    *loc.kinds.entry(k.clone()).or_insert(0) += 1;
                }
                Err(k)
            } else {
                Err(String::new())
            }
        }
    };
    match judge(e, &got) {
        Verdict::Held => Local::bump(&mut loc.held, e.class),
        Verdict::Unspecified => Local::bump(&mut loc.unspec, e.class),
        Verdict::Violation { shape, detail } => {
            let fam = family_of(t.base);
            let extra = match (fam, shape, &got) {
                ("int", "wrong-value" | "accepted", Ok(g)) => {
                    format!(":{}", int_wrong_value_class(t.base, g, sc.value, ob(obits)))
                }
                ("int", "rejected", _) => format!(":{}", int_rejected_class(t.base, sc.value, ob(obits))),
                (_, "accepted", _) if e.class.ends_with("no-schema-needs-quoting") => {
                    format!(":{}", ambiguity_reason(sc.value))
                }
                _ => String::new(),
            };
            let optp = if t.opt && !e.class.starts_with("option:") { "option-of-" } else { "" };
            let sig = format!("C06:{optp}{}:{shape}{extra}", e.class);
            report(run, &sig, case, detail);
        }
    }
}

// ------------------------------------------------------------------ documents

fn scalar_node(text: &str, style: Style, tag: Option<&str>) -> Node {
    // folded is rendered with clip chomping (value gains the final line break), literal with strip
    let text = if style == Style::Folded { format!("{text}\n") } else { text.to_string() };
    Node::Scalar { text, style, tag: tag.map(|s| s.to_string()), anchor: None }
}

fn wrap(n: Node, pos: Pos) -> Node {
    match pos {
        Pos::Root => n,
        Pos::Seq => Node::seq(vec![n]),
        Pos::Map => Node::map(vec![(Node::plain("k"), n)]),
        Pos::AliasSeq => Node::seq(vec![n.with_anchor("a"), Node::alias("a")]),
        Pos::AliasMap => Node::map(vec![(Node::plain("a"), n.with_anchor("a")), (Node::plain("b"), Node::alias("a"))]),
        Pos::MergeVal => Node::map(vec![
            (Node::plain("base"), Node::map(vec![(Node::plain("k"), n)]).with_anchor("m")),
            (Node::plain("d"), Node::map(vec![(Node::plain("<<"), Node::alias("m"))])),
        ]),
        Pos::Key => Node::map(vec![(n, Node::plain("v"))]),
        Pos::EnumKey => {
            let name = match &n {
                Node::Scalar { text, .. } => text.trim_end_matches('\n').to_string(),
                _ => String::new(),
            };
            let payload = NAMED_NEWTYPES.iter().find(|(v, _, _)| *v == name).map(|(_, p, _)| *p).unwrap_or("x");
            Node::map(vec![(n, Node::plain(payload))])
        }
    }
}

fn scalar_of(r: &RNode, pos: Pos) -> Option<&RNode> {
    match (pos, r) {
        (Pos::Root, n @ RNode::Scalar { .. }) => Some(n),
        (Pos::Seq, RNode::Seq { items, .. }) if items.len() == 1 => Some(&items[0]),
        (Pos::Map, RNode::Map { entries, .. }) if entries.len() == 1 => Some(&entries[0].1),
        (Pos::AliasSeq, RNode::Seq { items, .. }) if items.len() == 2 && matches!(items[1], RNode::Alias { .. }) => Some(&items[0]),
        (Pos::AliasMap, RNode::Map { entries, .. }) if entries.len() == 2 && matches!(entries[1].1, RNode::Alias { .. }) => {
            Some(&entries[0].1)
        }
        (Pos::MergeVal, RNode::Map { entries, .. }) if entries.len() == 2 => match (&entries[0].1, &entries[1].1) {
            (RNode::Map { entries: base, .. }, RNode::Map { entries: d, .. })
                if base.len() == 1 && d.len() == 1 && matches!(d[0].1, RNode::Alias { .. }) =>
            {
                Some(&base[0].1)
            }
            _ => None,
        },
        (Pos::Key | Pos::EnumKey, RNode::Map { entries, .. }) if entries.len() == 1 => Some(&entries[0].0),
        _ => None,
    }
}

/// Render the scalar at `pos` and confirm with the raw parser that the document
/// is exactly that scalar (value, style, tag). Returns (doc, value as parsed).
fn build_doc(text: &str, style: Style, tag: Option<&str>, pos: Pos, ro: &RenderOpts) -> Option<(String, String)> {
    if matches!(pos, Pos::Key | Pos::EnumKey) && style == Style::Plain && text == "<<" {
        // a plain `<<` key is a merge key (property C03), not a scalar to interpret
        return None;
    }
    let n = wrap(scalar_node(text, style, tag), pos);
    let (doc, r) = render_checked(&n, ro)?;
    if doc.starts_with('\u{FEFF}') {
        // a leading BOM belongs to the stream (the library strips one), not to the scalar
        return None;
    }
    match scalar_of(&r, pos)? {
        RNode::Scalar { value, .. } => Some((doc, value.clone())),
        _ => None,
    }
}

/// How `run_combo` registers distinct non-trivial cells.
#[derive(Clone, Copy, PartialEq, Eq)]
enum Nt {
    /// hash(value, style, tag, target) once
    Cell,
    /// additionally hash(.., position) for every further position (arrival families)
    PerPosition,
    /// the caller decides (families whose tokens are mostly far from every grammar)
    Never,
}

/// All cells of one (token, style, tag): every position × target × option vector.
#[allow(clippy::too_many_arguments)]
fn run_combo(
    run: &Run,
    loc: &mut Local,
    tok: &Token,
    style: Style,
    tagc: TagC,
    tagsrc: Option<&str>,
    positions: &[Pos],
    opt_vectors: &[u8],
    ro: &RenderOpts,
    targets: &[Tgt],
    nt: Nt,
) {
    let mut docs: Vec<(Pos, String)> = Vec::with_capacity(4);
    let mut value: Option<String> = None;
    for &pos in positions {
        match build_doc(&tok.text, style, tagsrc, pos, ro) {
            Some((doc, v)) => {
                if let Some(prev) = &value
                    && *prev != v
                {
                    run.inconclusive("generator-invalid: scalar value differs between positions");
                    continue;
                }
                value = Some(v);
                docs.push((pos, doc));
            }
            None => {
                Local::bump(&mut loc.misc, "generator_invalid_documents");
                run.inconclusive(match style {
                    Style::Plain => "generator-invalid: token cannot be written as this plain scalar (raw parser disagrees)",
                    Style::Single | Style::Double => "generator-invalid: quoted rendering not confirmed by the raw parser",
                    _ => "generator-invalid: block rendering not confirmed by the raw parser",
                });
            }
        }
    }
    let Some(value) = value else { return };
    Local::bump(&mut loc.misc, "scalar_documents_confirmed_by_raw_parser");
    Local::bump(
        &mut loc.misc,
        match style {
            Style::Plain => "confirmed_scalars/style/plain",
            Style::Single => "confirmed_scalars/style/single",
            Style::Double => "confirmed_scalars/style/double",
            Style::Literal => "confirmed_scalars/style/literal",
            Style::Folded => "confirmed_scalars/style/folded",
        },
    );
    Local::bump(
        &mut loc.misc,
        match tagc {
            TagC::None => "confirmed_scalars/tag/none",
            TagC::Int => "confirmed_scalars/tag/!!int",
            TagC::Float => "confirmed_scalars/tag/!!float",
            TagC::Bool => "confirmed_scalars/tag/!!bool",
            TagC::Null => "confirmed_scalars/tag/!!null",
            TagC::Str => "confirmed_scalars/tag/!!str",
            TagC::Binary => "confirmed_scalars/tag/!!binary",
            TagC::NonSpecific => "confirmed_scalars/tag/!",
            TagC::Custom => "confirmed_scalars/tag/!custom",
        },
    );
    let sc = Sc { value: &value, style, tag: tagc };
    for t in targets {
        let rel = nt != Nt::Never && relevant(t, tok.family);
        let mask = oracle_option_mask(t.base);
        let mut memo: [Option<Expect>; 16] = Default::default();
        for &obits in opt_vectors {
            let slot = (obits & mask) as usize;
            if memo[slot].is_none() {
                memo[slot] = Some(expect(t, &sc, ob(obits & mask)));
            }
            let e = memo[slot].as_ref().unwrap();
            for (i, (pos, doc)) in docs.iter().enumerate() {
                let first = i == 0 && obits == opt_vectors[0];
                cell(run, loc, t, &sc, e, doc, *pos, obits, first);
                if rel {
                    Local::bump(&mut loc.misc, "nontrivial_cells_executed");
                    if first {
                        run.nontrivial(fnv_parts(&[
                            value.as_bytes(),
                            style_name(style).as_bytes(),
                            tag_name(tagc).as_bytes(),
                            t.name.as_bytes(),
                        ]));
                    } else if nt == Nt::PerPosition && obits == opt_vectors[0] {
                        run.nontrivial(fnv_parts(&[
                            value.as_bytes(),
                            style_name(style).as_bytes(),
                            tag_name(tagc).as_bytes(),
                            t.name.as_bytes(),
                            pos_name(*pos).as_bytes(),
                        ]));
                    }
                }
            }
        }
    }
}

// ------------------------------------------------------------------ base64 workloads

const B64_SWEEP_ALPHABET: &[char] = &['A', 'B', '/', '+', '=', 'Z', 'a', '0', ' ', '\n', '?', '-'];

fn nth_string(mut idx: usize, len: usize) -> String {
    let mut s = String::with_capacity(len);
    for _ in 0..len {
        s.push(B64_SWEEP_ALPHABET[idx % B64_SWEEP_ALPHABET.len()]);
        idx /= B64_SWEEP_ALPHABET.len();
    }
    s
}

const T_BYTES: Tgt = Tgt { name: "Bytes", base: Base::Bytes, opt: false };
const T_STRING: Tgt = Tgt { name: "String", base: Base::String, opt: false };
const T_VAL: Tgt = Tgt { name: "Val", base: Base::Val, opt: false };
const T_VECU8: Tgt = Tgt { name: "Vec<u8>", base: Base::VecU8, opt: false };
const T_ENUM: Tgt = Tgt { name: "enum", base: Base::Enum, opt: false };

fn b64_cells(run: &Run, loc: &mut Local, payload: &str, style: Style, nontrivial: bool, ro: &RenderOpts) {
    let Some((doc, value)) = build_doc(payload, style, Some("!!binary"), Pos::Root, ro) else {
        Local::bump(&mut loc.misc, "generator_invalid_documents");
        return;
    };
    let sc = Sc { value: &value, style, tag: TagC::Binary };
    for (t, obits) in [(&T_BYTES, 0u8), (&T_STRING, 0), (&T_VAL, 0), (&T_VECU8, 0), (&T_STRING, 8), (&T_BYTES, 8)] {
        let e = expect(t, &sc, ob(obits));
        cell(run, loc, t, &sc, &e, &doc, Pos::Root, obits, false);
    }
    match ref_b64(&value) {
        B64::Valid(_) => Local::bump(&mut loc.misc, "b64_reference_valid"),
        B64::Invalid(why) => {
            Local::bump(&mut loc.misc, "b64_reference_invalid");
            Local::bump(&mut loc.misc, why);
        }
        B64::Unspecified(_) => Local::bump(&mut loc.misc, "b64_reference_unspecified"),
    }
    if nontrivial {
        run.nontrivial(fnv_parts(&[value.as_bytes(), style_name(style).as_bytes(), b"b64"]));
    }
}

/// Spread a base64 text over blanks / line breaks the way documents do.
fn decorate_b64(rng: &mut Rng, enc: &str) -> (String, Style) {
    match rng.below(4) {
        0 => (enc.to_string(), Style::Plain),
        1 => {
            let mut s = String::new();
            for (i, c) in enc.chars().enumerate() {
                if i > 0 && rng.chance(1, 9) {
                    s.push(*rng.pick(&[' ', '\n', '\t', '\r']));
                }
                s.push(c);
            }
            (s, Style::Double)
        }
        2 => {
            let w = *rng.pick(&[4usize, 16, 60, 76]);
            let cs: Vec<char> = enc.chars().collect();
            let lines: Vec<String> = cs.chunks(w).map(|c| c.iter().collect()).collect();
            (lines.join("\n"), Style::Literal)
        }
        _ => (enc.to_string(), Style::Single),
    }
}

// ------------------------------------------------------------------ deepening helpers

const SHORT_ALPHABET: &[char] = &['0', '1', '7', '9', 'f', '_', 'x', 'o', 'b', '+', '-'];

const SHORT_TARGETS: &[Tgt] = &[
    Tgt { name: "i8", base: Base::I(8), opt: false },
    Tgt { name: "u8", base: Base::U(8), opt: false },
    Tgt { name: "i64", base: Base::I(64), opt: false },
    Tgt { name: "u64", base: Base::U(64), opt: false },
    Tgt { name: "i128", base: Base::I(128), opt: false },
    Tgt { name: "u128", base: Base::U(128), opt: false },
    Tgt { name: "f64", base: Base::F64, opt: false },
    Tgt { name: "String", base: Base::String, opt: false },
    Tgt { name: "Val", base: Base::Val, opt: false },
];

const FLOAT_TARGETS: &[Tgt] = &[
    Tgt { name: "f32", base: Base::F32, opt: false },
    Tgt { name: "f64", base: Base::F64, opt: false },
    Tgt { name: "Option<f64>", base: Base::F64, opt: true },
    Tgt { name: "Val", base: Base::Val, opt: false },
    Tgt { name: "String", base: Base::String, opt: false },
];

const CHAR_TARGETS: &[Tgt] = &[
    Tgt { name: "char", base: Base::Char, opt: false },
    Tgt { name: "String", base: Base::String, opt: false },
    Tgt { name: "via_deserialize_str", base: Base::ViaStr, opt: false },
    Tgt { name: "Val", base: Base::Val, opt: false },
];

/// Does the coarse character class (std's predicates) change between `c`'s
/// predecessor and `c`, or is `c` at the edge of a Unicode plane / the surrogate gap?
fn char_class_boundary(c: char) -> bool {
    fn class(c: char) -> u8 {
        (c.is_alphabetic() as u8)
            | (c.is_numeric() as u8) << 1
            | (c.is_whitespace() as u8) << 2
            | (c.is_control() as u8) << 3
            | (c.is_uppercase() as u8) << 4
            | (c.is_lowercase() as u8) << 5
            | (c.is_ascii() as u8) << 6
    }
    let cp = c as u32;
    if cp == 0 || cp & 0xFFFF == 0 || cp & 0xFFFF == 0xFFFF || cp == 0xD7FF || cp == 0xE000 || cp == 0x10FFFF {
        return true;
    }
    match char::from_u32(cp - 1) {
        Some(p) => class(p) != class(c),
        None => true,
    }
}

/// Confirm, with exact big-integer arithmetic, that the reference f64 and f32
/// values of a decimal literal are the correctly rounded ones. Returns false (and
/// records the case as inconclusive) when the two references disagree.
fn confirm_float_reference(run: &Run, loc: &mut Local, text: &str) -> bool {
    let Some(fr) = ref_float(text) else { return true };
    match fr.confirmed_exactly() {
        Some(true) => {
            Local::bump(&mut loc.misc, "float_references_confirmed_by_exact_arithmetic");
            true
        }
        Some(false) => {
            run.inconclusive("model disagreement: std float parse vs exact-arithmetic rounding check");
            false
        }
        None => true,
    }
}

// ------------------------------------------------------------------ replay

fn replay(run: &Run, case: &Value) {
    let doc = case["doc"].as_str().unwrap_or("");
    let pos = pos_of_name(case["pos"].as_str().unwrap_or("root"));
    let tname = case["target"].as_str().unwrap_or("");
    let obits = case["opts"].as_u64().unwrap_or(0) as u8;
    let Some(t) = TARGETS.iter().chain([&T_VECU8, &T_ENUM]).find(|t| t.name == tname) else {
        eprintln!("harness error: unknown target {tname}");
        std::process::exit(2);
    };
    // everything about the scalar is re-derived from the raw parser
    let Some(root) = reftree::parse_one(doc) else {
        eprintln!("harness error: replay document is not one YAML document for the raw parser");
        std::process::exit(2);
    };
    let Some(RNode::Scalar { value, style, tag, .. }) = scalar_of(&root, pos) else {
        eprintln!("harness error: replay document has no scalar at the recorded position");
        std::process::exit(2);
    };
    let Some(tagc) = tag_of_source(tag.as_deref()) else {
        eprintln!("harness error: replay scalar has a tag outside the modelled set");
        std::process::exit(2);
    };
    let sc = Sc { value, style: reftree::style_of(*style), tag: tagc };
    let e = expect_at(t, &sc, ob(obits), pos);
    eprintln!("replay: value={value:?} style={:?} tag={tagc:?} target={} opts={obits:#06b} expectation={e:?}", sc.style, t.name);
    let mut loc = Local::default();
    cell(run, &mut loc, t, &sc, &e, doc, pos, obits, true);
    loc.flush(run);
}

// ------------------------------------------------------------------ main

fn main() {
    let run = Run::from_args("C06");
    if let Some(rep) = run.is_replay() {
        replay(&run, &rep["case"]);
        run.finish(Finish::new("replay"));
    }
    let tier = run.tier;
    let ro = RenderOpts::new();
    let all_opts: Vec<u8> = (0..16).collect();

    // ---- 1. exhaustive product over the fixed corpus
    let mut corpus = scalarcorpus::tokens();
    // debugging knob (not used by ./check): thin the corpus to every k-th token
    let thin: usize = std::env::var("C06_THIN").ok().and_then(|s| s.parse().ok()).unwrap_or(1);
    if thin > 1 {
        corpus = corpus.into_iter().step_by(thin).collect();
        run.note(format!("C06_THIN={thin}: corpus thinned, run is not the registered workload"));
    }
    run.count("corpus_tokens", corpus.len() as u64);
    for f in [Family::Int, Family::Float, Family::Bool, Family::Null, Family::Char, Family::Str, Family::B64] {
        run.count(&format!("corpus_tokens/{}", f.name()), corpus.iter().filter(|t| t.family == f).count() as u64);
    }
    let quick_styles = [Style::Plain, Style::Double, Style::Literal];
    let quick_tags = [TagC::None, TagC::Str, TagC::Binary, TagC::Int];
    par_range(corpus.len(), |i| {
        let tok = &corpus[i];
        let mut loc = Local::default();
        let mut combo_idx = 0usize;
        for &style in STYLES {
            for &(tagc, tagsrc) in TAGS {
                combo_idx += 1;
                let in_quick = quick_styles.contains(&style) && quick_tags.contains(&tagc);
                // quick: the DESIGN sub-product, plus one rotating other (style, tag) per token so that
                // every combination is visited by some tokens at every run
                let take = tier == Tier::Thorough || in_quick || combo_idx % 45 == i % 45;
                if !take {
                    continue;
                }
                run_combo(&run, &mut loc, tok, style, tagc, tagsrc, POSITIONS, &all_opts, &ro, TARGETS, Nt::Cell);
            }
        }
        if i % 997 == 0 {
            run.sample(|| json!({"part": "corpus", "token": tok.text, "family": tok.family.name()}));
        }
        loc.flush(&run);
    });

    // ---- 2. seeded tokens beyond the corpus
    let n_random = tier.pick(40_000, 700_000);
    par_range(n_random, |i| {
        let mut rng = Rng::stream(run.seed, i as u64);
        let tok = scalarcorpus::random_token(&mut rng);
        let mut loc = Local::default();
        confirm_float_reference(&run, &mut loc, &tok.text);
        run_combo(&run, &mut loc, &tok, Style::Plain, TagC::None, None, POSITIONS, &all_opts, &ro, TARGETS, Nt::Cell);
        let style = *rng.pick(STYLES);
        let (tagc, tagsrc) = *rng.pick(TAGS);
        if !(style == Style::Plain && tagc == TagC::None) {
            run_combo(&run, &mut loc, &tok, style, tagc, tagsrc, &[*rng.pick(POSITIONS)], &all_opts, &ro, TARGETS, Nt::Cell);
        }
        Local::bump(&mut loc.misc, "random_tokens");
        if i % 2999 == 0 {
            run.sample(|| json!({"part": "random", "token": tok.text, "family": tok.family.name()}));
        }
        loc.flush(&run);
    });
    // double-rounding witnesses (seeded): f32 must be rounded once
    let n_dr = tier.pick(400, 4000);
    par_range(n_dr, |i| {
        let mut rng = Rng::stream(run.seed ^ 0xD0B1E, i as u64);
        let mut loc = Local::default();
        for text in scalarcorpus::double_rounding_witnesses(&mut rng, 2) {
            let tok = Token { text, family: Family::Float };
            run_combo(&run, &mut loc, &tok, Style::Plain, TagC::None, None, &[Pos::Root], &[0], &ro, TARGETS, Nt::Cell);
            Local::bump(&mut loc.misc, "double_rounding_witnesses");
        }
        loc.flush(&run);
    });

    // ---- 2b. 64/128-bit boundaries with a separator at every position of every radix form
    let sep_tokens = scalarcorpus::int_separator_tokens();
    run.count("separator_position_tokens", sep_tokens.len() as u64);
    par_range(sep_tokens.len(), |i| {
        let tok = &sep_tokens[i];
        let mut loc = Local::default();
        for style in [Style::Plain, Style::Double] {
            for (tagc, tagsrc) in [(TagC::None, None), (TagC::Int, Some("!!int"))] {
                run_combo(&run, &mut loc, tok, style, tagc, tagsrc, POSITIONS, &all_opts, &ro, TARGETS, Nt::Cell);
            }
        }
        loc.flush(&run);
    });

    // ---- 2c. every short token over {0 1 7 9 f _ x o b + -} as a plain scalar
    let short_len = tier.pick(6usize, 7);
    for len in 1..=short_len {
        let n = SHORT_ALPHABET.len().pow(len as u32);
        par_batched(&run, n, 2048, |mut idx, loc| {
            let mut text = String::with_capacity(len);
            for _ in 0..len {
                text.push(SHORT_ALPHABET[idx % SHORT_ALPHABET.len()]);
                idx /= SHORT_ALPHABET.len();
            }
            let in_grammar = ref_int(&text, false).is_some() || ref_int(&text, true).is_some();
            let tok = Token { text, family: if in_grammar { Family::Int } else { Family::Str } };
            run_combo(&run, loc, &tok, Style::Plain, TagC::None, None, &[Pos::Root], &[0, 2, 4, 6], &ro, SHORT_TARGETS, if in_grammar { Nt::Cell } else { Nt::Never });
            Local::bump(&mut loc.misc, "short_alphabet_tokens");
            if in_grammar {
                Local::bump(&mut loc.misc, "short_alphabet_tokens_with_integer_reading");
            }
        });
    }

    // ---- 2d. very long / extreme float literals; the reference value of every one is first
    //          confirmed with exact big-integer arithmetic (independent of any float parser)
    {
        let mut rng = Rng::stream(run.seed ^ 0xF10A7, 0);
        let long = scalarcorpus::long_float_tokens(&mut rng, tier.pick(400, 4000), tier.pick(200, 3000));
        run.count("long_float_tokens", long.len() as u64);
        par_batched(&run, long.len(), 16, |i, loc| {
            let tok = &long[i];
            if !confirm_float_reference(&run, loc, &tok.text) {
                return;
            }
            run_combo(&run, loc, tok, Style::Plain, TagC::None, None, &[Pos::Root, Pos::Seq], &[0, 2], &ro, FLOAT_TARGETS, Nt::Cell);
            if i % 1013 == 0 {
                run.sample(|| json!({"part": "long-float", "token": tok.text.chars().take(120).collect::<String>(), "length": tok.text.len()}));
            }
        });
    }
    // the float references of the fixed corpus get the same confirmation
    par_batched(&run, corpus.len(), 64, |i, loc| {
        if matches!(corpus[i].family, Family::Float | Family::Int) {
            confirm_float_reference(&run, loc, &corpus[i].text);
        }
    });

    // ---- 2e. every Unicode scalar value as a one-character scalar
    let n_cp = 0x11_0000usize;
    par_batched(&run, n_cp, 512, |cp, loc| {
        let Some(c) = char::from_u32(cp as u32) else { return };
        if tier == Tier::Quick && cp >= 0x1_0000 && cp % 16 != 0 && !char_class_boundary(c) {
            return;
        }
        let tok = Token { text: c.to_string(), family: Family::Char };
        for style in [Style::Double, Style::Single, Style::Plain] {
            run_combo(&run, loc, &tok, style, TagC::None, None, &[Pos::Root], &[0, 2], &ro, CHAR_TARGETS, Nt::Cell);
        }
        Local::bump(&mut loc.misc, "unicode_scalar_values");
        if char_class_boundary(c) {
            // around every change of character class also: two characters (never a char), and the map-key route
            Local::bump(&mut loc.misc, "unicode_class_boundaries");
            let two = Token { text: format!("{c}a"), family: Family::Char };
            run_combo(&run, loc, &two, Style::Double, TagC::None, None, &[Pos::Root, Pos::Key], &[0], &ro, CHAR_TARGETS, Nt::Cell);
            run_combo(&run, loc, &tok, Style::Double, TagC::None, None, &[Pos::Key, Pos::AliasSeq], &[0], &ro, CHAR_TARGETS, Nt::PerPosition);
        }
    });

    // ---- 2f. the same scalars arriving through an alias, a merge, or as a mapping key
    let arrival_opts: Vec<u8> = if tier == Tier::Quick { vec![0, 3, 12, 15] } else { all_opts.clone() };
    par_range(corpus.len(), |i| {
        let tok = &corpus[i];
        let mut loc = Local::default();
        let styles: &[Style] = tier.pick(&[Style::Plain, Style::Double], &[Style::Plain, Style::Double, Style::Literal]);
        let tags: &[(TagC, Option<&str>)] = tier.pick(
            &[(TagC::None, None), (TagC::Str, Some("!!str")), (TagC::Binary, Some("!!binary"))],
            &[(TagC::None, None), (TagC::Str, Some("!!str")), (TagC::Binary, Some("!!binary")), (TagC::Int, Some("!!int")), (TagC::Null, Some("!!null"))],
        );
        for &style in styles {
            for &(tagc, tagsrc) in tags {
                run_combo(&run, &mut loc, tok, style, tagc, tagsrc, ARRIVALS, &arrival_opts, &ro, TARGETS, Nt::PerPosition);
            }
        }
        loc.flush(&run);
    });

    // ---- 2g. enum variant names that look like scalars of every kind
    {
        let mut names: Vec<String> = NAMED_UNITS.iter().map(|(n, _)| n.to_string()).collect();
        names.extend(NAMED_NEWTYPES.iter().map(|(n, _, _)| n.to_string()));
        for extra in ["abd", "Abc", "2", "0x1f", "1_00", "tru", "TRUE", "y", "No", "nul", "1.50", ".Inf", "-0o17", "07", "two", "", "NT", "8", "on"] {
            names.push(extra.to_string());
        }
        let mut loc = Local::default();
        for name in &names {
            for style in [Style::Plain, Style::Single, Style::Double, Style::Literal] {
                for (tagc, tagsrc) in [(TagC::None, None), (TagC::Str, Some("!!str"))] {
                    let tok = Token { text: name.clone(), family: Family::Str };
                    run_combo(&run, &mut loc, &tok, style, tagc, tagsrc, &[Pos::Root, Pos::Seq, Pos::Map, Pos::AliasSeq], &all_opts, &ro, &[T_ENUM], Nt::PerPosition);
                    // {name: payload}
                    if let Some((doc, value)) = build_doc(name, style, tagsrc, Pos::EnumKey, &ro) {
                        let sc = Sc { value: &value, style, tag: tagc };
                        for obits in 0..16u8 {
                            let e = enum_key_expect(&sc, ob(obits));
                            cell(&run, &mut loc, &T_ENUM, &sc, &e, &doc, Pos::EnumKey, obits, obits == 0);
                        }
                        run.nontrivial(fnv_parts(&[value.as_bytes(), style_name(style).as_bytes(), tag_name(tagc).as_bytes(), b"enum-key"]));
                        Local::bump(&mut loc.misc, "enum_key_documents");
                    }
                }
            }
        }
        loc.flush(&run);
    }

    // ---- 3. base64: exhaustive short strings over the 12-symbol alphabet
    let max_len = tier.pick(6usize, 7);
    let k = B64_SWEEP_ALPHABET.len();
    for len in 0..=max_len {
        let n = k.pow(len as u32);
        par_batched(&run, n, 4096, |idx, loc| {
            let s = nth_string(idx, len);
            let cleaned = s.chars().filter(|c| !matches!(c, ' ' | '\n')).count();
            let near = cleaned % 4 == 0;
            b64_cells(&run, loc, &s, Style::Double, near, &ro);
            if s.chars().all(|c| c != '\n') {
                b64_cells(&run, loc, &s, Style::Plain, false, &ro);
            }
            Local::bump(&mut loc.misc, "b64_sweep_strings");
            if idx % 100_003 == 0 {
                run.sample(|| json!({"part": "b64-sweep", "payload": s}));
            }
        });
    }

    // ---- 4. base64: encode -> decode
    par_batched(&run, 65_536 + 256 + 1, 2048, |idx, loc| {
        let bytes: Vec<u8> = if idx == 0 {
            vec![]
        } else if idx <= 256 {
            vec![(idx - 1) as u8]
        } else {
            let v = idx - 257;
            vec![(v >> 8) as u8, v as u8]
        };
        let enc = b64_encode(&bytes);
        let style = if enc.is_empty() { Style::Double } else { Style::Plain };
        b64_cells(&run, loc, &enc, style, true, &ro);
        Local::bump(&mut loc.misc, "b64_roundtrip_arrays_len_le_2");
    });
    let n_b64_random = tier.pick(40_000, 600_000);
    par_range(n_b64_random, |i| {
        let mut rng = Rng::stream(run.seed ^ 0xB64, i as u64);
        let len = if rng.chance(1, 8) { rng.range(3, 400) } else { rng.range(3, 48) };
        let bytes: Vec<u8> = if rng.bool() {
            (0..len).map(|_| rng.next_u64() as u8).collect()
        } else {
            // valid UTF-8 so that the String target decodes too
            let pool = ['a', 'z', '0', ' ', 'é', '日', '😀', '\n', '~'];
            let mut s = String::new();
            while s.len() < len {
                s.push(*rng.pick(&pool));
            }
            s.into_bytes()
        };
        let mut enc = b64_encode(&bytes);
        if rng.chance(1, 3) {
            // one edit: the reference decides whether the result is still canonical
            let cs: Vec<char> = enc.chars().collect();
            let pos = if rng.bool() { cs.len() - 1 - rng.below(cs.len().min(4)) } else { rng.below(cs.len()) };
            let mut n = cs.clone();
            let c = *rng.pick(&['A', 'B', 'Q', 'g', 'w', '/', '+', '=', '-', '_', '9']);
            match rng.below(3) {
                0 => n[pos] = c,
                1 => n.insert(pos, c),
                _ => {
                    n.remove(pos);
                }
            }
            enc = n.into_iter().collect();
            if enc.is_empty() {
                return;
            }
        }
        let (payload, style) = decorate_b64(&mut rng, &enc);
        let mut loc = Local::default();
        b64_cells(&run, &mut loc, &payload, style, true, &ro);
        Local::bump(&mut loc.misc, "b64_random_payloads");
        if i % 4999 == 0 {
            run.sample(|| json!({"part": "b64-random", "payload": payload, "style": style_name(style)}));
        }
        loc.flush(&run);
    });

    flush_report_totals(&run);
    let styles_scope = if tier == Tier::Quick {
        "{plain, double, literal(strip)} x {no tag, !!str, !!binary, !!int} (plus, per token, one rotating other (style, tag) pair out of the full 5 x 9)"
    } else {
        "{plain, double, single, literal(strip), folded(clip)} x {no tag, !!str, !!binary, !!int, !!float, !!bool, !!null, !, !custom}"
    };
    let arrival_scope = if tier == Tier::Quick {
        "{plain, double} x {no tag, !!str, !!binary} x option vectors {0000, 0011, 1100, 1111}"
    } else {
        "{plain, double, literal} x {no tag, !!str, !!binary, !!int, !!null} x all 16 option vectors"
    };
    let scope = format!(
        "(1) every token of the fixed corpus ({} tokens: every width boundary -2..+1 for 8/16/32/64/128 bits signed and unsigned and magnitudes >= 2^128, in radix 10/16/8/2 and legacy-octal spelling, x sign none/+/- x 11 decorations (separators, leading zeros, prefix and digit case); all casings of y/n/yes/no/on/off/true/false/null; float forms; char and string edge cases; base64 payloads) x {styles_scope} x positions {{root, sequence item, mapping value}} x {} targets x all 16 option vectors (strict_booleans, no_schema, legacy_octal_numbers, ignore_binary_tag_for_string); \
         (2) the same corpus arriving through an alias in a sequence, an alias as a mapping value, a merged mapping value, and as a mapping KEY of each of the {} target types: {arrival_scope}; \
         (3) {} tokens = the 64- and 128-bit boundaries (max-1, max, max+1 signed; max, max+1 unsigned) in decimal/0x/0o/0b/legacy-octal with one `_` at every position of the digit string and two `_` at every position pair (offset 2) of the forms up to 44 digits, sign none/-, x {{plain, double}} x {{no tag, !!int}} x 3 positions x {} targets x 16 option vectors; \
         (4) every string of length 1..={short_len} over the 11 symbols 0 1 7 9 f _ x o b + - as a plain root scalar into i8/u8/i64/u64/i128/u128/f64/String/untyped x option vectors {{default, no_schema, legacy_octal_numbers, both}}; \
         (5) {} Unicode scalar values as a one-character scalar, double-quoted / single-quoted / plain (where the raw parser confirms the rendering), into char / String / deserialize_str / untyped with and without no_schema; at every change of std character class and every plane edge additionally the two-character string, the mapping-key route and the alias route; \
         (6) ten mantissas x every decimal exponent -400..=400 as f32/f64/Option<f64>/untyped/String; \
         (7) enum variant names looking like int/hex/separated/bool/null/~/float/.inf/negative-octal/leading-zero/spaced scalars (14 unit, 3 newtype variants + 19 near-miss names) x {{plain, single, double, literal}} x {{no tag, !!str}} x {{root, seq item, map value, alias, key of {{name: payload}}}} x 16 option vectors; \
         (8) every string of length <= {max_len} over the 12 symbols A B / + = Z a 0 SP LF ? - as a !!binary payload (double-quoted, and plain where the raw parser confirms it) into Bytes / Vec<u8> / String / Val; (9) base64 encodings of all byte arrays of length <= 2",
        corpus.len(),
        TARGETS.len(),
        TARGETS.len(),
        sep_tokens.len(),
        TARGETS.len(),
        if tier == Tier::Quick { "all 63 488 BMP and every 16th supplementary-plane (plus every class-boundary)" } else { "all 1 112 064" },
    );
    let fin = Finish::new(
        "a cell (scalar value, style, tag, target) is non-trivial when the token's corpus family is in, or one edit away from, the grammar of the requested target (int tokens for integer targets, int+float tokens for float targets, bool tokens for bool, single/near-single characters for char, base64-like payloads for bytes, null-likes additionally for Option<_>, every token for String / deserialize_str / untyped); distinct by hash(value, style, tag, target) - each such cell is additionally executed at up to 3 positions x 16 option vectors (counter nontrivial_cells_executed); arrival families (alias / merge / key) are distinct by (.., position) as well; short-alphabet tokens count when they have an integer reading under either legacy_octal setting; base64 sweep strings count (once per payload) when their non-blank length is a multiple of 4; long float literals count after their reference value was confirmed by exact big-integer arithmetic",
    )
    .exhaustive(scope)
    .assume("raw saphyr-parser event stream is the ground truth for the scalar's value, style and tag in every generated document")
    .assume("angle_conversions = false (robotics feature compiled in, switched off)")
    .assume("decimal float reference values come from Rust's str::parse::<f32/f64> on the grammar-checked text; for every corpus, random and long float literal they are cross-checked against an exact big-integer round-to-nearest-even test (vcore::refscalar::decimal_rounds_to) and a disagreement makes the case inconclusive")
    .min_nontrivial(if tier == Tier::Quick { 4_000_000 } else { 25_000_000 });
    run.finish(fin);
}

/// `par_range` over `n` indices in batches of `batch`, each batch with its own
/// `Local` counter set that is flushed once (keeps the shared counter lock cold
/// for very short cases).
fn par_batched<F: Fn(usize, &mut Local) + Sync>(run: &Run, n: usize, batch: usize, f: F) {
    let chunks = n.div_ceil(batch);
    par_range(chunks, |c| {
        let mut loc = Local::default();
        for idx in c * batch..((c + 1) * batch).min(n) {
            f(idx, &mut loc);
        }
        loc.flush(run);
    });
}
