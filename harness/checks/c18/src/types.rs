//! Fixed family of validated types (one copy per validation crate) and the
//! mirror family with every validated field wrapped in `Spanned`.
//!
//! Shape (identical serde view in all three families):
//!   Root  (camelCase): userName: String, maxCount: i64, level: i64, innerCfg: Inner,
//!                      itemList: Vec<Item> (default), optLeaf: Option<Leaf> (default)
//!   Inner (kebab-case): host-name: String, port-no: i64, leaf-node: Leaf
//!   Item  (camelCase): itemName: String, qty: i64, subItems: Vec<Leaf> (default)
//!   Leaf  (no rename): tag: String, weight: i64
//! Constraints: strings length >= 2; ints >= 1 (maxCount 1..=100, level 1..=9).

macro_rules! family {
    ($m:ident, $tr:path, $len2:meta, $min1:meta, $r100:meta, $r9:meta, $dive:meta) => {
        pub mod $m {
            use serde::{Deserialize, Serialize};
            #[allow(unused_imports)]
            use $tr;

            #[derive(Debug, Clone, PartialEq, Deserialize, Serialize, Validate)]
            pub struct Leaf {
                #[$len2]
                pub tag: String,
                #[$min1]
                pub weight: i64,
            }

            #[derive(Debug, Clone, PartialEq, Deserialize, Serialize, Validate)]
            #[serde(rename_all = "kebab-case")]
            pub struct Inner {
                #[$len2]
                pub host_name: String,
                #[$min1]
                pub port_no: i64,
                #[$dive]
                pub leaf_node: Leaf,
            }

            #[derive(Debug, Clone, PartialEq, Deserialize, Serialize, Validate)]
            #[serde(rename_all = "camelCase")]
            pub struct Item {
                #[$len2]
                pub item_name: String,
                #[$min1]
                pub qty: i64,
                #[$dive]
                #[serde(default)]
                pub sub_items: Vec<Leaf>,
            }

            #[derive(Debug, Clone, PartialEq, Deserialize, Serialize, Validate)]
            #[serde(rename_all = "camelCase")]
            pub struct Root {
                #[$len2]
                pub user_name: String,
                #[$r100]
                pub max_count: i64,
                #[$r9]
                pub level: i64,
                #[$dive]
                pub inner_cfg: Inner,
                #[$dive]
                #[serde(default)]
                pub item_list: Vec<Item>,
                #[$dive]
                #[serde(default)]
                pub opt_leaf: Option<Leaf>,
            }
        }
    };
}

family!(
    g,
    garde::Validate,
    garde(length(min = 2)),
    garde(range(min = 1)),
    garde(range(min = 1, max = 100)),
    garde(range(min = 1, max = 9)),
    garde(dive)
);

family!(
    v,
    validator::Validate,
    validate(length(min = 2)),
    validate(range(min = 1)),
    validate(range(min = 1, max = 100)),
    validate(range(min = 1, max = 9)),
    validate(nested)
);

/// Mirror family: same serde shape, validated fields wrapped in `Spanned`.
pub mod m {
    use serde::Deserialize;
    use serde_saphyr::Spanned;

    #[derive(Debug, Deserialize)]
    pub struct Leaf {
        pub tag: Spanned<String>,
        pub weight: Spanned<i64>,
    }

    #[derive(Debug, Deserialize)]
    #[serde(rename_all = "kebab-case")]
    pub struct Inner {
        pub host_name: Spanned<String>,
        pub port_no: Spanned<i64>,
        pub leaf_node: Leaf,
    }

    #[derive(Debug, Deserialize)]
    #[serde(rename_all = "camelCase")]
    pub struct Item {
        pub item_name: Spanned<String>,
        pub qty: Spanned<i64>,
        #[serde(default)]
        pub sub_items: Vec<Leaf>,
    }

    #[derive(Debug, Deserialize)]
    #[serde(rename_all = "camelCase")]
    pub struct Root {
        pub user_name: Spanned<String>,
        pub max_count: Spanned<i64>,
        pub level: Spanned<i64>,
        pub inner_cfg: Inner,
        #[serde(default)]
        pub item_list: Vec<Item>,
        #[serde(default)]
        pub opt_leaf: Option<Leaf>,
    }
}

/// (line, column, char offset, char len); `None` = `Location::UNKNOWN`.
pub type Loc = (u64, u64, u64, u64);

pub fn loc(l: serde_saphyr::Location) -> Option<Loc> {
    if l == serde_saphyr::Location::UNKNOWN || (l.line() == 0 && l.column() == 0) {
        None
    } else {
        Some((l.line(), l.column(), l.span().offset(), l.span().len()))
    }
}

/// Path normalisation used on both sides: ASCII alphanumerics lower-cased,
/// structure characters `.`, `[`, `]` kept, everything else dropped. Makes
/// `inner_cfg.host_name`, `inner_cfg.host-name` and `innerCfg.hostName` equal while
/// keeping nesting and indices exact.
pub fn norm(p: &str) -> String {
    p.chars()
        .filter(|c| c.is_ascii_alphanumeric() || matches!(c, '.' | '[' | ']'))
        .map(|c| c.to_ascii_lowercase())
        .collect()
}

/// Mirror walk: normalised path of every validated leaf -> (referenced, defined).
pub fn mirror_locs(r: &m::Root) -> std::collections::BTreeMap<String, (Option<Loc>, Option<Loc>)> {
    use serde_saphyr::Spanned;
    let mut out = std::collections::BTreeMap::new();
    fn put<T>(o: &mut std::collections::BTreeMap<String, (Option<Loc>, Option<Loc>)>, p: String, s: &Spanned<T>) {
        o.insert(norm(&p), (loc(s.referenced), loc(s.defined)));
    }
    fn leaf(o: &mut std::collections::BTreeMap<String, (Option<Loc>, Option<Loc>)>, p: &str, l: &m::Leaf) {
        put(o, format!("{p}.tag"), &l.tag);
        put(o, format!("{p}.weight"), &l.weight);
    }
    put(&mut out, "user_name".into(), &r.user_name);
    put(&mut out, "max_count".into(), &r.max_count);
    put(&mut out, "level".into(), &r.level);
    put(&mut out, "inner_cfg.host_name".into(), &r.inner_cfg.host_name);
    put(&mut out, "inner_cfg.port_no".into(), &r.inner_cfg.port_no);
    leaf(&mut out, "inner_cfg.leaf_node", &r.inner_cfg.leaf_node);
    for (i, it) in r.item_list.iter().enumerate() {
        put(&mut out, format!("item_list[{i}].item_name"), &it.item_name);
        put(&mut out, format!("item_list[{i}].qty"), &it.qty);
        for (j, l) in it.sub_items.iter().enumerate() {
            leaf(&mut out, &format!("item_list[{i}].sub_items[{j}]"), l);
        }
    }
    if let Some(l) = &r.opt_leaf {
        leaf(&mut out, "opt_leaf", l);
    }
    out
}

/// Map-typed field of validated values (`limits.<key>.tag` / `.weight`), used for the
/// repeated-key documents under `DuplicateKeyPolicy::{LastWins, FirstWins}`.
pub mod gm {
    use garde::Validate;
    use serde::{Deserialize, Serialize};
    #[derive(Debug, Clone, PartialEq, Deserialize, Serialize, Validate)]
    pub struct MapRoot {
        #[garde(length(min = 2))]
        pub name: String,
        #[garde(dive)]
        pub limits: std::collections::BTreeMap<String, super::g::Leaf>,
    }
}

pub mod vm {
    use serde::{Deserialize, Serialize};
    use validator::Validate;
    #[derive(Debug, Clone, PartialEq, Deserialize, Serialize, Validate)]
    pub struct MapRoot {
        #[validate(length(min = 2))]
        pub name: String,
        #[validate(nested)]
        pub limits: std::collections::BTreeMap<String, super::v::Leaf>,
    }
}

pub mod mm {
    use serde::Deserialize;
    use serde_saphyr::Spanned;
    #[derive(Debug, Deserialize)]
    pub struct MapRoot {
        pub name: Spanned<String>,
        pub limits: std::collections::BTreeMap<String, super::m::Leaf>,
    }
}

/// Outside the fixed family (observation only, never a verdict): validated fields inside an
/// enum payload. The path recorder is not carried through `deserialize_enum`.
pub mod ge {
    use garde::Validate;
    use serde::Deserialize;
    #[derive(Debug, Deserialize, Validate)]
    pub enum Shape {
        Circle {
            #[garde(range(min = 1))]
            radius: i64,
        },
        Named(#[garde(length(min = 2))] String),
    }
    #[derive(Debug, Deserialize, Validate)]
    pub struct EnumRoot {
        #[garde(dive)]
        pub shape: Shape,
    }
}
