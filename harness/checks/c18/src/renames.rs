//! Renamed fields under every `rename_all` convention serde offers.
//!
//! Statement: "every reported field path is mapped to the position where that
//! field's value is used"; quantifier: "renamed fields". Validation crates report
//! Rust field names, the recorder sees YAML key spellings; `PathMap::search`
//! bridges them with its ordered fuzzy passes. This family has one struct per
//! convention (snake_case as control, camelCase, PascalCase, kebab-case,
//! SCREAMING_SNAKE_CASE, SCREAMING-KEBAB-CASE, lowercase, UPPERCASE), each with
//! the same six fields chosen to hit the tokeniser's boundaries: `user_id`,
//! `sha256_sum` (digit boundaries), `http_server2`, `a_b_c` (single letters:
//! `aBC` / `ABC` only match at the collapsed pass), `x1`, and the raw identifier
//! `r#type`. YAML key spellings are taken from serde itself (a default value is
//! serialised to learn the keys), so no renaming rule is re-implemented here.

use crate::docgen::Arr;
use crate::oracle::{ChunkReader, Crate, Ctx, Exp, Garde, Locs, Validator, verify_error};
use crate::types::{loc, norm};
use serde_json::{Value as J, json};
use serde_saphyr::Error;
use std::cell::RefCell;
use std::collections::{BTreeMap, BTreeSet};
use vcore::errs::kind;
use vcore::obs::{catch, panic_site};
use vcore::rng::fnv_parts;
use vcore::run::Run;

macro_rules! ren_struct {
    ($name:ident, $conv:literal, [$($der:path),*], $attr:meta, $ty:ty) => {
        #[derive($($der),*)]
        #[serde(rename_all = $conv)]
        pub struct $name {
            #[$attr] pub user_id: $ty,
            #[$attr] pub sha256_sum: $ty,
            #[$attr] pub http_server2: $ty,
            #[$attr] pub a_b_c: $ty,
            #[$attr] pub x1: $ty,
            #[$attr] pub r#type: $ty,
        }
    };
}

macro_rules! ren_family {
    ($m:ident, $tr:path, [$($der:path),*], $attr:meta, $dive:meta, $ty:ty) => {
        pub mod $m {
            #[allow(unused_imports)]
            use $tr;
            ren_struct!(Snake, "snake_case", [$($der),*], $attr, $ty);
            ren_struct!(Camel, "camelCase", [$($der),*], $attr, $ty);
            ren_struct!(Pascal, "PascalCase", [$($der),*], $attr, $ty);
            ren_struct!(Kebab, "kebab-case", [$($der),*], $attr, $ty);
            ren_struct!(ScreamSnake, "SCREAMING_SNAKE_CASE", [$($der),*], $attr, $ty);
            ren_struct!(ScreamKebab, "SCREAMING-KEBAB-CASE", [$($der),*], $attr, $ty);
            ren_struct!(Lower, "lowercase", [$($der),*], $attr, $ty);
            ren_struct!(Upper, "UPPERCASE", [$($der),*], $attr, $ty);
            #[derive($($der),*)]
            pub struct RenRoot {
                #[$dive] pub snake: Snake,
                #[$dive] pub camel: Camel,
                #[$dive] pub pascal: Pascal,
                #[$dive] pub kebab: Kebab,
                #[$dive] pub screamsnake: ScreamSnake,
                #[$dive] pub screamkebab: ScreamKebab,
                #[$dive] pub lower: Lower,
                #[$dive] pub upper: Upper,
            }
        }
    };
}

ren_family!(
    g,
    garde::Validate,
    [Debug, Default, Clone, PartialEq, serde::Deserialize, serde::Serialize, Validate],
    garde(length(min = 2)),
    garde(dive),
    String
);
ren_family!(
    v,
    validator::Validate,
    [Debug, Default, Clone, PartialEq, serde::Deserialize, serde::Serialize, Validate],
    validate(length(min = 2)),
    validate(nested),
    String
);
ren_family!(
    m,
    serde_saphyr::Spanned,
    [Debug, serde::Deserialize],
    allow(dead_code),
    allow(dead_code),
    Spanned<String>
);

pub const STRUCTS: [&str; 8] = ["snake", "camel", "pascal", "kebab", "screamsnake", "screamkebab", "lower", "upper"];
pub const FIELDS: [&str; 6] = ["user_id", "sha256_sum", "http_server2", "a_b_c", "x1", "type"];

/// YAML key spellings per struct, learnt from serde.
pub fn yaml_keys() -> Vec<Vec<String>> {
    let j = serde_json::to_value(g::RenRoot::default()).expect("to_value");
    STRUCTS
        .iter()
        .map(|s| j[*s].as_object().expect("object").keys().cloned().collect::<Vec<String>>())
        .collect()
}

pub struct RenDoc {
    pub text: String,
    pub viol: BTreeSet<String>,
    pub arrivals: BTreeMap<String, Arr>,
    pub intended: J,
}

/// `bad(s, f)`: is field f of struct s violated; `alias(s, f)`: given through a scalar alias;
/// `order`: permutation seed per struct (rotation of the key order).
pub fn build(keys: &[Vec<String>], bad: &dyn Fn(usize, usize) -> bool, alias: &dyn Fn(usize, usize) -> bool, rot: usize, flow: &dyn Fn(usize) -> bool) -> RenDoc {
    let mut text = String::from("defs: [&sv ab, &si x]\n");
    let mut viol = BTreeSet::new();
    let mut arrivals = BTreeMap::new();
    let mut root = serde_json::Map::new();
    // struct order rotated too
    let mut objs: Vec<(usize, String, J)> = Vec::new();
    for si in 0..STRUCTS.len() {
        let s = (si + rot) % STRUCTS.len();
        let mut obj = serde_json::Map::new();
        let mut parts: Vec<String> = Vec::new();
        for fi in 0..FIELDS.len() {
            let f = (fi + rot + s) % FIELDS.len();
            let b = bad(s, f);
            let val = if b { "x" } else { "ab" };
            let tok = if alias(s, f) { (if b { "*si" } else { "*sv" }).to_string() } else { val.to_string() };
            parts.push(format!("{}: {tok}", keys[s][f]));
            let p = norm(&format!("{}.{}", STRUCTS[s], FIELDS[f]));
            if b {
                viol.insert(p.clone());
            }
            arrivals.insert(p, if alias(s, f) { Arr::ScalarAlias } else { Arr::Direct });
        }
        for f in 0..FIELDS.len() {
            obj.insert(keys[s][f].clone(), json!(if bad(s, f) { "x" } else { "ab" }));
        }
        let block = if flow(s) {
            format!("{}: {{{}}}\n", STRUCTS[s], parts.join(", "))
        } else {
            format!("{}:\n{}", STRUCTS[s], parts.iter().map(|p| format!("  {p}\n")).collect::<String>())
        };
        objs.push((s, block, J::Object(obj)));
    }
    for (_, block, _) in &objs {
        text.push_str(block);
    }
    for (s, _, o) in objs {
        root.insert(STRUCTS[s].to_string(), o);
    }
    RenDoc { text, viol, arrivals, intended: J::Object(root) }
}

fn mirror_locs(r: &m::RenRoot) -> Locs {
    let mut out = Locs::new();
    macro_rules! st {
        ($name:literal, $s:expr) => {
            for (f, sp) in [
                ("user_id", &$s.user_id),
                ("sha256_sum", &$s.sha256_sum),
                ("http_server2", &$s.http_server2),
                ("a_b_c", &$s.a_b_c),
                ("x1", &$s.x1),
                ("type", &$s.r#type),
            ] {
                out.insert(norm(&format!("{}.{f}", $name)), (loc(sp.referenced), loc(sp.defined)));
            }
        };
    }
    st!("snake", r.snake);
    st!("camel", r.camel);
    st!("pascal", r.pascal);
    st!("kebab", r.kebab);
    st!("screamsnake", r.screamsnake);
    st!("screamkebab", r.screamkebab);
    st!("lower", r.lower);
    st!("upper", r.upper);
    out
}

fn j1<T: serde::Serialize>(r: Result<T, Error>) -> Result<J, Error> {
    r.map(|x| serde_json::to_value(&x).expect("to_value"))
}

type Call = fn(&str) -> Result<J, Error>;

fn garde_paths(r: &g::RenRoot) -> BTreeSet<String> {
    use garde::Validate;
    match r.validate() {
        Ok(()) => BTreeSet::new(),
        // garde prints a raw identifier as `r#type`
        Err(rep) => rep.iter().map(|(p, _)| norm(&p.to_string().replace("r#", ""))).collect(),
    }
}
fn validator_paths(r: &v::RenRoot) -> BTreeSet<String> {
    use validator::Validate;
    match r.validate() {
        Ok(()) => BTreeSet::new(),
        Err(e) => {
            let mut out = BTreeSet::new();
            for (s, k) in e.errors() {
                if let validator::ValidationErrorsKind::Struct(b) = k {
                    for f in b.errors().keys() {
                        out.insert(norm(&format!("{s}.{}", f.replace("r#", ""))));
                    }
                }
            }
            out
        }
    }
}

fn one<C: Crate>(
    run: &Run,
    d: &RenDoc,
    plain: Result<(J, BTreeSet<String>), Error>,
    entries: &[(&'static str, Call)],
    locs: &Locs,
) {
    let cj = || json!({"kind": "renames", "doc": d.text, "viol": d.viol});
    let cx = Ctx { run, st: RefCell::new(BTreeMap::new()), crate_name: C::NAME, case: &cj, full: true };
    let (pj, verdict) = match plain {
        Ok(x) => x,
        Err(_) => {
            run.inconclusive("model: renames document rejected by plain from_str");
            return;
        }
    };
    if pj != d.intended || verdict != d.viol {
        run.inconclusive("model: renames document: plain value / verdict differs from the intended one");
        return;
    }
    let lines: Vec<&str> = d.text.split('\n').collect();
    let short = lines.iter().all(|l| l.chars().count() <= 60);
    let no_decoys = BTreeMap::new();
    for (name, call) in entries {
        run.eval();
        cx.c("calls/renames");
        match catch(|| call(&d.text)) {
            Err(p) => cx.vio(&format!("C18:panic:{}", panic_site(&p)), name, "", p),
            Ok(Ok(v)) => {
                if !d.viol.is_empty() {
                    cx.vio("C18:expected-validation-error:got-Ok", name, "", format!("violated {:?} but got Ok", d.viol));
                } else if v == pj {
                    cx.c("valid_equals_plain/renames");
                } else {
                    cx.vio("C18:valid-differs-from-plain:value", name, "", format!("validating: {v} | plain: {pj}"));
                }
            }
            Ok(Err(e)) => {
                if d.viol.is_empty() {
                    cx.vio(&format!("C18:valid-differs-from-plain:err-{}", kind(&e)), name, "", e.to_string().lines().next().unwrap_or("").to_string());
                } else {
                    // paths in the report carry `r#type` for the raw identifier: normalise before comparing
                    let x = Exp { viol: &d.viol, locs, decoys: &no_decoys, arrivals: &d.arrivals, doc_lines: &lines, window_check: short };
                    verify_error::<C>(&cx, name, "renames", &e, &x, true);
                    cx.c("validation_errors_checked/renames");
                }
            }
        }
    }
    cx.c("cases/renames");
    if !d.viol.is_empty() {
        run.nontrivial(fnv_parts(&[d.text.as_bytes(), C::NAME.as_bytes(), b"renames"]));
    }
    cx.flush();
}

pub fn check(run: &Run, d: &RenDoc) {
    let mirror = match catch(|| serde_saphyr::from_str::<m::RenRoot>(&d.text)) {
        Ok(Ok(x)) => x,
        _ => {
            run.inconclusive("model: mirror (Spanned) parse failed");
            return;
        }
    };
    let locs = mirror_locs(&mirror);
    if d.viol.iter().any(|p| !matches!(locs.get(p), Some((Some(_), Some(_))))) {
        run.inconclusive("model: mirror parse has no location for a violated leaf");
        return;
    }
    let gp = serde_saphyr::from_str::<g::RenRoot>(&d.text).map(|r| (serde_json::to_value(&r).expect("to_value"), garde_paths(&r)));
    one::<Garde>(
        run,
        d,
        gp,
        &[
            ("from_str_valid", |t| j1(serde_saphyr::from_str_valid::<g::RenRoot>(t))),
            ("from_reader_valid", |t| j1(serde_saphyr::from_reader_valid::<_, g::RenRoot>(ChunkReader::new(t.as_bytes(), 9)))),
        ],
        &locs,
    );
    let vp = serde_saphyr::from_str::<v::RenRoot>(&d.text).map(|r| (serde_json::to_value(&r).expect("to_value"), validator_paths(&r)));
    one::<Validator>(
        run,
        d,
        vp,
        &[
            ("from_str_validate", |t| j1(serde_saphyr::from_str_validate::<v::RenRoot>(t))),
            ("from_reader_validate", |t| j1(serde_saphyr::from_reader_validate::<_, v::RenRoot>(ChunkReader::new(t.as_bytes(), 9)))),
        ],
        &locs,
    );
}
