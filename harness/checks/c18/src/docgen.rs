//! Schema-driven document generator for the C18 type family.
//!
//! The generator produces a `ydoc::Node` tree, the *intended* value (as JSON in
//! the serde view of the family), and for every validated leaf: its path (Rust
//! field names), whether its value violates the field's constraint, and how the
//! value arrives (directly, through a scalar alias, inside an aliased
//! struct/list, through a merge).
//!
//! Two modes: *free* (validity and shape decided on the fly; aliases/merges
//! inherit their value from the anchor) and *forced* (shape and the set of
//! violated leaves are given; aliases/merges are only used where the anchored
//! value has the required validity).

use serde_json::{Map, Value as J};
use std::collections::{BTreeMap, BTreeSet};
use vcore::rng::Rng;
use vcore::ydoc::{self, Node};

#[derive(Clone, Copy, PartialEq, Eq, Debug)]
pub enum SId {
    Leaf,
    Inner,
    Item,
    Root,
}

#[derive(Clone, Copy, PartialEq, Eq, Debug)]
pub enum Con {
    Len2,
    Min1,
    R100,
    R9,
}

#[derive(Clone, Copy, PartialEq, Eq, Debug)]
pub enum Ty {
    Str(Con),
    Int(Con),
    Rec(SId),
    List(SId),
    Opt(SId),
}

pub struct FieldDef {
    pub rust: &'static str,
    pub yaml: &'static str,
    pub ty: Ty,
}

const fn f(rust: &'static str, yaml: &'static str, ty: Ty) -> FieldDef {
    FieldDef { rust, yaml, ty }
}

static LEAF: [FieldDef; 2] = [f("tag", "tag", Ty::Str(Con::Len2)), f("weight", "weight", Ty::Int(Con::Min1))];
static INNER: [FieldDef; 3] = [
    f("host_name", "host-name", Ty::Str(Con::Len2)),
    f("port_no", "port-no", Ty::Int(Con::Min1)),
    f("leaf_node", "leaf-node", Ty::Rec(SId::Leaf)),
];
static ITEM: [FieldDef; 3] = [
    f("item_name", "itemName", Ty::Str(Con::Len2)),
    f("qty", "qty", Ty::Int(Con::Min1)),
    f("sub_items", "subItems", Ty::List(SId::Leaf)),
];
static ROOT: [FieldDef; 6] = [
    f("user_name", "userName", Ty::Str(Con::Len2)),
    f("max_count", "maxCount", Ty::Int(Con::R100)),
    f("level", "level", Ty::Int(Con::R9)),
    f("inner_cfg", "innerCfg", Ty::Rec(SId::Inner)),
    f("item_list", "itemList", Ty::List(SId::Item)),
    f("opt_leaf", "optLeaf", Ty::Opt(SId::Leaf)),
];

pub fn fields(s: SId) -> &'static [FieldDef] {
    match s {
        SId::Leaf => &LEAF,
        SId::Inner => &INNER,
        SId::Item => &ITEM,
        SId::Root => &ROOT,
    }
}

#[derive(Clone, Debug, PartialEq)]
pub enum V {
    S(String),
    I(i64),
    Rec(SId, Vec<V>),
    List(Vec<V>),
    Opt(Option<Box<V>>),
}

impl V {
    pub fn to_json(&self) -> J {
        match self {
            V::S(s) => J::String(s.clone()),
            V::I(i) => J::from(*i),
            V::Rec(s, vs) => {
                let mut m = Map::new();
                for (fd, v) in fields(*s).iter().zip(vs) {
                    m.insert(fd.yaml.to_string(), v.to_json());
                }
                J::Object(m)
            }
            V::List(vs) => J::Array(vs.iter().map(|v| v.to_json()).collect()),
            V::Opt(None) => J::Null,
            V::Opt(Some(b)) => b.to_json(),
        }
    }
}

pub fn valid_for(c: Con, v: &V) -> bool {
    match (c, v) {
        (Con::Len2, V::S(s)) => s.len() >= 2,
        (Con::Min1, V::I(i)) => *i >= 1,
        (Con::R100, V::I(i)) => (1..=100).contains(i),
        (Con::R9, V::I(i)) => (1..=9).contains(i),
        _ => false,
    }
}

pub fn join(path: &str, field: &str) -> String {
    if path.is_empty() { field.to_string() } else { format!("{path}.{field}") }
}

/// Visit every validated scalar leaf under `v` (typed `ty`) at `path`.
pub fn walk_leaves(path: &str, ty: Ty, v: &V, out: &mut dyn FnMut(&str, Con, &V)) {
    match (ty, v) {
        (Ty::Str(c), _) | (Ty::Int(c), _) => out(path, c, v),
        (Ty::Rec(s), V::Rec(_, vs)) => {
            for (fd, x) in fields(s).iter().zip(vs) {
                walk_leaves(&join(path, fd.rust), fd.ty, x, out);
            }
        }
        (Ty::List(s), V::List(vs)) => {
            for (i, x) in vs.iter().enumerate() {
                walk_leaves(&format!("{path}[{i}]"), Ty::Rec(s), x, out);
            }
        }
        (Ty::Opt(s), V::Opt(Some(b))) => walk_leaves(path, Ty::Rec(s), b, out),
        _ => {}
    }
}

#[derive(Clone, Copy, PartialEq, Eq, Debug)]
pub enum Arr {
    Direct,
    ScalarAlias,
    StructAlias,
    ListAlias,
    Merge,
    /// map entry whose key is repeated in the document (surviving occurrence written out)
    RepKeyDirect,
    /// map entry whose key is repeated, surviving occurrence given by an alias
    RepKeyAlias,
}

impl Arr {
    pub fn name(self) -> &'static str {
        match self {
            Arr::Direct => "direct",
            Arr::ScalarAlias => "scalar-alias",
            Arr::StructAlias => "struct-alias",
            Arr::ListAlias => "list-alias",
            Arr::Merge => "merge",
            Arr::RepKeyDirect => "repeated-key-direct",
            Arr::RepKeyAlias => "repeated-key-alias",
        }
    }
    pub fn from_name(s: &str) -> Arr {
        match s {
            "scalar-alias" => Arr::ScalarAlias,
            "struct-alias" => Arr::StructAlias,
            "list-alias" => Arr::ListAlias,
            "merge" => Arr::Merge,
            "repeated-key-direct" => Arr::RepKeyDirect,
            "repeated-key-alias" => Arr::RepKeyAlias,
            _ => Arr::Direct,
        }
    }
}

/// Shape + violated set for forced mode. `counts`: list path -> length, option path -> 0/1.
#[derive(Clone, Debug, Default)]
pub struct Forced {
    pub viol: BTreeSet<String>,
    pub counts: BTreeMap<String, usize>,
}

#[derive(Clone, Copy, PartialEq, Eq, Debug)]
pub enum Kit {
    None,
    /// four anchored scalars: valid/invalid string, valid/invalid int (for every constraint)
    Scalars,
    /// complete valid records of every struct kind (+ partial item without subItems)
    ValidRecs,
    /// complete records whose leaves are all invalid
    InvalidRecs,
    /// like ValidRecs / InvalidRecs, but every scalar inside the records is itself an alias to an
    /// anchored scalar (alias inside a merge source)
    ValidRecsAliased,
    InvalidRecsAliased,
    /// complete records for every validity pattern of Leaf (4), Inner (16, leaf-node through an
    /// alias to the Leaf record), Item without subItems (4) and Item with one sub-item (16)
    AllCombos,
    /// random collection
    Random,
}

/// Probabilities are out of 8.
#[derive(Clone, Copy, Debug)]
pub struct Params {
    pub p_salias: usize,
    pub p_ralias: usize,
    pub p_merge: usize,
    pub p_anchor: usize,
    pub p_flow: usize,
    pub p_invalid: usize,
    pub p_decoy: usize,
    pub shuffle: bool,
    pub kit: Kit,
    /// free mode: lists up to 5 items / 3 sub-items instead of 3 / 2
    pub big: bool,
}

impl Params {
    pub const DIRECT: Params = Params {
        p_salias: 0,
        p_ralias: 0,
        p_merge: 0,
        p_anchor: 0,
        p_flow: 0,
        p_invalid: 2,
        p_decoy: 0,
        shuffle: false,
        kit: Kit::None,
        big: false,
    };
}

#[derive(Clone, Debug)]
enum AV {
    Sc(V),
    /// keys actually written in the anchored mapping (what a merge can take from it), and the
    /// complete effective value (defaults filled in) when the mapping can stand for the struct
    Rec(SId, Vec<Option<V>>, Option<Vec<V>>),
    List(SId, Vec<V>),
}

pub struct Leaf {
    pub path: String,
    pub valid: bool,
    pub arr: Arr,
}

pub struct GenDoc {
    pub node: Node,
    pub intended: J,
    pub leaves: Vec<Leaf>,
    /// (leaf path, class) — class in {"tie","late","early","direct"}
    pub decoys: Vec<(String, &'static str)>,
}

const STR_VALID: &[&str] = &["ab", "host1", "two words", "x-y", "long-enough-name", "zz9"];
const STR_INVALID: &[&str] = &["x", "", "q", "Z"];
const INTS: &[i64] = &[-3, 0, 1, 5, 9, 10, 50, 100, 101, 1000];

fn decoy_table(yaml: &str) -> &'static [(&'static str, &'static str)] {
    match yaml {
        "userName" => &[("user-name", "tie"), ("UserName", "tie"), ("username", "late"), ("USER_NAME", "early"), ("user_name", "early")],
        "maxCount" => &[("max-count", "tie"), ("maxcount", "late"), ("max_count", "early")],
        "host-name" => &[("hostName", "tie"), ("HOST-NAME", "tie"), ("hostname", "late"), ("host_name", "early")],
        "port-no" => &[("portNo", "tie"), ("portno", "late"), ("port_no", "early")],
        "itemName" => &[("item-name", "tie"), ("itemname", "late"), ("item_name", "early")],
        "tag" => &[("TAG", "direct"), ("Tag", "direct")],
        "weight" => &[("WEIGHT", "direct")],
        "qty" => &[("QTY", "direct"), ("Qty", "direct")],
        "level" => &[("Level", "direct")],
        _ => &[],
    }
}

pub struct Gen<'a> {
    rng: &'a mut Rng,
    pr: Params,
    forced: Option<&'a Forced>,
    anchors: Vec<(String, AV)>,
    arrivals: BTreeMap<String, Arr>,
    decoys: Vec<(String, &'static str)>,
}

impl<'a> Gen<'a> {
    pub fn new(rng: &'a mut Rng, pr: Params, forced: Option<&'a Forced>) -> Self {
        Gen { rng, pr, forced, anchors: Vec::new(), arrivals: BTreeMap::new(), decoys: Vec::new() }
    }

    fn ch(&mut self, p: usize) -> bool {
        p > 0 && self.rng.below(8) < p
    }

    fn fresh(&mut self) -> String {
        format!("a{}", self.anchors.len())
    }

    fn ok_scalar(&self, path: &str, c: Con, v: &V) -> bool {
        match self.forced {
            None => true,
            Some(fc) => fc.viol.contains(path) != valid_for(c, v),
        }
    }

    fn compat(&self, path: &str, ty: Ty, v: &V) -> bool {
        let Some(fc) = self.forced else { return true };
        match (ty, v) {
            (Ty::Str(c), _) | (Ty::Int(c), _) => self.ok_scalar(path, c, v),
            (Ty::Rec(s), V::Rec(_, vs)) => {
                fields(s).iter().zip(vs).all(|(fd, x)| self.compat(&join(path, fd.rust), fd.ty, x))
            }
            (Ty::List(s), V::List(vs)) => {
                fc.counts.get(path).copied().unwrap_or(0) == vs.len()
                    && vs.iter().enumerate().all(|(i, x)| self.compat(&format!("{path}[{i}]"), Ty::Rec(s), x))
            }
            (Ty::Opt(s), V::Opt(o)) => {
                let want = fc.counts.get(path).copied().unwrap_or(0) == 1;
                match o {
                    None => !want,
                    Some(b) => want && self.compat(path, Ty::Rec(s), b),
                }
            }
            _ => false,
        }
    }

    fn mark(&mut self, path: &str, ty: Ty, v: &V, arr: Arr) {
        let mut ps = Vec::new();
        walk_leaves(path, ty, v, &mut |p, _, _| ps.push(p.to_string()));
        for p in ps {
            self.arrivals.insert(p, arr);
        }
    }

    fn scalar_node(&mut self, v: &V) -> Node {
        match v {
            V::I(i) => Node::plain(&i.to_string()),
            V::S(s) => {
                if ydoc::plain_safe(s) && self.rng.chance(1, 2) {
                    Node::plain(s)
                } else if self.rng.bool() {
                    Node::dq(s)
                } else {
                    Node::sq(s)
                }
            }
            _ => unreachable!(),
        }
    }

    fn gen_scalar(&mut self, path: &str, ty: Ty, force_anchor: bool) -> (Node, V) {
        let (c, is_str) = match ty {
            Ty::Str(c) => (c, true),
            Ty::Int(c) => (c, false),
            _ => unreachable!(),
        };
        if self.pr.p_salias > 0 && !force_anchor {
            let cands: Vec<usize> = self
                .anchors
                .iter()
                .enumerate()
                .filter(|(_, (_, av))| match av {
                    AV::Sc(v) => matches!(v, V::S(_)) == is_str && self.ok_scalar(path, c, v),
                    _ => false,
                })
                .map(|(i, _)| i)
                .collect();
            if !cands.is_empty() && self.ch(self.pr.p_salias) {
                let i = *self.rng.pick(&cands);
                let (name, av) = self.anchors[i].clone();
                let AV::Sc(v) = av else { unreachable!() };
                self.arrivals.insert(path.to_string(), Arr::ScalarAlias);
                return (Node::alias(&name), v);
            }
        }
        let want_valid = match self.forced {
            Some(fc) => !fc.viol.contains(path),
            None => !self.ch(self.pr.p_invalid),
        };
        let v = if is_str {
            let pool = if want_valid { STR_VALID } else { STR_INVALID };
            V::S((*self.rng.pick(pool)).to_string())
        } else {
            let pool: Vec<i64> = INTS.iter().copied().filter(|i| valid_for(c, &V::I(*i)) == want_valid).collect();
            V::I(*self.rng.pick(&pool))
        };
        let mut node = self.scalar_node(&v);
        if force_anchor || self.ch(self.pr.p_anchor) {
            let name = self.fresh();
            node = node.with_anchor(&name);
            self.anchors.push((name, AV::Sc(v.clone())));
        }
        self.arrivals.insert(path.to_string(), Arr::Direct);
        (node, v)
    }

    fn maybe_decoy(&mut self, entries: &mut Vec<(Node, Node)>, sid: SId, path: &str) {
        if !self.ch(self.pr.p_decoy) {
            return;
        }
        let scalars: Vec<&FieldDef> = fields(sid).iter().filter(|fd| matches!(fd.ty, Ty::Str(_) | Ty::Int(_))).collect();
        let fd = *self.rng.pick(&scalars);
        let table = decoy_table(fd.yaml);
        if table.is_empty() {
            return;
        }
        let (key, mut class) = *self.rng.pick(table);
        // Below the root every ancestor key is renamed (innerCfg, itemList, leaf-node, ...), so
        // neither the exact nor the case-insensitive whole-path pass can match: the real key and
        // the decoy then meet at the tokenised pass -> tie.
        if !path.is_empty() && matches!(class, "early" | "direct") {
            class = "tie";
        }
        let val = if matches!(fd.ty, Ty::Str(_)) { Node::plain("zz") } else { Node::plain("7") };
        let pos = self.rng.below(entries.len() + 1);
        entries.insert(pos, (Node::plain(key), val));
        self.decoys.push((join(path, fd.rust), class));
    }

    fn finish_map(&mut self, entries: Vec<(Node, Node)>, sid: SId, vals: &[V], written: &[bool], anchor: u8) -> Node {
        // anchor: 0 never, 1 maybe, 2 always
        let mut node = Node::map(entries);
        if self.ch(self.pr.p_flow) {
            node.set_flow(true);
        }
        if anchor == 2 || (anchor == 1 && self.ch(self.pr.p_anchor)) {
            let name = self.fresh();
            node = node.with_anchor(&name);
            let keys = vals.iter().zip(written).map(|(v, w)| w.then(|| v.clone())).collect();
            self.anchors.push((name, AV::Rec(sid, keys, Some(vals.to_vec()))));
        }
        node
    }

    fn order(&mut self, n: usize) -> Vec<usize> {
        let mut o: Vec<usize> = (0..n).collect();
        if self.pr.shuffle {
            self.rng.shuffle(&mut o);
        }
        o
    }

    /// anchor: 0 never, 1 maybe, 2 always (only applies when the record is written out).
    fn gen_rec(&mut self, sid: SId, path: &str, anchor: u8) -> (Node, V) {
        let fds = fields(sid);
        if anchor != 2 && sid != SId::Root && (self.pr.p_ralias > 0 || self.pr.p_merge > 0) {
            let r = self.rng.below(8);
            if r < self.pr.p_ralias {
                let cands: Vec<usize> = self
                    .anchors
                    .iter()
                    .enumerate()
                    .filter(|(_, (_, av))| match av {
                        AV::Rec(s, _, Some(full)) if *s == sid => self.compat(path, Ty::Rec(sid), &V::Rec(sid, full.clone())),
                        _ => false,
                    })
                    .map(|(i, _)| i)
                    .collect();
                if !cands.is_empty() {
                    let i = *self.rng.pick(&cands);
                    let (name, av) = self.anchors[i].clone();
                    let AV::Rec(_, _, Some(full)) = av else { unreachable!() };
                    let v = V::Rec(sid, full);
                    self.mark(path, Ty::Rec(sid), &v, Arr::StructAlias);
                    return (Node::alias(&name), v);
                }
            } else if r < self.pr.p_ralias + self.pr.p_merge {
                let cands: Vec<usize> = self
                    .anchors
                    .iter()
                    .enumerate()
                    .filter(|(_, (_, av))| matches!(av, AV::Rec(s, _, _) if *s == sid))
                    .map(|(i, _)| i)
                    .collect();
                if !cands.is_empty() {
                    return self.gen_merge(sid, path, &cands, anchor);
                }
            }
        }
        // direct
        let mut vals: Vec<Option<V>> = vec![None; fds.len()];
        let mut written = vec![false; fds.len()];
        let mut entries = Vec::new();
        for i in self.order(fds.len()) {
            let fd = &fds[i];
            let (n, v) = self.gen_field(fd, &join(path, fd.rust), false);
            if let Some(n) = n {
                entries.push((Node::plain(fd.yaml), n));
                written[i] = true;
            }
            vals[i] = Some(v);
        }
        self.maybe_decoy(&mut entries, sid, path);
        let vals: Vec<V> = vals.into_iter().map(|x| x.unwrap()).collect();
        let node = self.finish_map(entries, sid, &vals, &written, anchor);
        (node, V::Rec(sid, vals))
    }

    fn gen_merge(&mut self, sid: SId, path: &str, cands: &[usize], anchor: u8) -> (Node, V) {
        let fds = fields(sid);
        let mut srcs = vec![*self.rng.pick(cands)];
        if cands.len() >= 2 && self.rng.chance(1, 3) {
            let j = *self.rng.pick(cands);
            if j != srcs[0] {
                srcs.push(j);
            }
        }
        let src_vals: Vec<(String, Vec<Option<V>>)> = srcs
            .iter()
            .map(|&i| {
                let (n, av) = self.anchors[i].clone();
                let AV::Rec(_, vs, _) = av else { unreachable!() };
                (n, vs)
            })
            .collect();
        let mut vals: Vec<Option<V>> = vec![None; fds.len()];
        let mut entries = Vec::new();
        for i in self.order(fds.len()) {
            let fd = &fds[i];
            let fpath = join(path, fd.rust);
            // properties.jsonl C03: "a later element of a merge sequence overrides an earlier one"
            let merged: Option<V> = src_vals.iter().rev().find_map(|(_, vs)| vs[i].clone());
            let explicit = match &merged {
                None => true,
                Some(v) => !self.compat(&fpath, fd.ty, v) || self.rng.chance(1, 3),
            };
            if explicit {
                let (n, v) = self.gen_field(fd, &fpath, true);
                entries.push((Node::plain(fd.yaml), n.expect("must_write")));
                vals[i] = Some(v);
            } else {
                let v = merged.unwrap();
                self.mark(&fpath, fd.ty, &v, Arr::Merge);
                vals[i] = Some(v);
            }
        }
        let mval = if src_vals.len() == 1 {
            Node::alias(&src_vals[0].0)
        } else {
            Node::fseq(src_vals.iter().map(|(n, _)| Node::alias(n)).collect())
        };
        let pos = self.rng.below(entries.len() + 1);
        entries.insert(pos, (Node::plain("<<"), mval));
        self.maybe_decoy(&mut entries, sid, path);
        let vals: Vec<V> = vals.into_iter().map(|x| x.unwrap()).collect();
        // every field is either written explicitly or present in a merge source
        let written = vec![true; fds.len()];
        let node = self.finish_map(entries, sid, &vals, &written, anchor);
        (node, V::Rec(sid, vals))
    }

    fn gen_field(&mut self, fd: &FieldDef, path: &str, must_write: bool) -> (Option<Node>, V) {
        match fd.ty {
            Ty::Str(_) | Ty::Int(_) => {
                let (n, v) = self.gen_scalar(path, fd.ty, false);
                (Some(n), v)
            }
            Ty::Rec(s) => {
                let (n, v) = self.gen_rec(s, path, 1);
                (Some(n), v)
            }
            Ty::List(s) => {
                let (n, v) = self.gen_list(s, path, must_write, 1);
                (n, v)
            }
            Ty::Opt(s) => {
                let present = match self.forced {
                    Some(fc) => fc.counts.get(path).copied().unwrap_or(0) == 1,
                    None => self.rng.bool(),
                };
                if !present {
                    if !must_write && self.rng.bool() {
                        (None, V::Opt(None))
                    } else {
                        (Some(Node::plain("~")), V::Opt(None))
                    }
                } else {
                    let (n, v) = self.gen_rec(s, path, 1);
                    (Some(n), V::Opt(Some(Box::new(v))))
                }
            }
        }
    }

    fn gen_list(&mut self, s: SId, path: &str, must_write: bool, anchor: u8) -> (Option<Node>, V) {
        if self.pr.p_ralias > 0 && anchor != 2 {
            let cands: Vec<usize> = self
                .anchors
                .iter()
                .enumerate()
                .filter(|(_, (_, av))| match av {
                    AV::List(s2, vs) if *s2 == s => self.compat(path, Ty::List(s), &V::List(vs.clone())),
                    _ => false,
                })
                .map(|(i, _)| i)
                .collect();
            if !cands.is_empty() && self.ch(self.pr.p_ralias) {
                let i = *self.rng.pick(&cands);
                let (name, av) = self.anchors[i].clone();
                let AV::List(_, vs) = av else { unreachable!() };
                let v = V::List(vs);
                self.mark(path, Ty::List(s), &v, Arr::ListAlias);
                return (Some(Node::alias(&name)), v);
            }
        }
        let n = match self.forced {
            Some(fc) => fc.counts.get(path).copied().unwrap_or(0),
            None => {
                let extra = if self.pr.big { 2 } else { 0 };
                if s == SId::Item {
                    self.rng.below(4 + extra)
                } else {
                    self.rng.below(3 + extra / 2)
                }
            }
        };
        if n == 0 && !must_write && anchor != 2 && self.rng.bool() {
            return (None, V::List(vec![]));
        }
        let mut items = Vec::new();
        let mut vals = Vec::new();
        for i in 0..n {
            let (nd, v) = self.gen_rec(s, &format!("{path}[{i}]"), 1);
            items.push(nd);
            vals.push(v);
        }
        let mut node = Node::seq(items);
        if self.ch(self.pr.p_flow) {
            node.set_flow(true);
        }
        if anchor == 2 || (anchor == 1 && n > 0 && self.ch(self.pr.p_anchor)) {
            let name = self.fresh();
            node = node.with_anchor(&name);
            self.anchors.push((name, AV::List(s, vals.clone())));
        }
        (Some(node), V::List(vals))
    }

    /// `defs:` block — an unknown key of Root whose value only serves to define anchors.
    fn gen_defs(&mut self) -> Option<Node> {
        let saved_forced = self.forced.take();
        let saved = self.pr;
        self.pr.p_decoy = 0;
        let mut entries: Vec<(Node, Node)> = Vec::new();
        let mut k = 0usize;
        let key = |k: &mut usize| {
            *k += 1;
            Node::plain(&format!("d{}", *k))
        };
        match saved.kit {
            Kit::None => {}
            Kit::Scalars => {
                for (v, name) in [
                    (V::S("ab".into()), "sv"),
                    (V::S("x".into()), "si"),
                    (V::I(5), "nv"),
                    (V::I(0), "ni"),
                ] {
                    let n = match &v {
                        V::S(s) => Node::plain(s),
                        V::I(i) => Node::plain(&i.to_string()),
                        _ => unreachable!(),
                    };
                    entries.push((key(&mut k), n.with_anchor(name)));
                    self.anchors.push((name.to_string(), AV::Sc(v)));
                }
            }
            Kit::AllCombos => {
                let sv = |ok: bool| V::S((if ok { "ab" } else { "x" }).to_string());
                let iv = |ok: bool| V::I(if ok { 5 } else { 0 });
                let sn = |v: &V| match v {
                    V::S(t) => Node::plain(t),
                    V::I(i) => Node::plain(&i.to_string()),
                    _ => unreachable!(),
                };
                let b = |x: usize, i: usize| x >> i & 1 == 1;
                let mut leafs = Vec::new();
                for c in 0..4 {
                    let (t, w) = (sv(b(c, 0)), iv(b(c, 1)));
                    let name = format!("l{c}");
                    let n = Node::fmap(vec![(Node::plain("tag"), sn(&t)), (Node::plain("weight"), sn(&w))]).with_anchor(&name);
                    entries.push((key(&mut k), n));
                    self.anchors.push((name, AV::Rec(SId::Leaf, vec![Some(t.clone()), Some(w.clone())], Some(vec![t.clone(), w.clone()]))));
                    leafs.push(V::Rec(SId::Leaf, vec![t, w]));
                }
                for c in 0..16 {
                    let (h, p, lf) = (sv(b(c, 0)), iv(b(c, 1)), c >> 2);
                    let name = format!("i{c}");
                    let n = Node::fmap(vec![
                        (Node::plain("host-name"), sn(&h)),
                        (Node::plain("port-no"), sn(&p)),
                        (Node::plain("leaf-node"), Node::alias(&format!("l{lf}"))),
                    ])
                    .with_anchor(&name);
                    entries.push((key(&mut k), n));
                    let vals = vec![h, p, leafs[lf].clone()];
                    self.anchors.push((name, AV::Rec(SId::Inner, vals.iter().cloned().map(Some).collect(), Some(vals))));
                }
                for c in 0..4 {
                    let (nm, q) = (sv(b(c, 0)), iv(b(c, 1)));
                    let name = format!("t{c}");
                    let n = Node::fmap(vec![(Node::plain("itemName"), sn(&nm)), (Node::plain("qty"), sn(&q))]).with_anchor(&name);
                    entries.push((key(&mut k), n));
                    self.anchors.push((name, AV::Rec(SId::Item, vec![Some(nm.clone()), Some(q.clone()), None], Some(vec![nm, q, V::List(vec![])]))));
                }
                for c in 0..16 {
                    let (nm, q, lf) = (sv(b(c, 0)), iv(b(c, 1)), c >> 2);
                    let name = format!("u{c}");
                    let n = Node::fmap(vec![
                        (Node::plain("itemName"), sn(&nm)),
                        (Node::plain("qty"), sn(&q)),
                        (Node::plain("subItems"), Node::fseq(vec![Node::alias(&format!("l{lf}"))])),
                    ])
                    .with_anchor(&name);
                    entries.push((key(&mut k), n));
                    let vals = vec![nm, q, V::List(vec![leafs[lf].clone()])];
                    self.anchors.push((name, AV::Rec(SId::Item, vals.iter().cloned().map(Some).collect(), Some(vals))));
                }
            }
            Kit::ValidRecs | Kit::InvalidRecs | Kit::ValidRecsAliased | Kit::InvalidRecsAliased => {
                let ok = matches!(saved.kit, Kit::ValidRecs | Kit::ValidRecsAliased);
                let aliased = matches!(saved.kit, Kit::ValidRecsAliased | Kit::InvalidRecsAliased);
                let s = |t: &str| V::S(t.to_string());
                let (sv, iv) = if ok { (s("ab"), V::I(5)) } else { (s("x"), V::I(0)) };
                if aliased {
                    let t = if ok { "ab" } else { "x" };
                    let i = if ok { "5" } else { "0" };
                    entries.push((key(&mut k), Node::plain(t).with_anchor("ks")));
                    entries.push((key(&mut k), Node::plain(i).with_anchor("kn")));
                }
                let sn = |v: &V| match v {
                    V::S(_) if aliased => Node::alias("ks"),
                    V::I(_) if aliased => Node::alias("kn"),
                    V::S(t) => Node::plain(t),
                    V::I(i) => Node::plain(&i.to_string()),
                    _ => unreachable!(),
                };
                // leaf
                let leaf_node = Node::fmap(vec![(Node::plain("tag"), sn(&sv)), (Node::plain("weight"), sn(&iv))]).with_anchor("kl");
                entries.push((key(&mut k), leaf_node));
                let leaf_v = V::Rec(SId::Leaf, vec![sv.clone(), iv.clone()]);
                self.anchors.push(("kl".into(), AV::Rec(SId::Leaf, vec![Some(sv.clone()), Some(iv.clone())], Some(vec![sv.clone(), iv.clone()]))));
                // inner (block, leaf-node through alias)
                let inner_node = Node::map(vec![
                    (Node::plain("host-name"), sn(&sv)),
                    (Node::plain("port-no"), sn(&iv)),
                    (Node::plain("leaf-node"), Node::alias("kl")),
                ])
                .with_anchor("ki");
                entries.push((key(&mut k), inner_node));
                self.anchors.push(("ki".into(), AV::Rec(SId::Inner, vec![Some(sv.clone()), Some(iv.clone()), Some(leaf_v.clone())], Some(vec![sv.clone(), iv.clone(), leaf_v]))));
                // partial item (no subItems)
                let item_node = Node::fmap(vec![(Node::plain("itemName"), sn(&sv)), (Node::plain("qty"), sn(&iv))]).with_anchor("kt");
                entries.push((key(&mut k), item_node));
                self.anchors.push(("kt".into(), AV::Rec(SId::Item, vec![Some(sv), Some(iv), None], None)));
            }
            Kit::Random => {
                let n = self.rng.range(1, 6);
                let keep = self.pr;
                for _ in 0..n {
                    let path = format!("defs.d{}", k + 1);
                    let kind = self.rng.below(8);
                    let node = match kind {
                        0 | 1 => self.gen_scalar(&path, Ty::Str(Con::Len2), true).0,
                        2 => self.gen_scalar(&path, Ty::Int(Con::R9), true).0,
                        3 => self.gen_rec(SId::Leaf, &path, 2).0,
                        4 => {
                            // partial leaf
                            let which = self.rng.below(2);
                            let fd = &fields(SId::Leaf)[which];
                            let (n, v) = self.gen_scalar(&join(&path, fd.rust), fd.ty, false);
                            let name = self.fresh();
                            let mut vs = vec![None, None];
                            vs[which] = Some(v);
                            self.anchors.push((name.clone(), AV::Rec(SId::Leaf, vs, None)));
                            let mut m = Node::map(vec![(Node::plain(fd.yaml), n)]);
                            if self.rng.bool() {
                                m.set_flow(true);
                            }
                            m.with_anchor(&name)
                        }
                        5 => self.gen_rec(SId::Item, &path, 2).0,
                        6 => self.gen_rec(SId::Inner, &path, 2).0,
                        _ => self.gen_list(SId::Leaf, &path, true, 2).0.unwrap(),
                    };
                    self.pr = keep;
                    entries.push((key(&mut k), node));
                }
            }
        }
        self.forced = saved_forced;
        self.pr = saved;
        if entries.is_empty() { None } else { Some(Node::map(entries)) }
    }

    pub fn gen_root(mut self) -> GenDoc {
        let defs = self.gen_defs();
        let (mut node, v) = self.gen_rec(SId::Root, "", 0);
        if let Some(d) = defs
            && let Node::Map { entries, .. } = &mut node
        {
            entries.insert(0, (Node::plain("defs"), d));
        }
        // root stays block even if finish_map made it flow: keep children as they are
        if let Node::Map { flow, .. } = &mut node {
            *flow = false;
        }
        let mut leaves = Vec::new();
        let arrivals = &self.arrivals;
        walk_leaves("", Ty::Rec(SId::Root), &v, &mut |p, c, x| {
            leaves.push(Leaf {
                path: p.to_string(),
                valid: valid_for(c, x),
                arr: arrivals.get(p).copied().unwrap_or(Arr::Direct),
            })
        });
        GenDoc { node, intended: v.to_json(), leaves, decoys: self.decoys }
    }
}

/// All leaf paths of a shape (forced counts).
pub fn shape_leaves(counts: &BTreeMap<String, usize>) -> Vec<String> {
    let mut out = vec![
        "user_name".to_string(),
        "max_count".into(),
        "level".into(),
        "inner_cfg.host_name".into(),
        "inner_cfg.port_no".into(),
        "inner_cfg.leaf_node.tag".into(),
        "inner_cfg.leaf_node.weight".into(),
    ];
    let n = counts.get("item_list").copied().unwrap_or(0);
    for i in 0..n {
        out.push(format!("item_list[{i}].item_name"));
        out.push(format!("item_list[{i}].qty"));
        let m = counts.get(&format!("item_list[{i}].sub_items")).copied().unwrap_or(0);
        for j in 0..m {
            out.push(format!("item_list[{i}].sub_items[{j}].tag"));
            out.push(format!("item_list[{i}].sub_items[{j}].weight"));
        }
    }
    if counts.get("opt_leaf").copied().unwrap_or(0) == 1 {
        out.push("opt_leaf.tag".into());
        out.push("opt_leaf.weight".into());
    }
    out
}
