//! C18 — validating entry points agree with the plain ones and locate every
//! failed field.
//!
//! Metamorphic / differential oracle on the real code. A schema-driven generator
//! writes documents for a fixed family of validated types (nested structs, Vec
//! of structs, nested Vec, Option, camelCase / kebab-case renames; values given
//! directly, through scalar aliases, through aliased structs / lists, through
//! merges incl. merge lists and partial sources) and chooses the set of violated
//! constraints. For both validation crates:
//!   * no violation  => every `*_valid` / `*_validate` entry point returns the
//!     value of the plain entry point of the same kind;
//!   * violations    => the error is ValidationError / ValidatorError, the set of
//!     reported paths (validation crate's report inside the error, plain
//!     rendering, snippet rendering) equals the chosen set, and for each path the
//!     (use site, definition site) obtained through a recording `Localizer`,
//!     `Error::locations()`, `Error::location()` and the `line N column M` text
//!     equal `referenced` / `defined` of the same field in a mirror parse whose
//!     validated fields are wrapped in `Spanned`;
//!   * streams       => k failing documents give ValidationErrors / ValidatorErrors
//!     with k entries (each checked as above); the iterator yields one item per
//!     document, `Err` for each failing one, and keeps going.

mod docgen;
mod dupmap;
mod obsv;
mod oracle;
mod renames;
mod types;

use docgen::{Arr, Forced, Gen, GenDoc, Kit, Params, shape_leaves};
use oracle::{Crate, Ctx, Garde, SingleCase, StreamCase, Validator, check_single, check_stream};
use serde_json::{Value as J, json};
use std::cell::RefCell;
use std::collections::{BTreeMap, BTreeSet};
use types::norm;
use vcore::reftree::{self, render_checked};
use vcore::rng::{Rng, fnv_parts};
use vcore::run::{Finish, Run, Tier, par_range};
use vcore::ydoc::RenderOpts;

struct Built {
    doc: String,
    viol: BTreeSet<String>,
    decoys: BTreeMap<String, String>,
    arrivals: BTreeMap<String, Arr>,
    intended: J,
    indirect: bool,
}

fn build(run: &Run, g: GenDoc, ro: &RenderOpts) -> Option<Built> {
    let Some((doc, _)) = render_checked(&g.node, ro) else {
        run.inconclusive("generator-invalid: document not parsed as intended by the raw parser");
        return None;
    };
    let viol = g.leaves.iter().filter(|l| !l.valid).map(|l| norm(&l.path)).collect();
    let arrivals: BTreeMap<String, Arr> = g.leaves.iter().map(|l| (norm(&l.path), l.arr)).collect();
    let indirect = g.leaves.iter().any(|l| l.arr != Arr::Direct);
    let decoys = g.decoys.iter().map(|(p, c)| (norm(p), c.to_string())).collect();
    Some(Built { doc, viol, decoys, arrivals, intended: g.intended, indirect })
}

fn case_json(b: &Built) -> J {
    json!({
        "kind": "single",
        "doc": b.doc,
        "viol": b.viol,
        "decoys": b.decoys,
        "arrivals": b.arrivals.iter().map(|(k, v)| (k.clone(), v.name())).collect::<BTreeMap<_, _>>(),
    })
}

fn run_single(run: &Run, b: &Built, chunk: usize, full: bool, crates: (bool, bool), only_ov: Option<&[oracle::OptVar]>) {
    let cj = || case_json(b);
    let sc = SingleCase { doc: &b.doc, viol: &b.viol, decoys: &b.decoys, arrivals: &b.arrivals, intended: Some(&b.intended), chunk, only_ov };
    fn one<C: Crate>(run: &Run, b: &Built, sc: &SingleCase, cj: &dyn Fn() -> J, full: bool) {
        let cx = Ctx { run, st: RefCell::new(BTreeMap::new()), crate_name: C::NAME, case: cj, full };
        let ok = check_single::<C>(&cx, sc);
        if ok {
            cx.c("cases/single");
            if !b.viol.is_empty() || b.indirect {
                run.nontrivial(fnv_parts(&[b.doc.as_bytes(), C::NAME.as_bytes()]));
            }
            if b.viol.is_empty() {
                cx.c("cases/single/no-violation");
            } else {
                cx.c("cases/single/with-violations");
            }
            if b.indirect {
                cx.c("cases/single/value-through-alias-or-merge");
            }
        }
        cx.flush();
    }
    if crates.0 {
        one::<Garde>(run, b, &sc, &cj, full);
    }
    if crates.1 {
        one::<Validator>(run, b, &sc, &cj, full);
    }
}

struct StreamBuilt {
    text: String,
    viols: Vec<BTreeSet<String>>,
    arrivals: Vec<BTreeMap<String, Arr>>,
}

fn run_stream(run: &Run, s: &StreamBuilt, chunk: usize, crates: (bool, bool)) {
    let cj = || {
        json!({
            "kind": "stream",
            "text": s.text,
            "viols": s.viols,
            "arrivals": s.arrivals.iter().map(|a| a.iter().map(|(k, v)| (k.clone(), v.name())).collect::<BTreeMap<_, _>>()).collect::<Vec<_>>(),
        })
    };
    let sc = StreamCase { text: &s.text, viols: &s.viols, arrivals: &s.arrivals, chunk };
    fn one<C: Crate>(run: &Run, s: &StreamBuilt, sc: &StreamCase, cj: &dyn Fn() -> J) {
        let cx = Ctx { run, st: RefCell::new(BTreeMap::new()), crate_name: C::NAME, case: cj, full: true };
        if check_stream::<C>(&cx, sc) {
            cx.c("cases/stream");
            let failing = s.viols.iter().filter(|v| !v.is_empty()).count();
            if failing > 0 {
                run.nontrivial(fnv_parts(&[s.text.as_bytes(), C::NAME.as_bytes(), b"stream"]));
            }
            cx.c(match failing {
                0 => "cases/stream/failing-docs=0",
                1 => "cases/stream/failing-docs=1",
                2 => "cases/stream/failing-docs=2",
                _ => "cases/stream/failing-docs>=3",
            });
        }
        cx.flush();
    }
    if crates.0 {
        one::<Garde>(run, s, &sc, &cj);
    }
    if crates.1 {
        one::<Validator>(run, s, &sc, &cj);
    }
}

fn random_params(rng: &mut Rng) -> Params {
    let style = rng.below(6);
    let mut p = Params {
        p_salias: *rng.pick(&[0usize, 2, 4]),
        p_ralias: *rng.pick(&[0usize, 2, 3]),
        p_merge: *rng.pick(&[0usize, 2, 3]),
        p_anchor: *rng.pick(&[0usize, 2, 4]),
        p_flow: *rng.pick(&[0usize, 2, 4, 8]),
        p_invalid: *rng.pick(&[0usize, 1, 2, 4]),
        p_decoy: if rng.chance(1, 5) { 3 } else { 0 },
        shuffle: rng.bool(),
        kit: if rng.chance(2, 3) { Kit::Random } else { Kit::None },
        big: rng.chance(1, 4),
    };
    // Decoy keys only in alias-free documents: an anchored mapping carries its decoy key to every
    // alias / merge use, which the per-path decoy bookkeeping does not follow.
    if style == 0 || p.p_decoy > 0 {
        p = Params { shuffle: p.shuffle, p_flow: p.p_flow, p_invalid: p.p_invalid.max(1), p_decoy: p.p_decoy, big: p.big, ..Params::DIRECT };
    }
    p
}

fn random_ro(rng: &mut Rng) -> RenderOpts {
    RenderOpts { indent: *rng.pick(&[2usize, 2, 3, 4]), brk: "\n", compact: rng.bool() }
}

fn random_single(run: &Run, rng: &mut Rng) -> Option<Built> {
    let pr = random_params(rng);
    let ro = random_ro(rng);
    let g = Gen::new(rng, pr, None).gen_root();
    build(run, g, &ro)
}

/// Forced-mode templates of the exhaustive part.
fn template(t: usize) -> (Params, &'static str) {
    let d = Params::DIRECT;
    match t {
        0 => (d, "direct-block"),
        1 => (Params { p_flow: 8, ..d }, "direct-flow"),
        2 => (Params { p_salias: 8, kit: Kit::Scalars, ..d }, "every-leaf-through-scalar-alias"),
        3 => (Params { p_merge: 8, kit: Kit::ValidRecs, ..d }, "merge-from-valid-records"),
        4 => (Params { p_merge: 8, kit: Kit::InvalidRecs, ..d }, "merge-from-invalid-records"),
        5 => (Params { p_ralias: 4, p_merge: 2, p_salias: 2, p_anchor: 4, shuffle: true, kit: Kit::Random, ..d }, "mixed-aliases-fixed-stream"),
        6 => (Params { p_ralias: 8, kit: Kit::AllCombos, ..d }, "every-struct-through-whole-alias"),
        7 => (Params { p_merge: 8, kit: Kit::ValidRecsAliased, ..d }, "merge-from-valid-records-of-scalar-aliases"),
        8 => (Params { p_merge: 8, kit: Kit::InvalidRecsAliased, ..d }, "merge-from-invalid-records-of-scalar-aliases"),
        _ => unreachable!(),
    }
}

fn shape(idx: usize) -> BTreeMap<String, usize> {
    let mut c = BTreeMap::new();
    match idx {
        0 => {
            c.insert("item_list".to_string(), 1);
            c.insert("item_list[0].sub_items".to_string(), 1);
            c.insert("opt_leaf".to_string(), 1);
        }
        _ => {
            c.insert("item_list".to_string(), 2);
            c.insert("item_list[0].sub_items".to_string(), 0);
            c.insert("item_list[1].sub_items".to_string(), 2);
            c.insert("opt_leaf".to_string(), 0);
        }
    }
    c
}

fn replay(run: &Run, rep: &J) {
    let case = &rep["case"];
    let crates = match case["crate"].as_str() {
        Some("garde") => (true, false),
        Some("validator") => (false, true),
        _ => (true, true),
    };
    let set = |v: &J| -> BTreeSet<String> { v.as_array().map(|a| a.iter().filter_map(|x| x.as_str().map(String::from)).collect()).unwrap_or_default() };
    let arrs = |v: &J| -> BTreeMap<String, Arr> {
        v.as_object().map(|o| o.iter().map(|(k, x)| (k.clone(), Arr::from_name(x.as_str().unwrap_or("")))).collect()).unwrap_or_default()
    };
    if case["kind"] == "renames" {
        let doc = case["doc"].as_str().unwrap_or("").to_string();
        let intended = serde_saphyr::from_str::<renames::g::RenRoot>(&doc).ok().and_then(|r| serde_json::to_value(&r).ok()).unwrap_or(J::Null);
        let d = renames::RenDoc { text: doc, viol: set(&case["viol"]), arrivals: BTreeMap::new(), intended };
        renames::check(run, &d);
    } else if case["kind"] == "dupmap" {
        let d = dupmap::DmDoc {
            text: case["doc"].as_str().unwrap_or("").to_string(),
            pol: dupmap::Pol::from_name(case["policy"].as_str().unwrap_or("")),
            viol: set(&case["viol"]),
            arrivals: BTreeMap::new(),
            intended: None,
            exp_line: BTreeMap::new(),
            repeated: true,
        };
        dupmap::check(run, &d, true);
    } else if case["kind"] == "stream" {
        let s = StreamBuilt {
            text: case["text"].as_str().unwrap_or("").to_string(),
            viols: case["viols"].as_array().map(|a| a.iter().map(set).collect()).unwrap_or_default(),
            arrivals: case["arrivals"].as_array().map(|a| a.iter().map(arrs).collect()).unwrap_or_default(),
        };
        run_stream(run, &s, 7, crates);
    } else {
        let doc = case["doc"].as_str().unwrap_or("").to_string();
        let viol = set(&case["viol"]);
        let decoys = case["decoys"].as_object().map(|o| o.iter().map(|(k, x)| (k.clone(), x.as_str().unwrap_or("").to_string())).collect()).unwrap_or_default();
        let arrivals = arrs(&case["arrivals"]);
        let intended = serde_saphyr::from_str::<types::g::Root>(&doc).ok().and_then(|r| serde_json::to_value(&r).ok()).unwrap_or(J::Null);
        let indirect = arrivals.values().any(|a| *a != Arr::Direct);
        let b = Built { doc, viol, decoys, arrivals, intended, indirect };
        run_single(run, &b, 7, true, crates, None);
    }
}

fn main() {
    let run = Run::from_args("C18");
    if let Some(rep) = run.is_replay() {
        let rep = rep.clone();
        replay(&run, &rep);
        run.finish(Finish::new("replay"));
    }
    let tier = run.tier;
    let both = (true, true);
    // development aid: C18_ONLY=renames,streams runs only those phases (evidence is then partial)
    let on = |n: &str| std::env::var("C18_ONLY").map(|v| v.split(',').any(|x| x == n)).unwrap_or(true);

    // ---- exhaustive: every subset of violated leaves of a fixed shape x delivery templates
    let n_shapes = tier.pick(1, 2);
    let n_templates = 9;
    let mut scope = Vec::new();
    for si in 0..(if on("exhaustive") { n_shapes } else { 0 }) {
        let counts = shape(si);
        let leaves = shape_leaves(&counts);
        let n = leaves.len();
        scope.push(format!("shape {si}: {n} validated leaves"));
        let total = (1usize << n) * n_templates;
        par_range(total, |idx| {
            let t = idx % n_templates;
            let mask = idx / n_templates;
            let viol: BTreeSet<String> = leaves.iter().enumerate().filter(|(i, _)| mask >> i & 1 == 1).map(|(_, p)| p.clone()).collect();
            let fc = Forced { viol, counts: counts.clone() };
            let (pr, tname) = template(t);
            // fixed stream: the exhaustive part does not depend on VERIF_SEED
            let mut rng = Rng::stream(0xC18, idx as u64);
            let g = Gen::new(&mut rng, pr, Some(&fc)).gen_root();
            let ro = RenderOpts { indent: 2, brk: "\n", compact: t != 1 };
            let Some(b) = build(&run, g, &ro) else { return };
            let want: BTreeSet<String> = fc.viol.iter().map(|p| norm(p)).collect();
            if b.viol != want {
                run.inconclusive("generator: forced violated set not realised");
                return;
            }
            run.count(&format!("exhaustive_docs/{tname}"), 1);
            // heavy rendering checks on a deterministic half of the space in quick
            let full = tier == Tier::Thorough || mask % 2 == t % 2;
            // options variants per document: quick one in rotation; thorough two in rotation
            // (pairs (0,3) (1,4) (2,5): default/crop 5, no-snippet/LastWins, crop 0/FirstWins)
            let r = (mask + t) % 6;
            let ovs = [oracle::OptVar::ALL[r], oracle::OptVar::ALL[(r + 3) % 6]];
            let only: &[oracle::OptVar] = if tier == Tier::Thorough { &ovs } else { &ovs[..1] };
            run_single(&run, &b, 1 + idx % 13, full, both, Some(only));
            if idx % 20011 == 0 {
                run.sample(|| json!({"template": tname, "doc": b.doc, "violated": b.viol}));
            }
        });
    }

    // ---- directed: decoy keys (unknown keys whose spelling collides with a validated field)
    if on("decoys") {
        let keys = [
            ("userName", "user_name", &["user-name", "UserName", "username", "USER_NAME", "user_name"][..], &["tie", "tie", "late", "early", "early"][..]),
            ("maxCount", "max_count", &["max-count", "maxcount", "max_count", "MAXCOUNT"][..], &["tie", "late", "early", "late"][..]),
        ];
        for (yaml, rust, decs, classes) in keys {
            for (d, class) in decs.iter().zip(classes.iter()) {
                for before in [true, false] {
                    let bad = if yaml == "userName" { "x" } else { "0" };
                    let dv = if yaml == "userName" { "zz" } else { "7" };
                    let other = if yaml == "userName" { "maxCount: 5" } else { "userName: ab" };
                    let (a, b2) = if before { (format!("{d}: {dv}"), format!("{yaml}: {bad}")) } else { (format!("{yaml}: {bad}"), format!("{d}: {dv}")) };
                    let doc = format!("{a}\n{b2}\n{other}\nlevel: 3\ninnerCfg:\n  host-name: hh\n  port-no: 1\n  leaf-node: {{tag: ab, weight: 1}}\n");
                    if reftree::parse_one(&doc).is_none() {
                        run.inconclusive("generator-invalid: directed decoy document");
                        continue;
                    }
                    let intended = match serde_saphyr::from_str::<types::v::Root>(&doc) {
                        Ok(r) => serde_json::to_value(&r).unwrap(),
                        Err(_) => {
                            run.inconclusive("model: directed decoy document rejected");
                            continue;
                        }
                    };
                    let b = Built {
                        doc,
                        viol: [norm(rust)].into_iter().collect(),
                        decoys: [(norm(rust), class.to_string())].into_iter().collect(),
                        arrivals: BTreeMap::new(),
                        intended,
                        indirect: false,
                    };
                    run.count(&format!("directed_decoy_docs/{class}"), 1);
                    run_single(&run, &b, 5, true, both, None);
                }
            }
        }
    }

    // ---- repeated keys in a map of validated values under LastWins / FirstWins
    if on("dupmap") {
        use dupmap::{Entry, Pol};
        let lmax = tier.pick(3usize, 4usize);
        let mut specs: Vec<Vec<Entry>> = Vec::new();
        for l in 1..=lmax {
            for code in 0..8usize.pow(l as u32) {
                let mut c = code;
                let mut es = Vec::new();
                for _ in 0..l {
                    let o = c % 8;
                    c /= 8;
                    es.push(Entry { key: o & 1, tag_ok: o & 2 != 0, w_ok: o & 4 != 0, alias_of: None });
                }
                specs.push(es);
            }
        }
        run.count("repeated_key_map_exhaustive_entry_lists", specs.len() as u64);
        par_range(specs.len() * 4, |i| {
            let es = &specs[i / 4];
            let pol = if i % 2 == 0 { Pol::Last } else { Pol::First };
            let flow = (i / 2) % 2 == 1;
            let d = dupmap::build((i / 4) % 3 != 0, es, flow, pol);
            if reftree::parse_one(&d.text).is_none() {
                run.inconclusive("generator-invalid: repeated-key document");
                return;
            }
            dupmap::check(&run, &d, i % 8 < 2);
            if i % 1201 == 0 {
                run.sample(|| json!({"repeated_key_map": d.text, "policy": pol.name(), "violated": d.viol}));
            }
        });
        let n_rand = tier.pick(2_000, 20_000);
        par_range(n_rand, |i| {
            let mut rng = Rng::stream(run.seed ^ 0xD0B1_E000, i as u64);
            let n = rng.range(2, 7);
            let mut es: Vec<Entry> = Vec::new();
            for j in 0..n {
                let directs: Vec<usize> = (0..j).filter(|&k| es[k].alias_of.is_none()).collect();
                let alias_of = if !directs.is_empty() && rng.chance(1, 4) { Some(*rng.pick(&directs)) } else { None };
                let (tag_ok, w_ok) = match alias_of {
                    Some(k) => (es[k].tag_ok, es[k].w_ok),
                    None => (!rng.chance(1, 3), !rng.chance(1, 3)),
                };
                es.push(Entry { key: rng.below(3), tag_ok, w_ok, alias_of });
            }
            let pol = if rng.bool() { Pol::Last } else { Pol::First };
            let d = dupmap::build(!rng.chance(1, 4), &es, rng.chance(1, 3), pol);
            if reftree::parse_one(&d.text).is_none() {
                run.inconclusive("generator-invalid: repeated-key document");
                return;
            }
            run.count("repeated_key_map_random_docs", 1);
            dupmap::check(&run, &d, rng.chance(1, 4));
        });
    }

    // ---- observation only (outside the fixed family): validated field inside an enum payload
    if on("decoys") {
        for doc in ["shape: !Circle {radius: 0}\n", "shape:\n  Circle:\n    radius: 0\n", "shape: !Named x\n", "shape: {Named: x}\n"] {
            run.eval();
            match vcore::obs::catch(|| serde_saphyr::from_str_valid::<types::ge::EnumRoot>(doc)) {
                Ok(Err(e)) if vcore::errs::kind(e.without_snippet()) == "ValidationError" => {
                    if e.location().is_some() {
                        run.count("observation/enum-payload-field-located", 1);
                    } else {
                        run.count("unspecified/enum-payload-field-not-located(outside the fixed family)", 1);
                    }
                }
                Ok(_) => run.count("observation/enum-payload-other-outcome", 1),
                Err(p) => run.violation(&format!("C18:panic:{}", vcore::obs::panic_site(&p)), json!({"kind": "enum-observation", "doc": doc}), p),
            }
        }
    }

    // ---- renamed fields under every rename_all convention
    if on("renames") {
        let keys = renames::yaml_keys();
        run.note(format!("renames: YAML keys per convention (from serde): {keys:?}"));
        // every subset of violated fields of one struct x {all direct, all through scalar aliases} x {block, flow}
        par_range(8 * 64 * 4, |i| {
            let (s, mask, al, fl) = (i / 256, (i / 4) % 64, i % 2 == 1, (i / 2) % 2 == 1);
            let d = renames::build(&keys, &|s2, f| s2 == s && mask >> f & 1 == 1, &|_, _| al, i % 7, &|_| fl);
            if reftree::parse_one(&d.text).is_none() {
                run.inconclusive("generator-invalid: renames document");
                return;
            }
            run.count("renames_exhaustive_docs", 1);
            renames::check(&run, &d);
            if i % 509 == 0 {
                run.sample(|| json!({"renames": d.text, "violated": d.viol}));
            }
        });
        let n_rand = tier.pick(1_500, 15_000);
        par_range(n_rand, |i| {
            let mut rng = Rng::stream(run.seed ^ 0x4E4A_3E00, i as u64);
            let bits: Vec<u64> = (0..3).map(|_| rng.next_u64()).collect();
            let p_bad = 2 + rng.below(5);
            let mut bad = [[false; 6]; 8];
            let mut al = [[false; 6]; 8];
            for s in 0..8 {
                for f in 0..6 {
                    bad[s][f] = rng.below(12) < p_bad;
                    al[s][f] = rng.chance(1, 3);
                }
            }
            let d = renames::build(&keys, &|s, f| bad[s][f], &|s, f| al[s][f], rng.below(48), &|s| bits[0] >> s & 1 == 1);
            if reftree::parse_one(&d.text).is_none() {
                run.inconclusive("generator-invalid: renames document");
                return;
            }
            run.count("renames_random_docs", 1);
            renames::check(&run, &d);
        });
    }

    // ---- random single documents
    let n_random = if on("random") { tier.pick(8_000, 80_000) } else { 0 };
    par_range(n_random, |i| {
        let mut rng = Rng::stream(run.seed, i as u64);
        let Some(b) = random_single(&run, &mut rng) else { return };
        run.count("random_docs", 1);
        if !b.decoys.is_empty() {
            run.count("random_docs_with_decoy_keys", 1);
        }
        let chunk = *rng.pick(&[1usize, 3, 7, 64, 4096]);
        run_single(&run, &b, chunk, true, both, None);
        if i % 1499 == 0 {
            run.sample(|| json!({"doc": b.doc, "violated": b.viol, "arrivals": b.arrivals.iter().map(|(k, v)| (k.clone(), v.name())).collect::<BTreeMap<_, _>>()}));
        }
    });

    // ---- streams
    let n_streams = if on("streams") { tier.pick(3_000, 30_000) } else { 0 };
    par_range(n_streams, |i| {
        let mut rng = Rng::stream(run.seed ^ 0x5712_EA00, i as u64);
        let k = rng.range(1, tier.pick(6, 8));
        let mut docs = Vec::new();
        // bias: make clean documents common enough that every count of failing documents 0..k occurs
        let clean_bias = rng.below(3);
        for _ in 0..k {
            let mut pr = random_params(&mut rng);
            pr.p_decoy = 0;
            pr.big = false;
            if clean_bias == 0 || (clean_bias == 1 && rng.bool()) {
                pr.p_invalid = 0;
                if rng.bool() {
                    pr.kit = Kit::None;
                }
            }
            let ro = random_ro(&mut rng);
            let g = Gen::new(&mut rng, pr, None).gen_root();
            match build(&run, g, &ro) {
                Some(b) => docs.push(b),
                None => return,
            }
        }
        // chunks: Some(j) = document j, None = a null-like document (`--- ~` or an empty one), which
        // both the plain and the validating stream entry points skip
        let mut chunks: Vec<Option<usize>> = Vec::new();
        for j in 0..k {
            if rng.chance(1, 7) {
                chunks.push(None);
            }
            chunks.push(Some(j));
        }
        if rng.chance(1, 7) {
            chunks.push(None);
        }
        let mut text = String::new();
        let lead = rng.bool();
        let mut nulls = 0u64;
        for (ci, c) in chunks.iter().enumerate() {
            match c {
                None => {
                    nulls += 1;
                    text.push_str(if rng.bool() { "--- ~\n" } else { "---\n" });
                }
                Some(j) => {
                    if ci > 0 || lead {
                        text.push_str("---\n");
                    }
                    text.push_str(&docs[*j].doc);
                    if rng.chance(1, 6) {
                        text.push_str("...\n");
                    }
                }
            }
        }
        match reftree::parse_stream(&text) {
            Ok(ds) if ds.len() == chunks.len() => {}
            _ => {
                run.inconclusive("generator-invalid: stream not parsed as the intended documents by the raw parser");
                return;
            }
        }
        run.count("stream_null_like_documents", nulls);
        let s = StreamBuilt {
            text,
            viols: docs.iter().map(|d| d.viol.clone()).collect(),
            arrivals: docs.iter().map(|d| d.arrivals.clone()).collect(),
        };
        run.count("stream_cases", 1);
        run.count("stream_documents", k as u64);
        let chunk = *rng.pick(&[1usize, 5, 64, 4096]);
        run_stream(&run, &s, chunk, both);
        if i % 997 == 0 {
            run.sample(|| json!({"stream": s.text, "violated_per_document": s.viols}));
        }
    });

    let fin = Finish::new(
        "a case (document or stream, validation crate) is non-trivial when >= 1 constraint is violated, or >= 1 validated value arrives through a scalar alias / aliased struct / aliased list / merge, or (map family) a key is repeated; streams: >= 1 failing document; distinct by hash(text, crate[, policy]). Workload: exhaustive part below + seeded random single documents (free mode: validity, shape up to 5 items x 3 sub-items, delivery, flow/block, key order, anchors, unknown `defs` key, decoy keys in alias-free documents) + seeded random streams (1..=5 quick / 1..=7 thorough documents, null-like documents and `...` interleaved) checked through from_multiple*_valid/_validate, from_slice_multiple_* and the read_* iterators",
    )
    .exhaustive(format!(
        "(1) main family: every subset of violated validated leaves ({}) x 9 delivery templates (direct block; direct flow; every leaf through a scalar alias; merge from valid records; merge from invalid records; mixed aliases/merges from a fixed PRNG stream; every struct through a whole-struct alias [records for every validity pattern, Inner/Item containing aliases to Leaf records]; merge from valid records whose scalars are aliases; merge from invalid records whose scalars are aliases) x {{garde, validator}} x every single-document entry point (from_str / from_slice / from_reader `_valid`/`_validate`, their `_with_options` forms, garde's `_context_valid`) with options variants default / with_snippet=false / crop_radius 0 / crop_radius 5 / duplicate_keys LastWins / FirstWins (quick: one per document in rotation; thorough: two per document in rotation; the random part runs all six on every document) x renderings: recording Localizer behind the developer formatter (snippets Off and Auto) and behind the user formatter (Auto), default Display text [quick: the three renderings + text on all entry points without options and on a fixed half of the documents for the `_with_options` ones]. (2) map family (garde): every entry list of length <= {} over 2 keys x 4 leaf-validity patterns, x name valid/invalid (fixed by index), x {{LastWins, FirstWins}} x {{block, flow}}, through from_str/_context/from_slice/from_reader `_with_options_valid` with and without snippets (+ a two-document stream through from_multiple_with_options_valid and read_with_options_valid on a quarter of them). (3) renames family: for each of the 8 rename_all conventions every subset of its 6 fields violated x {{all direct, all through scalar aliases}} x {{block, flow}} x {{garde, validator}} x {{from_str, from_reader}}. (4) directed decoy-key documents (2 fields x up to 5 decoy spellings x before/after the real key)",
        scope.join("; "),
        tier.pick(3, 4)
    ))
    .assume("the raw saphyr-parser event stream confirms every generated document (render_checked)")
    .assume("model guards: plain from_str value == generator's intended value, validation crate's verdict on the plain value == chosen set, mirror (Spanned) parse has a location for every violated leaf; otherwise the case is inconclusive")
    .assume("definition site is only exposed by the snippet rendering (value_comes_from_the_anchor) and by Error::locations() for the first entry; reader entry points render without snippets, so for them the definition site of the 2nd.. issue is not observable (counted as unspecified)")
    .assume("repeated keys (map of validated values, LastWins / FirstWins): garde only — validator reports map entries by iteration index (limits[0].weight), which cannot be mapped to a YAML key (unspecified); exhaustive over every entry list of length <= 3 (quick) / 4 (thorough) over 2 keys x leaf validity x {LastWins, FirstWins} x {block, flow}")
    .assume("decoy keys: when an unknown key matches the Rust field name at an earlier lookup pass than the real key the reported location is unspecified; on a tie the location may be unknown but must not be wrong")
    .min_nontrivial(if tier == Tier::Quick { 50_000 } else { 300_000 });
    run.finish(fin);
}
