// probe
use serde::Deserialize;
use serde_saphyr::localizer::Localizer;
use serde_saphyr::{Location, MessageFormatter, RenderOptions, SnippetMode, Spanned};
use std::borrow::Cow;
use std::cell::RefCell;

#[derive(Debug, Deserialize, garde::Validate, PartialEq)]
#[serde(rename_all = "camelCase")]
struct GRoot {
    #[garde(length(min = 2))]
    user_name: String,
    #[garde(range(min = 1, max = 100))]
    max_count: i64,
    #[garde(dive)]
    inner_cfg: GInner,
    #[garde(dive)]
    #[serde(default)]
    item_list: Vec<GItem>,
}
#[derive(Debug, Deserialize, garde::Validate, PartialEq)]
#[serde(rename_all = "kebab-case")]
struct GInner {
    #[garde(length(min = 2))]
    host_name: String,
    #[garde(range(min = 1))]
    port_no: i64,
}
#[derive(Debug, Deserialize, garde::Validate, PartialEq)]
#[serde(rename_all = "camelCase")]
struct GItem {
    #[garde(length(min = 2))]
    item_name: String,
    #[garde(range(min = 1))]
    qty: i64,
}

mod vv {
use serde::Deserialize;
use validator::Validate;
#[derive(Debug, Deserialize, validator::Validate, PartialEq)]
#[serde(rename_all = "camelCase")]
pub struct VRoot {
    #[validate(length(min = 2))]
    pub user_name: String,
    #[validate(range(min = 1, max = 100))]
    max_count: i64,
    #[validate(nested)]
    inner_cfg: VInner,
    #[validate(nested)]
    #[serde(default)]
    item_list: Vec<VItem>,
}
#[derive(Debug, Deserialize, validator::Validate, PartialEq)]
#[serde(rename_all = "kebab-case")]
pub struct VInner {
    #[validate(length(min = 2))]
    host_name: String,
    #[validate(range(min = 1))]
    port_no: i64,
}
#[derive(Debug, Deserialize, validator::Validate, PartialEq)]
#[serde(rename_all = "camelCase")]
pub struct VItem {
    #[validate(length(min = 2))]
    item_name: String,
    #[validate(range(min = 1))]
    qty: i64,
}

}
use vv::*;
#[derive(Debug, Deserialize)]
#[serde(rename_all = "camelCase")]
struct MRoot {
    user_name: Spanned<String>,
    max_count: Spanned<i64>,
    inner_cfg: MInner,
    #[serde(default)]
    item_list: Vec<MItem>,
}
#[derive(Debug, Deserialize)]
#[serde(rename_all = "kebab-case")]
struct MInner {
    host_name: Spanned<String>,
    port_no: Spanned<i64>,
}
#[derive(Debug, Deserialize)]
#[serde(rename_all = "camelCase")]
struct MItem {
    item_name: Spanned<String>,
    qty: Spanned<i64>,
}

#[derive(Default)]
struct Rec {
    log: RefCell<Vec<String>>,
}
fn l(loc: Location) -> String {
    format!("{}:{}@{}+{}", loc.line(), loc.column(), loc.span().offset(), loc.span().len())
}
impl Localizer for Rec {
    fn attach_location<'a>(&self, base: Cow<'a, str>, loc: Location) -> Cow<'a, str> {
        self.log.borrow_mut().push(format!("attach({})", l(loc)));
        Cow::Owned(format!("{base} AT {}", l(loc)))
    }
    fn validation_issue_line(&self, p: &str, e: &str, loc: Option<Location>) -> String {
        self.log.borrow_mut().push(format!("issue_line({p}|{e}|{:?})", loc.map(l)));
        format!("ISSUE {p} {e}")
    }
    fn validation_base_message(&self, e: &str, p: &str) -> String {
        self.log.borrow_mut().push(format!("base({p}|{e})"));
        format!("BASE {p} {e}")
    }
    fn value_comes_from_the_anchor(&self, d: Location) -> String {
        self.log.borrow_mut().push(format!("comes_from({})", l(d)));
        format!("FROM {}", l(d))
    }
    fn snippet_location_prefix(&self, loc: Location) -> String {
        self.log.borrow_mut().push(format!("prefix({})", l(loc)));
        format!("P{}", l(loc))
    }
    fn defined_here(&self) -> Cow<'static, str> {
        self.log.borrow_mut().push("defined_here".into());
        Cow::Borrowed("(defined here)")
    }
    fn invalid_here(&self, base: &str) -> String {
        self.log.borrow_mut().push("invalid_here".into());
        format!("invalid here, {base}")
    }
}
struct F<'a>(&'a Rec);
impl MessageFormatter for F<'_> {
    fn localizer(&self) -> &dyn Localizer {
        self.0
    }
    fn format_message<'a>(&self, err: &'a serde_saphyr::Error) -> Cow<'a, str> {
        serde_saphyr::DefaultMessageFormatter.with_localizer(self.0).format_message(err)
    }
}

fn show(e: &serde_saphyr::Error) {
    println!("--- kind={} locations={:?}", vcore::errs::kind(e), e.locations().map(|x| (l(x.reference_location), l(x.defined_location))));
    println!("{e}");
    for mode in [SnippetMode::Auto, SnippetMode::Off] {
        let rec = Rec::default();
        let f = F(&rec);
        let mut ro = RenderOptions::new(&f);
        ro.snippets = mode;
        let s = e.render_with_options(ro);
        println!("  mode={mode:?} log={:?}", rec.log.borrow());
        println!("  text={s:?}");
    }
    match e.without_snippet() {
        serde_saphyr::Error::ValidationError { report, .. } => {
            for (p, er) in report.iter() {
                println!("  garde path={p} msg={er}");
            }
        }
        serde_saphyr::Error::ValidatorError { errors, .. } => {
            println!("  validator errors={errors:?}");
        }
        _ => {}
    }
}

fn main() {
    let docs = [
        "userName: &s x\nmaxCount: 0\ninnerCfg: &in\n  host-name: *s\n  port-no: 0\nitemList:\n  - itemName: *s\n    qty: 5\n  - &it\n    itemName: ab\n    qty: 0\n  - *it\n  - <<: *it\n    itemName: q\n",
        "defs:\n  in: &in {host-name: h, port-no: 0}\nuserName: ab\nmaxCount: 5\ninnerCfg:\n  <<: *in\n  port-no: 7\n",
        "defs:\n  in: &in {host-name: h, port-no: 0}\nuserName: ab\nmaxCount: 5\ninnerCfg: *in\n",
        "user_name: zz\nuserName: a\nmaxCount: 5\ninnerCfg: {host-name: hh, port-no: 1}\n",
        "user-name: zz\nuserName: a\nmaxCount: 5\ninnerCfg: {host-name: hh, port-no: 1}\n",
    ];
    for d in docs {
        println!("================\n{d}");
        match serde_saphyr::from_str_valid::<GRoot>(d) {
            Ok(v) => println!("garde ok {v:?}"),
            Err(e) => show(&e),
        }
        match serde_saphyr::from_str_validate::<VRoot>(d) {
            Ok(v) => println!("validator ok {v:?}"),
            Err(e) => show(&e),
        }
        match serde_saphyr::from_reader_valid::<_, GRoot>(d.as_bytes()) {
            Ok(v) => println!("garde reader ok {v:?}"),
            Err(e) => show(&e),
        }
        match serde_saphyr::from_str::<MRoot>(d) {
            Ok(m) => {
                let p = |n: &str, r: Location, d: Location| println!("  mirror {n}: ref={} def={}", l(r), l(d));
                p("userName", m.user_name.referenced, m.user_name.defined);
                p("maxCount", m.max_count.referenced, m.max_count.defined);
                p("innerCfg.host-name", m.inner_cfg.host_name.referenced, m.inner_cfg.host_name.defined);
                p("innerCfg.port-no", m.inner_cfg.port_no.referenced, m.inner_cfg.port_no.defined);
                for (i, it) in m.item_list.iter().enumerate() {
                    p(&format!("itemList[{i}].itemName"), it.item_name.referenced, it.item_name.defined);
                    p(&format!("itemList[{i}].qty"), it.qty.referenced, it.qty.defined);
                }
            }
            Err(e) => println!("mirror err {e}"),
        }
    }
}
