//! Repeated keys in a map of validated values under `DuplicateKeyPolicy::LastWins`
//! / `FirstWins`.
//!
//! Type: `MapRoot { name: String (len >= 2), limits: BTreeMap<String, Leaf> (dive) }`.
//! A key of `limits` may occur several times; under LastWins the value of the last
//! occurrence survives (and is what gets validated), under FirstWins the first.
//! A reported path `limits.<key>.<field>` must be located at the *surviving*
//! occurrence — reference: the mirror (`Spanned`) parse under the same options,
//! itself guarded by the generator's own line bookkeeping. The default policy
//! rejects such documents before validation and is not in scope.
//!
//! garde locates map entries by key; validator reports them by iteration index
//! (`limits[0].weight`), which cannot be mapped to a YAML key — for validator only
//! "passes => equals plain" and "fails => ValidatorError" are checked, the location
//! of map entries is counted as unspecified.

use crate::docgen::Arr;
use crate::oracle::{ChunkReader, Crate, Ctx, Exp, Garde, Locs, verify_error};
use crate::types::{gm, loc, m, mm, norm, vm};
use serde_json::{Value as J, json};
use serde_saphyr::{DuplicateKeyPolicy, Error, Options};
use std::cell::RefCell;
use std::collections::{BTreeMap, BTreeSet};
use vcore::errs::kind;
use vcore::obs::{catch, panic_site};
use vcore::rng::fnv_parts;
use vcore::run::Run;

#[derive(Clone, Copy, PartialEq, Eq, Debug)]
pub enum Pol {
    Last,
    First,
}

impl Pol {
    pub fn name(self) -> &'static str {
        match self {
            Pol::Last => "LastWins",
            Pol::First => "FirstWins",
        }
    }
    pub fn from_name(s: &str) -> Pol {
        if s == "FirstWins" { Pol::First } else { Pol::Last }
    }
}

/// snippet variant: 0 default, 1 with_snippet=false
pub fn mk(pol: Pol, variant: usize) -> Options {
    let mut o = Options::default();
    #[allow(deprecated)]
    {
        o.duplicate_keys = match pol {
            Pol::Last => DuplicateKeyPolicy::LastWins,
            Pol::First => DuplicateKeyPolicy::FirstWins,
        };
        if variant == 1 {
            o.with_snippet = false;
        }
    }
    o
}

pub const KEYS: [&str; 3] = ["cpu", "mem", "io"];

#[derive(Clone, Debug)]
pub struct Entry {
    pub key: usize,
    pub tag_ok: bool,
    pub w_ok: bool,
    /// Some(i): the value is `*e<i>` (entry i must be earlier and written out)
    pub alias_of: Option<usize>,
}

pub struct DmDoc {
    pub text: String,
    pub pol: Pol,
    pub viol: BTreeSet<String>,
    pub arrivals: BTreeMap<String, Arr>,
    pub intended: Option<J>,
    /// normalised path -> line of the use site of the surviving occurrence (generator's bookkeeping)
    pub exp_line: BTreeMap<String, u64>,
    pub repeated: bool,
}

pub fn build(name_ok: bool, entries: &[Entry], flow: bool, pol: Pol) -> DmDoc {
    let tags_ok = ["ab", "cd", "ef", "gh"];
    let tags_bad = ["x", "y", "z", "q"];
    let vals = |i: usize, e: &Entry| -> (String, i64) {
        (
            (if e.tag_ok { tags_ok[i % 4] } else { tags_bad[i % 4] }).to_string(),
            if e.w_ok { 1 + i as i64 } else { -(i as i64) },
        )
    };
    // effective leaf of each entry
    let mut leaf: Vec<(String, i64)> = Vec::new();
    for (i, e) in entries.iter().enumerate() {
        match e.alias_of {
            Some(k) => leaf.push(leaf[k].clone()),
            None => leaf.push(vals(i, e)),
        }
    }
    let anchored: BTreeSet<usize> = entries.iter().filter_map(|e| e.alias_of).collect();
    let name = if name_ok { "ab" } else { "n" };
    let mut text = format!("name: {name}\n");
    // (tag line, weight line) per entry
    let mut lines: Vec<(u64, u64)> = Vec::new();
    if flow {
        let mut parts = Vec::new();
        for (i, e) in entries.iter().enumerate() {
            let v = match e.alias_of {
                Some(k) => format!("*e{k}"),
                None => {
                    let a = if anchored.contains(&i) { format!("&e{i} ") } else { String::new() };
                    format!("{a}{{tag: {}, weight: {}}}", leaf[i].0, leaf[i].1)
                }
            };
            parts.push(format!("{}: {v}", KEYS[e.key]));
            lines.push((2, 2));
        }
        text.push_str(&format!("limits: {{{}}}\n", parts.join(", ")));
    } else {
        text.push_str("limits:\n");
        let mut ln = 2u64;
        for (i, e) in entries.iter().enumerate() {
            match e.alias_of {
                Some(k) => {
                    text.push_str(&format!("  {}: *e{k}\n", KEYS[e.key]));
                    ln += 1;
                    lines.push((ln, ln));
                }
                None => {
                    let a = if anchored.contains(&i) { format!(" &e{i}") } else { String::new() };
                    text.push_str(&format!("  {}:{a}\n    tag: {}\n    weight: {}\n", KEYS[e.key], leaf[i].0, leaf[i].1));
                    lines.push((ln + 2, ln + 3));
                    ln += 3;
                }
            }
        }
    }
    // survivors
    let mut surv: BTreeMap<usize, usize> = BTreeMap::new();
    let mut count: BTreeMap<usize, usize> = BTreeMap::new();
    for (i, e) in entries.iter().enumerate() {
        *count.entry(e.key).or_insert(0) += 1;
        match pol {
            Pol::Last => {
                surv.insert(e.key, i);
            }
            Pol::First => {
                surv.entry(e.key).or_insert(i);
            }
        }
    }
    let mut viol = BTreeSet::new();
    let mut arrivals = BTreeMap::new();
    let mut exp_line = BTreeMap::new();
    let mut lim = serde_json::Map::new();
    if !name_ok {
        viol.insert("name".to_string());
    }
    arrivals.insert("name".to_string(), Arr::Direct);
    exp_line.insert("name".to_string(), 1);
    for (&k, &i) in &surv {
        let (t, w) = &leaf[i];
        lim.insert(KEYS[k].to_string(), json!({"tag": t, "weight": w}));
        let rep = count[&k] > 1;
        let arr = match (rep, entries[i].alias_of.is_some()) {
            (true, false) => Arr::RepKeyDirect,
            (true, true) => Arr::RepKeyAlias,
            (false, false) => Arr::Direct,
            (false, true) => Arr::StructAlias,
        };
        for (f, ok, line) in [("tag", t.len() >= 2, lines[i].0), ("weight", *w >= 1, lines[i].1)] {
            let p = norm(&format!("limits.{}.{f}", KEYS[k]));
            if !ok {
                viol.insert(p.clone());
            }
            arrivals.insert(p.clone(), arr);
            exp_line.insert(p, line);
        }
    }
    let intended = json!({"name": name, "limits": J::Object(lim)});
    DmDoc { text, pol, viol, arrivals, intended: Some(intended), exp_line, repeated: count.values().any(|&c| c > 1) }
}

fn mirror_map_locs(r: &mm::MapRoot) -> Locs {
    let mut out = Locs::new();
    out.insert("name".into(), (loc(r.name.referenced), loc(r.name.defined)));
    for (k, l) in &r.limits {
        let l: &m::Leaf = l;
        out.insert(norm(&format!("limits.{k}.tag")), (loc(l.tag.referenced), loc(l.tag.defined)));
        out.insert(norm(&format!("limits.{k}.weight")), (loc(l.weight.referenced), loc(l.weight.defined)));
    }
    out
}

fn j1<T: serde::Serialize>(r: Result<T, Error>) -> Result<J, Error> {
    r.map(|x| serde_json::to_value(&x).expect("to_value"))
}

fn garde_verdict(r: &gm::MapRoot) -> BTreeSet<String> {
    use garde::Validate;
    match r.validate() {
        Ok(()) => BTreeSet::new(),
        Err(rep) => rep.iter().map(|(p, _)| norm(&p.to_string())).collect(),
    }
}

type Call = fn(&str, Options) -> Result<J, Error>;

fn garde_entries() -> Vec<(&'static str, Call, Call)> {
    vec![
        (
            "from_str_with_options_valid",
            |d, o| j1(serde_saphyr::from_str_with_options_valid::<gm::MapRoot>(d, o)),
            |d, o| j1(serde_saphyr::from_str_with_options::<gm::MapRoot>(d, o)),
        ),
        (
            "from_str_with_options_context_valid",
            |d, o| j1(serde_saphyr::from_str_with_options_context_valid::<gm::MapRoot>(d, o, &())),
            |d, o| j1(serde_saphyr::from_str_with_options::<gm::MapRoot>(d, o)),
        ),
        (
            "from_slice_with_options_valid",
            |d, o| j1(serde_saphyr::from_slice_with_options_valid::<gm::MapRoot>(d.as_bytes(), o)),
            |d, o| j1(serde_saphyr::from_slice_with_options::<gm::MapRoot>(d.as_bytes(), o)),
        ),
        (
            "from_reader_with_options_valid",
            |d, o| j1(serde_saphyr::from_reader_with_options_valid::<_, gm::MapRoot>(ChunkReader::new(d.as_bytes(), 5), o)),
            |d, o| j1(serde_saphyr::from_reader_with_options::<_, gm::MapRoot>(ChunkReader::new(d.as_bytes(), 5), o)),
        ),
    ]
}

fn validator_entries() -> Vec<(&'static str, Call, Call)> {
    vec![
        (
            "from_str_with_options_validate",
            |d, o| j1(serde_saphyr::from_str_with_options_validate::<vm::MapRoot>(d, o)),
            |d, o| j1(serde_saphyr::from_str_with_options::<vm::MapRoot>(d, o)),
        ),
        (
            "from_reader_with_options_validate",
            |d, o| j1(serde_saphyr::from_reader_with_options_validate::<_, vm::MapRoot>(ChunkReader::new(d.as_bytes(), 5), o)),
            |d, o| j1(serde_saphyr::from_reader_with_options::<_, vm::MapRoot>(ChunkReader::new(d.as_bytes(), 5), o)),
        ),
    ]
}

fn first_line(s: &str) -> String {
    s.lines().next().unwrap_or("").chars().take(200).collect()
}

pub fn check(run: &Run, d: &DmDoc, with_stream: bool) {
    let pol = d.pol;
    let cj = || json!({"kind": "dupmap", "doc": d.text, "policy": pol.name(), "viol": d.viol});
    let cx = Ctx { run, st: RefCell::new(BTreeMap::new()), crate_name: "garde", case: &cj, full: true };
    let done = |cx: &Ctx| cx.flush();

    // ---- guards
    let plain = match catch(|| serde_saphyr::from_str_with_options::<gm::MapRoot>(&d.text, mk(pol, 0))) {
        Ok(Ok(x)) => x,
        Ok(Err(_)) => {
            run.inconclusive("model: repeated-key document rejected by plain from_str_with_options");
            return done(&cx);
        }
        Err(p) => {
            cx.vio(&format!("C18:panic:{}", panic_site(&p)), "from_str_with_options", pol.name(), p);
            return done(&cx);
        }
    };
    let pj = serde_json::to_value(&plain).expect("to_value");
    if let Some(int) = &d.intended
        && &pj != int
    {
        run.inconclusive("model: repeated-key document: plain value differs from the value that should survive (C04 territory)");
        return done(&cx);
    }
    if garde_verdict(&plain) != d.viol {
        run.inconclusive("model: validation crate's verdict on the plain value differs from the chosen set");
        return done(&cx);
    }
    let mirror = match catch(|| serde_saphyr::from_str_with_options::<mm::MapRoot>(&d.text, mk(pol, 0))) {
        Ok(Ok(x)) => x,
        _ => {
            run.inconclusive("model: mirror (Spanned) parse failed");
            return done(&cx);
        }
    };
    let locs = mirror_map_locs(&mirror);
    for p in &d.viol {
        let Some((Some(r), Some(_))) = locs.get(p) else {
            run.inconclusive("model: mirror parse has no location for a violated leaf");
            return done(&cx);
        };
        if let Some(&want) = d.exp_line.get(p)
            && r.0 != want
        {
            run.inconclusive("model: mirror use site is not on the line of the surviving occurrence (C04/C16 territory)");
            return done(&cx);
        }
    }
    let lines: Vec<&str> = d.text.split('\n').collect();
    let short = lines.iter().all(|l| l.chars().count() <= 60);
    let no_decoys = BTreeMap::new();

    // ---- garde: full oracle
    for (name, call, plain_call) in garde_entries() {
        for variant in 0..2 {
            let ovn = if variant == 0 { pol.name().to_string() } else { format!("{} with_snippet=false", pol.name()) };
            run.eval();
            cx.c("calls/repeated-key-map");
            let r = match catch(|| call(&d.text, mk(pol, variant))) {
                Ok(r) => r,
                Err(p) => {
                    cx.vio(&format!("C18:panic:{}", panic_site(&p)), name, &ovn, p);
                    continue;
                }
            };
            if d.viol.is_empty() {
                match (r, catch(|| plain_call(&d.text, mk(pol, variant)))) {
                    (Ok(v), Ok(Ok(pv))) if v == pv && pv == pj => cx.c("valid_equals_plain/repeated-key-map"),
                    (_, Ok(Ok(pv))) if pv != pj => run.inconclusive("model: plain entry points disagree among themselves (C09 territory)"),
                    (_, Ok(Err(_))) | (_, Err(_)) => run.inconclusive("model: plain entry points disagree among themselves (C09 territory)"),
                    (Ok(v), Ok(Ok(pv))) => cx.vio("C18:valid-differs-from-plain:value", name, &ovn, format!("validating: {v} | plain: {pv}")),
                    (Err(e), Ok(Ok(_))) => cx.vio(
                        &format!("C18:valid-differs-from-plain:err-{}", kind(&e)),
                        name,
                        &ovn,
                        format!("validating: Err({}) | plain: Ok", first_line(&e.to_string())),
                    ),
                }
            } else {
                match r {
                    Ok(v) => cx.vio("C18:expected-validation-error:got-Ok", name, &ovn, format!("violated {:?} but got Ok({v})", d.viol)),
                    Err(e) => {
                        let x = Exp {
                            viol: &d.viol,
                            locs: &locs,
                            decoys: &no_decoys,
                            arrivals: &d.arrivals,
                            doc_lines: &lines,
                            window_check: short && variant == 0,
                        };
                        verify_error::<Garde>(&cx, name, &ovn, &e, &x, true);
                        cx.c("validation_errors_checked/repeated-key-map");
                    }
                }
            }
        }
    }

    // ---- garde: stream of the document twice (multi + iterator)
    if with_stream {
        let stream = format!("{}---\n{}", d.text, d.text);
        let mirrors = catch(|| serde_saphyr::from_multiple_with_options::<mm::MapRoot>(&stream, mk(pol, 0)));
        if let Ok(Ok(ms)) = mirrors
            && ms.len() == 2
        {
            let slocs: Vec<Locs> = ms.iter().map(mirror_map_locs).collect();
            let slines: Vec<&str> = stream.split('\n').collect();
            let name = "from_multiple_with_options_valid";
            run.eval();
            match catch(|| serde_saphyr::from_multiple_with_options_valid::<gm::MapRoot>(&stream, mk(pol, 0))) {
                Err(p) => cx.vio(&format!("C18:panic:{}", panic_site(&p)), name, pol.name(), p),
                Ok(Ok(vs)) => {
                    if !d.viol.is_empty() {
                        cx.vio("C18:stream:expected-validation-errors:got-Ok", name, pol.name(), format!("2 failing documents but Ok with {} values", vs.len()));
                    } else if vs.len() == 2 && vs.iter().all(|v| serde_json::to_value(v).ok().as_ref() == Some(&pj)) {
                        cx.c("valid_equals_plain/repeated-key-map/multi");
                    } else {
                        cx.vio("C18:stream:valid-differs-from-plain:value", name, pol.name(), format!("{vs:?} vs plain {pj} twice"));
                    }
                }
                Ok(Err(e)) => {
                    if d.viol.is_empty() {
                        cx.vio(&format!("C18:stream:valid-differs-from-plain:err-{}", kind(&e)), name, pol.name(), first_line(&e.to_string()));
                    } else {
                        match Garde::sub_errors(e.without_snippet()) {
                            Some(subs) if subs.len() == 2 => {
                                cx.c("stream_errors_count_ok");
                                for (j, s) in subs.iter().enumerate() {
                                    let x = Exp {
                                        viol: &d.viol,
                                        locs: &slocs[j],
                                        decoys: &no_decoys,
                                        arrivals: &d.arrivals,
                                        doc_lines: &slines,
                                        window_check: short,
                                    };
                                    verify_error::<Garde>(&cx, name, pol.name(), s, &x, true);
                                }
                            }
                            other => cx.vio(
                                "C18:stream:errors-count",
                                name,
                                pol.name(),
                                format!("2 failing documents but {:?} entries ({})", other.map(|s| s.len()), kind(&e)),
                            ),
                        }
                    }
                }
            }
            // iterator
            let name = "read_with_options_valid";
            run.eval();
            let items = catch(|| {
                let mut rd = ChunkReader::new(stream.as_bytes(), 7);
                let it = serde_saphyr::read_with_options_valid::<_, gm::MapRoot>(&mut rd, mk(pol, 0));
                it.take(5).map(j1).collect::<Vec<_>>()
            });
            match items {
                Err(p) => cx.vio(&format!("C18:panic:{}", panic_site(&p)), name, pol.name(), p),
                Ok(items) => {
                    if items.len() != 2 {
                        cx.vio("C18:iter:item-count", name, pol.name(), format!("2 documents but {} items", items.len()));
                    } else {
                        for (j, it) in items.iter().enumerate() {
                            match (it, d.viol.is_empty()) {
                                (Ok(v), true) if v == &pj => cx.c("iter_item_equals_plain"),
                                (Ok(v), true) => cx.vio("C18:iter:valid-differs-from-plain:value", name, pol.name(), format!("doc {j}: {v} vs {pj}")),
                                (Err(e), true) => cx.vio(&format!("C18:iter:valid-differs-from-plain:err-{}", kind(e)), name, pol.name(), first_line(&e.to_string())),
                                (Ok(v), false) => cx.vio("C18:iter:expected-validation-error:got-Ok", name, pol.name(), format!("doc {j}: Ok({v})")),
                                (Err(e), false) => {
                                    let x = Exp {
                                        viol: &d.viol,
                                        locs: &slocs[j],
                                        decoys: &no_decoys,
                                        arrivals: &d.arrivals,
                                        doc_lines: &slines,
                                        window_check: false,
                                    };
                                    verify_error::<Garde>(&cx, name, pol.name(), e, &x, true);
                                    cx.c("iter_err_items_checked");
                                }
                            }
                        }
                    }
                }
            }
        } else {
            run.inconclusive("model: mirror (Spanned) stream parse failed");
        }
    }
    cx.c("cases/repeated-key-map");
    if d.repeated {
        cx.c("cases/repeated-key-map/with-repeated-key");
    }
    if !d.viol.is_empty() || d.repeated {
        run.nontrivial(fnv_parts(&[d.text.as_bytes(), pol.name().as_bytes(), b"garde-map"]));
    }
    cx.flush();

    // ---- validator: map entries are reported by iteration index, not by key
    let cxv = Ctx { run, st: RefCell::new(BTreeMap::new()), crate_name: "validator", case: &cj, full: true };
    for (name, call, _plain) in validator_entries() {
        run.eval();
        cxv.c("calls/repeated-key-map");
        match catch(|| call(&d.text, mk(pol, 0))) {
            Err(p) => cxv.vio(&format!("C18:panic:{}", panic_site(&p)), name, pol.name(), p),
            Ok(Ok(v)) => {
                if !d.viol.is_empty() {
                    cxv.vio("C18:expected-validation-error:got-Ok", name, pol.name(), format!("violated {:?} but got Ok({v})", d.viol));
                } else if v == pj {
                    cxv.c("valid_equals_plain/repeated-key-map");
                } else {
                    cxv.vio("C18:valid-differs-from-plain:value", name, pol.name(), format!("validating: {v} | plain: {pj}"));
                }
            }
            Ok(Err(e)) => {
                let k = kind(e.without_snippet());
                if d.viol.is_empty() {
                    cxv.vio(&format!("C18:valid-differs-from-plain:err-{k}"), name, pol.name(), first_line(&e.to_string()));
                } else if k != "ValidatorError" {
                    cxv.vio(&format!("C18:expected-validation-error:got-{k}"), name, pol.name(), first_line(&e.to_string()));
                } else {
                    cxv.c("unspecified/validator-reports-map-entries-by-index-not-key");
                }
            }
        }
    }
    cxv.flush();
}
