//! Observers over the public rendering surface: a recording `Localizer` passed
//! through a custom `MessageFormatter`, a parser of its call log into per-issue
//! records, and scanners over the rendered text.

use crate::types::{Loc, loc, norm};
use serde_saphyr::localizer::Localizer;
use serde_saphyr::{Error, Location, MessageFormatter, RenderOptions, SnippetMode};
use std::borrow::Cow;
use std::cell::RefCell;
use std::collections::BTreeSet;

#[derive(Clone, Debug)]
pub enum Ev {
    /// plain mode: validation_issue_line(resolved_path, entry, loc)
    IssueLine(String, Option<Loc>),
    /// snippet mode: validation_base_message(entry, resolved_path)
    Base(String),
    Prefix(Option<Loc>),
    Attach(Option<Loc>),
    ComesFrom(Option<Loc>),
    DefinedHere,
}

#[derive(Default)]
pub struct Rec {
    pub log: RefCell<Vec<Ev>>,
}

impl Localizer for Rec {
    fn attach_location<'a>(&self, base: Cow<'a, str>, l: Location) -> Cow<'a, str> {
        self.log.borrow_mut().push(Ev::Attach(loc(l)));
        if l == Location::UNKNOWN {
            base
        } else {
            Cow::Owned(format!("{base} at line {}, column {}", l.line(), l.column()))
        }
    }
    fn validation_issue_line(&self, p: &str, e: &str, l: Option<Location>) -> String {
        self.log.borrow_mut().push(Ev::IssueLine(p.to_string(), l.and_then(loc)));
        match l {
            Some(l) if l != Location::UNKNOWN => {
                format!("validation error at {p}: {e} at line {}, column {}", l.line(), l.column())
            }
            _ => format!("validation error at {p}: {e}"),
        }
    }
    fn validation_base_message(&self, e: &str, p: &str) -> String {
        self.log.borrow_mut().push(Ev::Base(p.to_string()));
        format!("validation error: {e} for `{p}`")
    }
    fn value_comes_from_the_anchor(&self, d: Location) -> String {
        self.log.borrow_mut().push(Ev::ComesFrom(loc(d)));
        format!("  | This value comes indirectly from the anchor at line {} column {}:", d.line(), d.column())
    }
    fn snippet_location_prefix(&self, l: Location) -> String {
        self.log.borrow_mut().push(Ev::Prefix(loc(l)));
        if l == Location::UNKNOWN { String::new() } else { format!("line {} column {}", l.line(), l.column()) }
    }
    fn defined_here(&self) -> Cow<'static, str> {
        self.log.borrow_mut().push(Ev::DefinedHere);
        Cow::Borrowed("(defined here)")
    }
}

struct Fmt<'a>(&'a Rec, bool);
impl MessageFormatter for Fmt<'_> {
    fn localizer(&self) -> &dyn Localizer {
        self.0
    }
    fn format_message<'a>(&self, err: &'a Error) -> Cow<'a, str> {
        // built-in developer / user wording, routed through the recording localizer
        if self.1 {
            Cow::Owned(serde_saphyr::UserMessageFormatter.with_localizer(self.0).format_message(err).into_owned())
        } else {
            Cow::Owned(serde_saphyr::DefaultMessageFormatter.with_localizer(self.0).format_message(err).into_owned())
        }
    }
}

/// Render `e` with the recording localizer behind the developer (`user == false`) or the
/// user-facing built-in formatter; returns (text, call log).
pub fn render_recorded(e: &Error, mode: SnippetMode, user: bool) -> (String, Vec<Ev>) {
    let rec = Rec::default();
    let text = {
        let f = Fmt(&rec, user);
        let mut ro = RenderOptions::new(&f);
        ro.snippets = mode;
        e.render_with_options(ro)
    };
    (text, rec.log.into_inner())
}

#[derive(Clone, Debug, PartialEq)]
pub enum DefObs {
    /// plain mode: the renderer does not pass/print the definition site
    Unobservable,
    /// snippet mode, no "comes from the anchor" line: definition == use site (or unknown)
    Same,
    Anchor(Option<Loc>),
}

#[derive(Clone, Debug)]
pub struct Issue {
    pub path: String, // normalised
    pub raw_path: String,
    pub primary: Option<Loc>,
    pub def: DefObs,
    /// snippet window rendered for the primary location (snippet_location_prefix was called)
    pub windowed: bool,
    pub defined_here: bool,
    pub snippet_mode: bool,
}

pub fn parse_log(log: &[Ev]) -> Vec<Issue> {
    let mut out: Vec<Issue> = Vec::new();
    let mut expects_loc = false;
    let mut dh = false;
    for ev in log {
        match ev {
            Ev::IssueLine(p, l) => {
                expects_loc = false;
                out.push(Issue {
                    path: norm(p),
                    raw_path: p.clone(),
                    primary: *l,
                    def: DefObs::Unobservable,
                    windowed: false,
                    defined_here: false,
                    snippet_mode: false,
                });
            }
            Ev::Base(p) => {
                expects_loc = true;
                dh = false;
                out.push(Issue {
                    path: norm(p),
                    raw_path: p.clone(),
                    primary: None,
                    def: DefObs::Same,
                    windowed: false,
                    defined_here: false,
                    snippet_mode: true,
                });
            }
            Ev::DefinedHere => dh = true,
            Ev::Prefix(l) | Ev::Attach(l) => {
                if expects_loc && let Some(cur) = out.last_mut() {
                    cur.primary = *l;
                    cur.windowed = matches!(ev, Ev::Prefix(_));
                    cur.defined_here = dh;
                    expects_loc = false;
                }
            }
            Ev::ComesFrom(d) => {
                if let Some(cur) = out.last_mut()
                    && cur.snippet_mode
                {
                    cur.def = DefObs::Anchor(*d);
                }
                expects_loc = false;
            }
        }
    }
    out
}

/// All `line N column M` / `line N, column M` pairs in a rendered text.
pub fn text_pairs(s: &str) -> BTreeSet<(u64, u64)> {
    let mut out = BTreeSet::new();
    let b = s.as_bytes();
    let mut i = 0;
    while let Some(p) = s[i..].find("line ") {
        let mut j = i + p + 5;
        i = j;
        let st = j;
        while j < b.len() && b[j].is_ascii_digit() {
            j += 1;
        }
        if j == st {
            continue;
        }
        let Ok(l) = s[st..j].parse::<u64>() else { continue };
        if j < b.len() && b[j] == b',' {
            j += 1;
        }
        if !s[j..].starts_with(" column ") {
            continue;
        }
        j += 8;
        let st2 = j;
        while j < b.len() && b[j].is_ascii_digit() {
            j += 1;
        }
        if j == st2 {
            continue;
        }
        if let Ok(c) = s[st2..j].parse::<u64>() {
            out.insert((l, c));
        }
        i = j;
    }
    out
}

/// Does `text` contain a snippet window showing source line `l` verbatim with a
/// caret under column `c`?
pub fn window_shows(text: &str, doc_lines: &[&str], l: u64, c: u64) -> bool {
    let Some(src) = doc_lines.get((l as usize).wrapping_sub(1)) else { return false };
    let lines: Vec<&str> = text.lines().collect();
    let head = format!("{l} | ");
    let caret = format!("{}^", " ".repeat((c as usize).saturating_sub(1)));
    for i in 0..lines.len().saturating_sub(1) {
        let t = lines[i].trim_start();
        if let Some(rest) = t.strip_prefix(&head)
            && rest == *src
        {
            let n = lines[i + 1].trim_start();
            if let Some(r2) = n.strip_prefix("| ")
                && r2.starts_with(&caret)
            {
                return true;
            }
        }
    }
    false
}
