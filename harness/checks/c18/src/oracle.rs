//! Entry-point tables for both validation crates and the oracles.

use crate::docgen::Arr;
use crate::obsv::{DefObs, Issue, parse_log, render_recorded, text_pairs, window_shows};
use crate::types::{Loc, g, loc, m, mirror_locs, norm, v};
use serde_json::{Value as J, json};
use serde_saphyr::{Error, Options, SnippetMode};
use std::cell::RefCell;
use std::collections::{BTreeMap, BTreeSet};
use vcore::errs::kind;
use vcore::obs::{catch, panic_site};
use vcore::run::Run;

#[derive(Clone, Copy, Debug, PartialEq, Eq)]
pub enum OptVar {
    Default,
    NoSnippet,
    Radius0,
    Radius5,
    LastWins,
    FirstWins,
}

impl OptVar {
    pub fn name(self) -> &'static str {
        match self {
            OptVar::Default => "default",
            OptVar::NoSnippet => "with_snippet=false",
            OptVar::Radius0 => "crop_radius=0",
            OptVar::Radius5 => "crop_radius=5",
            OptVar::LastWins => "duplicate_keys=LastWins",
            OptVar::FirstWins => "duplicate_keys=FirstWins",
        }
    }
    pub const ALL: [OptVar; 6] =
        [OptVar::Default, OptVar::NoSnippet, OptVar::Radius0, OptVar::Radius5, OptVar::LastWins, OptVar::FirstWins];
}

pub fn mk_opts(ov: OptVar) -> Options {
    let mut o = Options::default();
    #[allow(deprecated)]
    match ov {
        OptVar::Default => {}
        OptVar::NoSnippet => o.with_snippet = false,
        OptVar::Radius0 => o.crop_radius = 0,
        OptVar::Radius5 => o.crop_radius = 5,
        OptVar::LastWins => o.duplicate_keys = serde_saphyr::DuplicateKeyPolicy::LastWins,
        OptVar::FirstWins => o.duplicate_keys = serde_saphyr::DuplicateKeyPolicy::FirstWins,
    }
    o
}

pub struct ChunkReader<'a> {
    data: &'a [u8],
    pos: usize,
    chunk: usize,
}
impl<'a> ChunkReader<'a> {
    pub fn new(data: &'a [u8], chunk: usize) -> Self {
        ChunkReader { data, pos: 0, chunk: chunk.max(1) }
    }
}
impl std::io::Read for ChunkReader<'_> {
    fn read(&mut self, buf: &mut [u8]) -> std::io::Result<usize> {
        let n = self.chunk.min(buf.len()).min(self.data.len() - self.pos);
        buf[..n].copy_from_slice(&self.data[self.pos..self.pos + n]);
        self.pos += n;
        Ok(n)
    }
}

pub type R1 = Result<J, Error>;
pub type RN = Result<Vec<J>, Error>;

fn j1<T: serde::Serialize>(r: Result<T, Error>) -> R1 {
    r.map(|x| serde_json::to_value(&x).expect("to_value"))
}
fn jn<T: serde::Serialize>(r: Result<Vec<T>, Error>) -> RN {
    r.map(|xs| xs.iter().map(|x| serde_json::to_value(x).expect("to_value")).collect())
}
fn collect_iter<T: serde::Serialize>(it: impl Iterator<Item = Result<T, Error>>, max: usize) -> (Vec<R1>, bool) {
    let mut out = Vec::new();
    let mut it = it;
    for _ in 0..max {
        match it.next() {
            Some(x) => out.push(j1(x)),
            None => return (out, true),
        }
    }
    (out, false)
}

pub struct Single {
    pub name: &'static str,
    pub with_opts: bool,
    pub reader: bool,
    pub call: fn(&str, OptVar, usize) -> R1,
    pub plain_name: &'static str,
    pub plain: fn(&str, OptVar, usize) -> R1,
}
pub struct Multi {
    pub name: &'static str,
    pub with_opts: bool,
    pub call: fn(&str, OptVar) -> RN,
    pub plain: fn(&str, OptVar) -> RN,
}
pub struct IterE {
    pub name: &'static str,
    pub with_opts: bool,
    pub call: fn(&str, OptVar, usize, usize) -> (Vec<R1>, bool),
    pub plain: fn(&str, OptVar, usize, usize) -> (Vec<R1>, bool),
}

pub trait Crate {
    const NAME: &'static str;
    const KIND: &'static str;
    const MULTI_KIND: &'static str;
    /// plain parse + direct validation with the validation crate: (value, normalised failing paths)
    fn plain_and_verdict(doc: &str) -> Result<(J, BTreeSet<String>), Error>;
    fn plain_multi_and_verdict(doc: &str) -> Result<Vec<(J, BTreeSet<String>)>, Error>;
    fn report_paths(e: &Error) -> Option<Vec<String>>;
    fn sub_errors(e: &Error) -> Option<&[Error]>;
    fn singles() -> Vec<Single>;
    fn multis() -> Vec<Multi>;
    fn iters() -> Vec<IterE>;
}

fn validator_paths(errs: &validator::ValidationErrors, prefix: &str, out: &mut Vec<String>) {
    use validator::ValidationErrorsKind as K;
    for (field, k) in errs.errors() {
        let p = if prefix.is_empty() { field.to_string() } else { format!("{prefix}.{field}") };
        match k {
            K::Field(es) => {
                for _ in es {
                    out.push(p.clone());
                }
            }
            K::Struct(b) => validator_paths(b, &p, out),
            K::List(l) => {
                for (i, b) in l {
                    validator_paths(b, &format!("{p}[{i}]"), out);
                }
            }
        }
    }
}

macro_rules! impl_crate {
    ($C:ident, $m:ident, $name:literal, $kind:literal, $mkind:literal, $verdict:expr, $report:expr, $sub:expr,
     $str:ident, $str_o:ident, $slice:ident, $slice_o:ident, $rd:ident, $rd_o:ident,
     $mul:ident, $mul_o:ident, $smul_o:ident, $it:ident, $it_o:ident, $extra:expr) => {
        pub struct $C;
        impl Crate for $C {
            const NAME: &'static str = $name;
            const KIND: &'static str = $kind;
            const MULTI_KIND: &'static str = $mkind;
            fn plain_and_verdict(doc: &str) -> Result<(J, BTreeSet<String>), Error> {
                let r: $m::Root = serde_saphyr::from_str(doc)?;
                let f: fn(&$m::Root) -> BTreeSet<String> = $verdict;
                Ok((serde_json::to_value(&r).expect("to_value"), f(&r)))
            }
            fn plain_multi_and_verdict(doc: &str) -> Result<Vec<(J, BTreeSet<String>)>, Error> {
                let rs: Vec<$m::Root> = serde_saphyr::from_multiple(doc)?;
                let f: fn(&$m::Root) -> BTreeSet<String> = $verdict;
                Ok(rs.iter().map(|r| (serde_json::to_value(r).expect("to_value"), f(r))).collect())
            }
            fn report_paths(e: &Error) -> Option<Vec<String>> {
                let f: fn(&Error) -> Option<Vec<String>> = $report;
                f(e)
            }
            fn sub_errors(e: &Error) -> Option<&[Error]> {
                let f: fn(&Error) -> Option<&[Error]> = $sub;
                f(e)
            }
            fn singles() -> Vec<Single> {
                let mut v = vec![
                    Single {
                        name: stringify!($str),
                        with_opts: false,
                        reader: false,
                        call: |d, _, _| j1(serde_saphyr::$str::<$m::Root>(d)),
                        plain_name: "from_str",
                        plain: |d, _, _| j1(serde_saphyr::from_str::<$m::Root>(d)),
                    },
                    Single {
                        name: stringify!($str_o),
                        with_opts: true,
                        reader: false,
                        call: |d, o, _| j1(serde_saphyr::$str_o::<$m::Root>(d, mk_opts(o))),
                        plain_name: "from_str_with_options",
                        plain: |d, o, _| j1(serde_saphyr::from_str_with_options::<$m::Root>(d, mk_opts(o))),
                    },
                    Single {
                        name: stringify!($slice),
                        with_opts: false,
                        reader: false,
                        call: |d, _, _| j1(serde_saphyr::$slice::<$m::Root>(d.as_bytes())),
                        plain_name: "from_slice",
                        plain: |d, _, _| j1(serde_saphyr::from_slice::<$m::Root>(d.as_bytes())),
                    },
                    Single {
                        name: stringify!($slice_o),
                        with_opts: true,
                        reader: false,
                        call: |d, o, _| j1(serde_saphyr::$slice_o::<$m::Root>(d.as_bytes(), mk_opts(o))),
                        plain_name: "from_slice_with_options",
                        plain: |d, o, _| j1(serde_saphyr::from_slice_with_options::<$m::Root>(d.as_bytes(), mk_opts(o))),
                    },
                    Single {
                        name: stringify!($rd),
                        with_opts: false,
                        reader: true,
                        call: |d, _, c| j1(serde_saphyr::$rd::<_, $m::Root>(ChunkReader::new(d.as_bytes(), c))),
                        plain_name: "from_reader",
                        plain: |d, _, c| j1(serde_saphyr::from_reader::<_, $m::Root>(ChunkReader::new(d.as_bytes(), c))),
                    },
                    Single {
                        name: stringify!($rd_o),
                        with_opts: true,
                        reader: true,
                        call: |d, o, c| j1(serde_saphyr::$rd_o::<_, $m::Root>(ChunkReader::new(d.as_bytes(), c), mk_opts(o))),
                        plain_name: "from_reader_with_options",
                        plain: |d, o, c| {
                            j1(serde_saphyr::from_reader_with_options::<_, $m::Root>(ChunkReader::new(d.as_bytes(), c), mk_opts(o)))
                        },
                    },
                ];
                let extra: Vec<Single> = $extra;
                v.extend(extra);
                v
            }
            fn multis() -> Vec<Multi> {
                vec![
                    Multi {
                        name: stringify!($mul),
                        with_opts: false,
                        call: |d, _| jn(serde_saphyr::$mul::<$m::Root>(d)),
                        plain: |d, _| jn(serde_saphyr::from_multiple::<$m::Root>(d)),
                    },
                    Multi {
                        name: stringify!($mul_o),
                        with_opts: true,
                        call: |d, o| jn(serde_saphyr::$mul_o::<$m::Root>(d, mk_opts(o))),
                        plain: |d, o| jn(serde_saphyr::from_multiple_with_options::<$m::Root>(d, mk_opts(o))),
                    },
                    Multi {
                        name: stringify!($smul_o),
                        with_opts: true,
                        call: |d, o| jn(serde_saphyr::$smul_o::<$m::Root>(d.as_bytes(), mk_opts(o))),
                        plain: |d, o| jn(serde_saphyr::from_slice_multiple_with_options::<$m::Root>(d.as_bytes(), mk_opts(o))),
                    },
                ]
            }
            fn iters() -> Vec<IterE> {
                vec![
                    IterE {
                        name: stringify!($it),
                        with_opts: false,
                        call: |d, _, c, max| {
                            let mut rd = ChunkReader::new(d.as_bytes(), c);
                            collect_iter(serde_saphyr::$it::<_, $m::Root>(&mut rd), max)
                        },
                        plain: |d, _, c, max| {
                            let mut rd = ChunkReader::new(d.as_bytes(), c);
                            collect_iter(serde_saphyr::read::<_, $m::Root>(&mut rd), max)
                        },
                    },
                    IterE {
                        name: stringify!($it_o),
                        with_opts: true,
                        call: |d, o, c, max| {
                            let mut rd = ChunkReader::new(d.as_bytes(), c);
                            collect_iter(serde_saphyr::$it_o::<_, $m::Root>(&mut rd, mk_opts(o)), max)
                        },
                        plain: |d, o, c, max| {
                            let mut rd = ChunkReader::new(d.as_bytes(), c);
                            collect_iter(serde_saphyr::read_with_options::<_, $m::Root>(&mut rd, mk_opts(o)), max)
                        },
                    },
                ]
            }
        }
    };
}

impl_crate!(
    Garde,
    g,
    "garde",
    "ValidationError",
    "ValidationErrors",
    |r| {
        use garde::Validate;
        match r.validate() {
            Ok(()) => BTreeSet::new(),
            Err(rep) => rep.iter().map(|(p, _)| norm(&p.to_string().replace("r#", ""))).collect(),
        }
    },
    |e| match e {
        Error::ValidationError { report, .. } => Some(report.iter().map(|(p, _)| norm(&p.to_string().replace("r#", ""))).collect()),
        _ => None,
    },
    |e| match e {
        Error::ValidationErrors { errors } => Some(errors.as_slice()),
        _ => None,
    },
    from_str_valid,
    from_str_with_options_valid,
    from_slice_valid,
    from_slice_with_options_valid,
    from_reader_valid,
    from_reader_with_options_valid,
    from_multiple_valid,
    from_multiple_with_options_valid,
    from_slice_multiple_with_options_valid,
    read_valid,
    read_with_options_valid,
    vec![Single {
        name: "from_str_with_options_context_valid",
        with_opts: true,
        reader: false,
        call: |d, o, _| j1(serde_saphyr::from_str_with_options_context_valid::<g::Root>(d, mk_opts(o), &())),
        plain_name: "from_str_with_options",
        plain: |d, o, _| j1(serde_saphyr::from_str_with_options::<g::Root>(d, mk_opts(o))),
    }]
);

impl_crate!(
    Validator,
    v,
    "validator",
    "ValidatorError",
    "ValidatorErrors",
    |r| {
        use validator::Validate;
        match r.validate() {
            Ok(()) => BTreeSet::new(),
            Err(errs) => {
                let mut out = Vec::new();
                validator_paths(&errs, "", &mut out);
                out.iter().map(|p| norm(&p.replace("r#", ""))).collect()
            }
        }
    },
    |e| match e {
        Error::ValidatorError { errors, .. } => {
            let mut out = Vec::new();
            validator_paths(errors, "", &mut out);
            Some(out.iter().map(|p| norm(&p.replace("r#", ""))).collect())
        }
        _ => None,
    },
    |e| match e {
        Error::ValidatorErrors { errors } => Some(errors.as_slice()),
        _ => None,
    },
    from_str_validate,
    from_str_with_options_validate,
    from_slice_validate,
    from_slice_with_options_validate,
    from_reader_validate,
    from_reader_with_options_validate,
    from_multiple_validate,
    from_multiple_with_options_validate,
    from_slice_multiple_with_options_validate,
    read_validate,
    read_with_options_validate,
    Vec::new()
);

// ------------------------------------------------------------------ context

pub struct Ctx<'a> {
    pub run: &'a Run,
    pub st: RefCell<BTreeMap<&'static str, u64>>,
    pub crate_name: &'static str,
    pub case: &'a dyn Fn() -> J,
    /// how heavy the per-error checks are: true = all renders on every entry point
    pub full: bool,
}

impl Ctx<'_> {
    pub fn c(&self, k: &'static str) {
        *self.st.borrow_mut().entry(k).or_insert(0) += 1;
    }
    pub fn vio(&self, sig: &str, entry: &str, ov: &str, detail: String) {
        // A defect in the recorder fails hundreds of thousands of cases; keep the first few
        // witnesses per signature and only count the rest (Run::violation is O(#violations)).
        {
            static CAP: std::sync::Mutex<BTreeMap<String, u32>> = std::sync::Mutex::new(BTreeMap::new());
            let mut cap = CAP.lock().unwrap();
            let n = cap.entry(format!("{sig}:{}", self.crate_name)).or_insert(0);
            *n += 1;
            if *n > 12 {
                drop(cap);
                self.c("violations_beyond_first_12_per_signature(not filed)");
                return;
            }
        }
        let mut cj = (self.case)();
        cj["crate"] = json!(self.crate_name);
        cj["entry"] = json!(entry);
        cj["optvar"] = json!(ov);
        self.run.violation(&format!("{sig}:{}", self.crate_name), cj, format!("[{entry} {ov}] {detail}"));
    }
    pub fn flush(&self) {
        self.run.count_map(&self.st.borrow());
        self.st.borrow_mut().clear();
    }
}

pub type Locs = BTreeMap<String, (Option<Loc>, Option<Loc>)>;

pub struct Exp<'a> {
    pub viol: &'a BTreeSet<String>,
    pub locs: &'a Locs,
    pub decoys: &'a BTreeMap<String, String>,
    pub arrivals: &'a BTreeMap<String, Arr>,
    pub doc_lines: &'a [&'a str],
    pub window_check: bool,
}

fn arr_label(x: &Exp, p: &str) -> &'static str {
    x.arrivals.get(p).map(|a| a.name()).unwrap_or("unknown")
}

fn check_issue(cx: &Ctx, entry: &str, ov: &str, is: &Issue, x: &Exp) {
    let Some((er, ed)) = x.locs.get(&is.path) else { return };
    match x.decoys.get(&is.path).map(|s| s.as_str()) {
        Some("early") => {
            cx.c("unspecified/decoy-key-matches-at-earlier-pass");
            return;
        }
        Some("tie") => {
            if is.primary.is_none() {
                cx.c("unspecified/ambiguous-lookup-location-unknown");
                return;
            }
            cx.c("decoy_tie_resolved");
        }
        Some(_) => cx.c("decoy_later_pass_or_direct_checked"),
        None => {}
    }
    let arr = arr_label(x, &is.path);
    let mode = if is.snippet_mode { "snippet" } else { "plain" };
    if is.primary.is_none() {
        cx.vio(
            &format!("C18:use-site-location-missing:{arr}"),
            entry,
            ov,
            format!("path {} ({mode} mode): no location reported, mirror referenced={er:?} defined={ed:?}", is.raw_path),
        );
        return;
    }
    let want = if is.defined_here { ed } else { er };
    if is.primary != *want {
        cx.vio(
            &format!("C18:use-site-location-wrong:{arr}"),
            entry,
            ov,
            format!("path {} ({mode} mode): reported {:?}, mirror referenced={er:?} defined={ed:?}", is.raw_path, is.primary),
        );
        return;
    }
    cx.c(match arr {
        "direct" => "use_site_ok/direct",
        "scalar-alias" => "use_site_ok/scalar-alias",
        "struct-alias" => "use_site_ok/struct-alias",
        "list-alias" => "use_site_ok/list-alias",
        "merge" => "use_site_ok/merge",
        "repeated-key-direct" => "use_site_ok/repeated-key-direct",
        "repeated-key-alias" => "use_site_ok/repeated-key-alias",
        _ => "use_site_ok/unknown-arrival",
    });
    match &is.def {
        DefObs::Unobservable => cx.c("unspecified/definition-site-not-exposed-in-plain-rendering"),
        DefObs::Same => {
            if ed != er && ed.is_some() {
                cx.vio(
                    &format!("C18:definition-site-missing:{arr}"),
                    entry,
                    ov,
                    format!("path {}: rendered as defined where used ({er:?}), mirror defined={ed:?}", is.raw_path),
                );
            } else {
                cx.c("def_site_ok/same-as-use-site");
            }
        }
        DefObs::Anchor(d) => {
            if d != ed {
                cx.vio(
                    &format!("C18:definition-site-wrong:{arr}"),
                    entry,
                    ov,
                    format!("path {}: anchor reported at {d:?}, mirror defined={ed:?} (referenced={er:?})", is.raw_path),
                );
            } else {
                cx.c(match arr {
                    "scalar-alias" => "def_site_ok/scalar-alias",
                    "struct-alias" => "def_site_ok/struct-alias",
                    "list-alias" => "def_site_ok/list-alias",
                    "merge" => "def_site_ok/merge",
                    "repeated-key-alias" => "def_site_ok/repeated-key-alias",
                    _ => "def_site_ok/other",
                });
            }
        }
    }
}

/// Everything that can be checked on one ValidationError / ValidatorError.
pub fn verify_error<C: Crate>(cx: &Ctx, entry: &str, ov: &str, e: &Error, x: &Exp, heavy: bool) {
    let inner = e.without_snippet();
    let k = kind(inner);
    cx.run.observe("error_kinds", &k);
    if k != C::KIND {
        cx.vio(
            &format!("C18:expected-validation-error:got-{k}"),
            entry,
            ov,
            format!("violated {:?}, error: {}", x.viol, first_line(&e.to_string())),
        );
        return;
    }
    // 1. the validation crate's own report inside the error
    let rp: BTreeSet<String> = C::report_paths(inner).unwrap_or_default().into_iter().collect();
    if &rp != x.viol {
        cx.vio("C18:report-paths-differ", entry, ov, format!("report {rp:?} vs chosen {:?}", x.viol));
        return;
    }
    let decoy_hit = x.viol.iter().any(|p| matches!(x.decoys.get(p).map(|s| s.as_str()), Some("tie") | Some("early")));
    let want_paths: Vec<&String> = x.viol.iter().collect();

    // 2./3. recording localizer, plain and snippet rendering
    let mut auto: Option<(String, Vec<Issue>)> = None;
    // (snippet mode, user-facing formatter?) — developer formatter in both modes, user formatter in Auto
    let modes: &[(SnippetMode, bool)] = if heavy {
        &[(SnippetMode::Off, false), (SnippetMode::Auto, true), (SnippetMode::Auto, false)]
    } else {
        &[(SnippetMode::Auto, false)]
    };
    for &(mode, user) in modes {
        let (text, log) = match catch(|| render_recorded(e, mode, user)) {
            Ok(x) => x,
            Err(p) => {
                cx.vio(&format!("C18:panic:{}", panic_site(&p)), entry, ov, p);
                return;
            }
        };
        cx.c("renders_recorded");
        let issues = parse_log(&log);
        let mut got: Vec<&String> = issues.iter().map(|i| &i.path).collect();
        got.sort();
        if got != want_paths {
            let lbl = if issues.iter().any(|i| i.snippet_mode) { "snippet" } else { "plain" };
            cx.vio(
                &format!("C18:rendered-paths-differ:{lbl}"),
                entry,
                ov,
                format!("rendered {:?} vs chosen {:?}", issues.iter().map(|i| &i.raw_path).collect::<Vec<_>>(), x.viol),
            );
            return;
        }
        for is in &issues {
            check_issue(cx, entry, ov, is, x);
            if is.snippet_mode {
                cx.c(if is.windowed { "snippet_issue_with_window" } else { "snippet_issue_without_window(fallback)" });
            }
        }
        cx.c(if user { "renders_recorded/user-formatter" } else { "renders_recorded/developer-formatter" });
        if mode == SnippetMode::Auto && !user {
            auto = Some((text, issues));
        }
    }
    if decoy_hit {
        return;
    }
    let refs: BTreeSet<Option<Loc>> = x.viol.iter().filter_map(|p| x.locs.get(p)).map(|l| l.0).collect();
    let pairs: BTreeSet<(Option<Loc>, Option<Loc>)> = x.viol.iter().filter_map(|p| x.locs.get(p)).copied().collect();

    // 4. Error::locations() / Error::location(): pair of the first entry
    match e.locations() {
        None => cx.vio("C18:error-locations-missing", entry, ov, format!("Error::locations() is None; expected one of {pairs:?}")),
        Some(l) => {
            let got = (loc(l.reference_location), loc(l.defined_location));
            if !pairs.contains(&got) {
                cx.vio("C18:error-locations-wrong", entry, ov, format!("Error::locations() = {got:?}; expected one of {pairs:?}"));
            } else {
                cx.c("error_locations_ok");
            }
        }
    }
    match e.location() {
        None => cx.vio("C18:error-location-missing", entry, ov, "Error::location() is None".to_string()),
        Some(l) => {
            if !refs.contains(&loc(l)) {
                cx.vio("C18:error-location-wrong", entry, ov, format!("Error::location() = {:?}; expected one of {refs:?}", loc(l)));
            }
        }
    }
    if !heavy {
        return;
    }
    // 5. default rendering: `line N column M` text
    let text = match catch(|| e.to_string()) {
        Ok(t) => t,
        Err(p) => {
            cx.vio(&format!("C18:panic:{}", panic_site(&p)), entry, ov, p);
            return;
        }
    };
    let tp = text_pairs(&text);
    let lc = |l: &Option<Loc>| l.map(|l| (l.0, l.1));
    let ref_lc: BTreeSet<(u64, u64)> = pairs.iter().filter_map(|p| lc(&p.0)).collect();
    let def_lc: BTreeSet<(u64, u64)> = pairs.iter().filter(|p| p.0 != p.1).filter_map(|p| lc(&p.1)).collect();
    let missing: Vec<_> = ref_lc.difference(&tp).collect();
    if !missing.is_empty() {
        cx.vio("C18:text-use-site-missing", entry, ov, format!("use sites {missing:?} not in text; text has {tp:?}"));
    }
    let allowed: BTreeSet<(u64, u64)> = ref_lc.union(&def_lc).copied().collect();
    let extra: Vec<_> = tp.difference(&allowed).collect();
    if !extra.is_empty() {
        cx.vio("C18:text-unexpected-location", entry, ov, format!("text mentions {extra:?}; expected only {allowed:?}"));
    }
    if let Some((atext, issues)) = &auto {
        if issues.iter().any(|i| i.snippet_mode) {
            let dmiss: Vec<_> = def_lc.difference(&tp).collect();
            if !dmiss.is_empty() {
                cx.vio("C18:text-definition-site-missing", entry, ov, format!("definition sites {dmiss:?} not in snippet text; text has {tp:?}"));
            } else if !def_lc.is_empty() {
                cx.c("text_definition_sites_ok");
            }
        }
        // 6. the snippet window shown for an issue is the line of that issue
        if x.window_check {
            for is in issues.iter().filter(|i| i.windowed) {
                if let Some(l) = is.primary {
                    if window_shows(atext, x.doc_lines, l.0, l.1) {
                        cx.c("snippet_window_shows_issue_line");
                    } else {
                        cx.vio(
                            "C18:snippet-window-wrong",
                            entry,
                            ov,
                            format!("no window with source line {} and caret at column {} for {}:\n{atext}", l.0, l.1, is.raw_path),
                        );
                    }
                }
            }
        }
    }
    cx.c("texts_scanned");
}

fn first_line(s: &str) -> String {
    s.lines().next().unwrap_or("").chars().take(200).collect()
}

pub struct SingleCase<'a> {
    pub doc: &'a str,
    pub viol: &'a BTreeSet<String>, // normalised
    pub decoys: &'a BTreeMap<String, String>,
    pub arrivals: &'a BTreeMap<String, Arr>,
    pub intended: Option<&'a J>,
    pub chunk: usize,
    /// None: every options variant on every `_with_options` entry point; Some(ovs): only those
    pub only_ov: Option<&'a [OptVar]>,
}

/// Returns false when the case was inconclusive (model guards).
pub fn check_single<C: Crate>(cx: &Ctx, sc: &SingleCase) -> bool {
    let run = cx.run;
    // ---- model guards (never verdicts)
    let (pj, verdict) = match catch(|| C::plain_and_verdict(sc.doc)) {
        Ok(Ok(x)) => x,
        Ok(Err(_)) => {
            run.inconclusive("model: plain from_str rejects the generated document");
            return false;
        }
        Err(p) => {
            cx.vio(&format!("C18:panic:{}", panic_site(&p)), "from_str", "", p);
            return false;
        }
    };
    if let Some(int) = sc.intended
        && &pj != int
    {
        if std::env::var_os("C18_DEBUG").is_some() {
            eprintln!("MODEL-DIFF\n{}\nplain   : {pj}\nintended: {int}", sc.doc);
        }
        run.inconclusive("model: plain from_str value differs from the generator's intended value");
        return false;
    }
    if &verdict != sc.viol {
        run.inconclusive("model: validation crate's verdict on the plain value differs from the chosen set");
        return false;
    }
    let mirror: m::Root = match catch(|| serde_saphyr::from_str::<m::Root>(sc.doc)) {
        Ok(Ok(x)) => x,
        _ => {
            run.inconclusive("model: mirror (Spanned) parse failed");
            return false;
        }
    };
    let locs = mirror_locs(&mirror);
    if sc.viol.iter().any(|p| !matches!(locs.get(p), Some((Some(_), Some(_))))) {
        run.inconclusive("model: mirror parse has no location for a violated leaf");
        return false;
    }
    let lines: Vec<&str> = sc.doc.split('\n').collect();
    let short = lines.iter().all(|l| l.chars().count() <= 60);

    for en in C::singles() {
        let ovs: &[OptVar] = match (en.with_opts, sc.only_ov) {
            (false, _) => &[OptVar::Default],
            (true, None) => &OptVar::ALL,
            (true, Some(ovs)) => ovs,
        };
        for &ov in ovs {
            run.eval();
            cx.c("calls/single");
            let r = match catch(|| (en.call)(sc.doc, ov, sc.chunk)) {
                Ok(r) => r,
                Err(p) => {
                    cx.vio(&format!("C18:panic:{}", panic_site(&p)), en.name, ov.name(), p);
                    continue;
                }
            };
            if sc.viol.is_empty() {
                // must equal the plain entry point of the same kind
                let pr = match catch(|| (en.plain)(sc.doc, ov, sc.chunk)) {
                    Ok(r) => r,
                    Err(p) => {
                        cx.vio(&format!("C18:panic:{}", panic_site(&p)), en.plain_name, ov.name(), p);
                        continue;
                    }
                };
                let Ok(pv) = pr else {
                    run.inconclusive("model: plain entry points disagree among themselves (C09 territory)");
                    continue;
                };
                if pv != pj {
                    run.inconclusive("model: plain entry points disagree among themselves (C09 territory)");
                    continue;
                }
                match r {
                    Ok(v) if v == pv => cx.c("valid_equals_plain"),
                    Ok(v) => cx.vio("C18:valid-differs-from-plain:value", en.name, ov.name(), format!("validating: {v} | plain {}: {pv}", en.plain_name)),
                    Err(e) => cx.vio(
                        &format!("C18:valid-differs-from-plain:err-{}", kind(&e)),
                        en.name,
                        ov.name(),
                        format!("validating: Err({}) | plain {}: Ok", first_line(&e.to_string()), en.plain_name),
                    ),
                }
            } else {
                match r {
                    Ok(v) => cx.vio(
                        "C18:expected-validation-error:got-Ok",
                        en.name,
                        ov.name(),
                        format!("violated {:?} but got Ok({v})", sc.viol),
                    ),
                    Err(e) => {
                        let x = Exp {
                            viol: sc.viol,
                            locs: &locs,
                            decoys: sc.decoys,
                            arrivals: sc.arrivals,
                            doc_lines: &lines,
                            window_check: short && matches!(ov, OptVar::Default | OptVar::LastWins | OptVar::FirstWins),
                        };
                        // all renderings on the entry points without options; on the `_with_options` ones only when `full`
                        let heavy = cx.full || !en.with_opts;
                        verify_error::<C>(cx, en.name, ov.name(), &e, &x, heavy);
                        cx.c(if en.reader { "validation_errors_checked/reader" } else { "validation_errors_checked/str-or-slice" });
                    }
                }
            }
        }
    }
    true
}

pub struct StreamCase<'a> {
    pub text: &'a str,
    /// per document: normalised violated set
    pub viols: &'a [BTreeSet<String>],
    pub arrivals: &'a [BTreeMap<String, Arr>],
    pub chunk: usize,
}

pub fn check_stream<C: Crate>(cx: &Ctx, sc: &StreamCase) -> bool {
    let run = cx.run;
    let k = sc.viols.len();
    let plain = match catch(|| C::plain_multi_and_verdict(sc.text)) {
        Ok(Ok(x)) => x,
        Ok(Err(_)) => {
            run.inconclusive("model: plain from_multiple rejects the generated stream");
            return false;
        }
        Err(p) => {
            cx.vio(&format!("C18:panic:{}", panic_site(&p)), "from_multiple", "", p);
            return false;
        }
    };
    if plain.len() != k || plain.iter().zip(sc.viols).any(|((_, vd), want)| vd != want) {
        run.inconclusive("model: stream verdicts differ from the chosen sets");
        return false;
    }
    let mirrors: Vec<m::Root> = match catch(|| serde_saphyr::from_multiple::<m::Root>(sc.text)) {
        Ok(Ok(x)) if x.len() == k => x,
        _ => {
            run.inconclusive("model: mirror (Spanned) stream parse failed");
            return false;
        }
    };
    let locs: Vec<Locs> = mirrors.iter().map(mirror_locs).collect();
    for (i, vs) in sc.viols.iter().enumerate() {
        if vs.iter().any(|p| !matches!(locs[i].get(p), Some((Some(_), Some(_))))) {
            run.inconclusive("model: mirror parse has no location for a violated leaf");
            return false;
        }
    }
    let failing: Vec<usize> = (0..k).filter(|&i| !sc.viols[i].is_empty()).collect();
    let pvals: Vec<J> = plain.iter().map(|(v, _)| v.clone()).collect();
    let lines: Vec<&str> = sc.text.split('\n').collect();
    let short = lines.iter().all(|l| l.chars().count() <= 60);
    let no_decoys = BTreeMap::new();

    for en in C::multis() {
        let ovs: &[OptVar] = if en.with_opts { &OptVar::ALL } else { &[OptVar::Default] };
        for &ov in ovs {
            run.eval();
            cx.c("calls/multi");
            let r = match catch(|| (en.call)(sc.text, ov)) {
                Ok(r) => r,
                Err(p) => {
                    cx.vio(&format!("C18:panic:{}", panic_site(&p)), en.name, ov.name(), p);
                    continue;
                }
            };
            if failing.is_empty() {
                let pr = catch(|| (en.plain)(sc.text, ov));
                let Ok(Ok(pv)) = pr else {
                    run.inconclusive("model: plain entry points disagree among themselves (C09 territory)");
                    continue;
                };
                if pv != pvals {
                    run.inconclusive("model: plain entry points disagree among themselves (C09 territory)");
                    continue;
                }
                match r {
                    Ok(v) if v == pv => cx.c("valid_equals_plain/multi"),
                    Ok(v) => cx.vio("C18:stream:valid-differs-from-plain:value", en.name, ov.name(), format!("validating: {v:?} | plain: {pv:?}")),
                    Err(e) => cx.vio(
                        &format!("C18:stream:valid-differs-from-plain:err-{}", kind(&e)),
                        en.name,
                        ov.name(),
                        format!("validating: Err({}) | plain: Ok", first_line(&e.to_string())),
                    ),
                }
                continue;
            }
            let e = match r {
                Ok(v) => {
                    cx.vio(
                        "C18:stream:expected-validation-errors:got-Ok",
                        en.name,
                        ov.name(),
                        format!("{} failing documents but got Ok with {} values", failing.len(), v.len()),
                    );
                    continue;
                }
                Err(e) => e,
            };
            let kd = kind(e.without_snippet());
            run.observe("error_kinds", &kd);
            let Some(subs) = C::sub_errors(e.without_snippet()).filter(|_| kd == C::MULTI_KIND) else {
                cx.vio(
                    &format!("C18:stream:expected-validation-errors:got-{kd}"),
                    en.name,
                    ov.name(),
                    format!("{} failing documents (indices {failing:?}); error: {}", failing.len(), first_line(&e.to_string())),
                );
                continue;
            };
            if subs.len() != failing.len() {
                cx.vio(
                    "C18:stream:errors-count",
                    en.name,
                    ov.name(),
                    format!("{} failing documents (indices {failing:?}) but {} entries reported", failing.len(), subs.len()),
                );
                continue;
            }
            cx.c("stream_errors_count_ok");
            for (j, &di) in failing.iter().enumerate() {
                let x = Exp {
                    viol: &sc.viols[di],
                    locs: &locs[di],
                    decoys: &no_decoys,
                    arrivals: &sc.arrivals[di],
                    doc_lines: &lines,
                    window_check: short && matches!(ov, OptVar::Default | OptVar::LastWins | OptVar::FirstWins),
                };
                verify_error::<C>(cx, en.name, ov.name(), &subs[j], &x, true);
            }
            // aggregate: first-entry accessors and the whole rendering
            let first = &locs[failing[0]];
            let pairs: BTreeSet<(Option<Loc>, Option<Loc>)> = sc.viols[failing[0]].iter().filter_map(|p| first.get(p)).copied().collect();
            match e.locations() {
                Some(l) if pairs.contains(&(loc(l.reference_location), loc(l.defined_location))) => cx.c("aggregate_locations_ok"),
                other => cx.vio(
                    "C18:stream:aggregate-locations-wrong",
                    en.name,
                    ov.name(),
                    format!("Error::locations() = {:?}; expected one of {pairs:?} (first failing document)", other.map(|l| (loc(l.reference_location), loc(l.defined_location)))),
                ),
            }
            for mode in [SnippetMode::Off, SnippetMode::Auto] {
                let (_, log) = match catch(|| render_recorded(&e, mode, false)) {
                    Ok(x) => x,
                    Err(p) => {
                        cx.vio(&format!("C18:panic:{}", panic_site(&p)), en.name, ov.name(), p);
                        continue;
                    }
                };
                let issues = parse_log(&log);
                let mut got: Vec<(String, Option<Loc>)> = issues.iter().map(|i| (i.path.clone(), i.primary)).collect();
                got.sort();
                let mut want: Vec<(String, Option<Loc>)> = Vec::new();
                for &di in &failing {
                    for p in &sc.viols[di] {
                        want.push((p.clone(), locs[di][p].0));
                    }
                }
                want.sort();
                if got != want {
                    cx.vio("C18:stream:aggregate-rendering-differs", en.name, ov.name(), format!("rendered issues {got:?} vs expected {want:?}"));
                } else {
                    cx.c("aggregate_rendering_ok");
                }
            }
        }
    }

    for en in C::iters() {
        let ovs: &[OptVar] = if en.with_opts { &[OptVar::Default, OptVar::NoSnippet] } else { &[OptVar::Default] };
        for &ov in ovs {
            run.eval();
            cx.c("calls/iter");
            let (items, ended) = match catch(|| (en.call)(sc.text, ov, sc.chunk, k + 3)) {
                Ok(r) => r,
                Err(p) => {
                    cx.vio(&format!("C18:panic:{}", panic_site(&p)), en.name, ov.name(), p);
                    continue;
                }
            };
            let (pitems, pended) = match catch(|| (en.plain)(sc.text, ov, sc.chunk, k + 3)) {
                Ok(r) => r,
                Err(p) => {
                    cx.vio(&format!("C18:panic:{}", panic_site(&p)), "read", ov.name(), p);
                    continue;
                }
            };
            let plain_ok = pended && pitems.len() == k && pitems.iter().zip(&pvals).all(|(a, b)| matches!(a, Ok(v) if v == b));
            if !plain_ok {
                run.inconclusive("model: plain read iterator disagrees with from_multiple (C09/C11 territory)");
                continue;
            }
            if !ended || items.len() != k {
                cx.vio(
                    "C18:iter:item-count",
                    en.name,
                    ov.name(),
                    format!(
                        "{k} documents (failing {failing:?}) but iterator yielded {} items (ended={ended}): {:?}",
                        items.len(),
                        items.iter().map(|r| match r { Ok(_) => "Ok".to_string(), Err(e) => kind(e) }).collect::<Vec<_>>()
                    ),
                );
                continue;
            }
            for (i, it) in items.iter().enumerate() {
                match (it, sc.viols[i].is_empty()) {
                    (Ok(v), true) => {
                        if v == &pvals[i] {
                            cx.c("iter_item_equals_plain");
                        } else {
                            cx.vio("C18:iter:valid-differs-from-plain:value", en.name, ov.name(), format!("doc {i}: {v} vs plain {}", pvals[i]));
                        }
                    }
                    (Err(e), true) => cx.vio(
                        &format!("C18:iter:valid-differs-from-plain:err-{}", kind(e)),
                        en.name,
                        ov.name(),
                        format!("doc {i} passes validation but iterator yielded Err({})", first_line(&e.to_string())),
                    ),
                    (Ok(v), false) => cx.vio(
                        "C18:iter:expected-validation-error:got-Ok",
                        en.name,
                        ov.name(),
                        format!("doc {i} violates {:?} but iterator yielded Ok({v})", sc.viols[i]),
                    ),
                    (Err(e), false) => {
                        let x = Exp {
                            viol: &sc.viols[i],
                            locs: &locs[i],
                            decoys: &no_decoys,
                            arrivals: &sc.arrivals[i],
                            doc_lines: &lines,
                            window_check: false,
                        };
                        verify_error::<C>(cx, en.name, ov.name(), e, &x, true);
                        cx.c("iter_err_items_checked");
                        if i + 1 < k {
                            cx.c("iter_continued_after_err");
                        }
                    }
                }
            }
        }
    }
    true
}
