//! Independent recomputation of (line, column, byte offset) from a character
//! offset, with YAML 1.2 break rules: LF, CR LF (one break), CR.
//!
//! Conventions that the property statement / crate docs pin down:
//! * line and column are 1-based and count characters (`Location` docs);
//! * a line break ends a line; the character after it is line+1, column 1;
//! * CR LF is one break; the CR occupies a column on its line (so the LF of a
//!   CR LF pair sits at column(CR)+1 of the same line).
//! Not pinned down (no verdict on line/column after the first occurrence):
//! * a lone CR (YAML 1.2 says break, many tools do not count it) — `after_lone_cr`;
//! * U+0085, U+2028, U+2029 (breaks in YAML 1.1, ordinary characters in 1.2;
//!   saphyr-parser treats them as ordinary characters) — `after_legacy_break`.

pub struct Index {
    pub n_chars: usize,
    /// byte offset of char i, for i in 0..=n
    byte_of: Vec<u32>,
    line: Vec<u32>,
    col: Vec<u32>,
    /// first char offset strictly after a lone CR, if any
    pub first_lone_cr: Option<usize>,
    /// first char offset strictly after U+0085 / U+2028 / U+2029, if any
    pub first_legacy_break: Option<usize>,
    #[allow(dead_code)]
    pub has_multibyte: bool,
    /// first char offset strictly after the first multi-byte character
    pub first_multibyte: Option<usize>,
    /// first char offset strictly after the first CR (lone or in CR LF)
    pub first_cr: Option<usize>,
    /// the text is non-empty and does not end in a line break
    pub unterminated_last_line: bool,
    /// distinct positive prefix sums of (bytes - chars) over lines that start with `%`
    pub directive_excess: Vec<usize>,
}

impl Index {
    pub fn new(input: &str) -> Index {
        let chars: Vec<char> = input.chars().collect();
        let n = chars.len();
        let mut byte_of = Vec::with_capacity(n + 1);
        let mut line = Vec::with_capacity(n + 1);
        let mut col = Vec::with_capacity(n + 1);
        let (mut b, mut l, mut c) = (0u32, 1u32, 1u32);
        let mut first_lone_cr = None;
        let mut first_legacy_break = None;
        let mut first_multibyte = None;
        let mut first_cr = None;
        for (i, ch) in chars.iter().enumerate() {
            byte_of.push(b);
            line.push(l);
            col.push(c);
            b += ch.len_utf8() as u32;
            if ch.len_utf8() > 1 && first_multibyte.is_none() {
                first_multibyte = Some(i + 1);
            }
            match ch {
                '\n' => {
                    l += 1;
                    c = 1;
                }
                '\r' => {
                    if first_cr.is_none() {
                        first_cr = Some(i + 1);
                    }
                    if chars.get(i + 1) == Some(&'\n') {
                        c += 1;
                    } else {
                        if first_lone_cr.is_none() {
                            first_lone_cr = Some(i + 1);
                        }
                        l += 1;
                        c = 1;
                    }
                }
                '\u{85}' | '\u{2028}' | '\u{2029}' => {
                    if first_legacy_break.is_none() {
                        first_legacy_break = Some(i + 1);
                    }
                    c += 1;
                }
                _ => c += 1,
            }
        }
        byte_of.push(b);
        line.push(l);
        col.push(c);
        let mut directive_excess = Vec::new();
        {
            let mut acc = 0usize;
            let mut at_line_start = true;
            let mut in_directive = false;
            for ch in &chars {
                if at_line_start {
                    in_directive = *ch == '%';
                }
                at_line_start = *ch == '\n' || *ch == '\r';
                if in_directive && ch.len_utf8() > 1 {
                    acc += ch.len_utf8() - 1;
                    if !directive_excess.contains(&acc) {
                        directive_excess.push(acc);
                    }
                }
            }
        }
        Index {
            n_chars: n,
            byte_of,
            line,
            col,
            first_lone_cr,
            first_legacy_break,
            has_multibyte: first_multibyte.is_some(),
            first_multibyte,
            first_cr,
            unterminated_last_line: chars.last().is_some_and(|c| *c != '\n' && *c != '\r'),
            directive_excess,
        }
    }

    /// `recompute(input, char_offset) -> (line, column, byte_offset)`; None when the
    /// offset is outside `0..=n`.
    pub fn recompute(&self, off: usize) -> Option<(u32, u32, u32)> {
        if off > self.n_chars {
            return None;
        }
        Some((self.line[off], self.col[off], self.byte_of[off]))
    }
    pub fn byte_of(&self, off: usize) -> Option<u32> {
        self.byte_of.get(off).copied()
    }
    /// Is the line/column convention pinned down at this offset?
    pub fn linecol_specified(&self, off: usize) -> bool {
        self.first_lone_cr.is_none_or(|p| off < p) && self.first_legacy_break.is_none_or(|p| off < p)
    }
    /// Non-triviality (DESIGN §3.6, C16): a multi-byte character or a non-LF break
    /// occurs before this offset.
    pub fn nontrivial_before(&self, off: usize) -> bool {
        self.first_multibyte.is_some_and(|p| off >= p) || self.first_cr.is_some_and(|p| off >= p)
    }
}

/// Convenience form of the oracle named in DESIGN §5 C16.
#[allow(dead_code)]
pub fn recompute(input: &str, char_offset: usize) -> Option<(u32, u32, u32)> {
    Index::new(input).recompute(char_offset)
}

#[derive(Clone, Copy, Debug, PartialEq, Eq)]
pub enum LocKind {
    /// location of a delivered node (`Spanned`): span must lie inside the input
    Node,
    /// location of an error: position must lie inside `0..=n`; the length of
    /// scanner errors is a fixed 1 and may stick out at end of input
    Error,
}

#[derive(Default)]
pub struct LocStats {
    pub checked: u64,
    /// end-of-input position of a text whose last line has no break, reported as
    /// (last line + 1, column 1): which of the two is "the" line of that position is
    /// not pinned down
    pub eof_line_convention: u64,
    pub linecol_unspecified: u64,
    pub byte_absent: u64,
    pub error_len_past_end: u64,
}

/// Check one location against the input. `Err((signature_suffix, detail))` when
/// the four coordinates do not denote the same position of the text.
pub fn check_loc(
    idx: &Index,
    l: &serde_saphyr::Location,
    kind: LocKind,
    stats: &mut LocStats,
) -> Result<(), (String, String)> {
    stats.checked += 1;
    let off = l.span().offset() as usize;
    let r = check_loc_at(idx, l, off, kind, stats);
    if let Err((_, detail)) = &r {
        // Known failure class with its own signature: the char offset was advanced by the
        // *byte* length of multi-byte text on a directive line (`%...`), everything else
        // (line, column, byte offset) being right.
        for e in &idx.directive_excess {
            if off >= *e && check_loc_at(idx, l, off - e, kind, &mut LocStats::default()).is_ok() {
                return Err((
                    "char-offset-counts-bytes-on-directive-line".into(),
                    format!("{detail}; consistent when the char offset is reduced by {e} = bytes - chars of the multi-byte text on the preceding directive line(s)"),
                ));
            }
        }
    }
    r
}

fn check_loc_at(
    idx: &Index,
    l: &serde_saphyr::Location,
    off: usize,
    kind: LocKind,
    stats: &mut LocStats,
) -> Result<(), (String, String)> {
    let sp = l.span();
    let len = sp.len() as usize;
    let Some((rl, rc, rb)) = idx.recompute(off) else {
        return Err((
            "offset-outside-input".into(),
            format!("char offset {off} > input length {} chars", idx.n_chars),
        ));
    };
    if off + len > idx.n_chars {
        match kind {
            LocKind::Node => {
                return Err((
                    "span-end-outside-input".into(),
                    format!("char offset {off} + len {len} > input length {} chars", idx.n_chars),
                ));
            }
            LocKind::Error => stats.error_len_past_end += 1,
        }
    }
    if off == idx.n_chars && idx.unterminated_last_line && idx.linecol_specified(off) && (l.line(), l.column()) == (rl as u64 + 1, 1) {
        stats.eof_line_convention += 1;
    } else if idx.linecol_specified(off) {
        if l.line() != rl as u64 {
            return Err((
                "line".into(),
                format!("line {} reported for char offset {off}, recomputed line {rl} (column {} vs {rc})", l.line(), l.column()),
            ));
        }
        if l.column() != rc as u64 {
            return Err((
                "column".into(),
                format!("column {} reported for char offset {off} on line {rl}, recomputed column {rc}", l.column()),
            ));
        }
    } else {
        stats.linecol_unspecified += 1;
    }
    match (sp.byte_offset(), sp.byte_len()) {
        (Some(bo), Some(bl)) => {
            if bo != rb as u64 {
                return Err((
                    "byte-offset".into(),
                    format!("byte offset {bo} reported for char offset {off}, whose byte index is {rb}"),
                ));
            }
            if off + len <= idx.n_chars {
                let want = idx.byte_of(off + len).unwrap() - rb;
                if bl != want as u64 {
                    return Err((
                        "byte-length".into(),
                        format!("byte length {bl} reported for {len} chars at char offset {off}, which cover {want} bytes"),
                    ));
                }
            }
        }
        (None, None) => stats.byte_absent += 1,
        (a, b) => {
            return Err(("byte-info-half-present".into(), format!("byte_offset {a:?} but byte_len {b:?}")));
        }
    }
    Ok(())
}

#[cfg(test)]
mod tests {
    use super::*;
    #[test]
    fn basics() {
        let s = "é: 1\r\nb\rc\nd";
        let i = Index::new(s);
        assert_eq!(i.recompute(0), Some((1, 1, 0)));
        assert_eq!(i.recompute(1), Some((1, 2, 2)));
        assert_eq!(i.recompute(4), Some((1, 5, 5))); // CR
        assert_eq!(i.recompute(5), Some((1, 6, 6))); // LF
        assert_eq!(i.recompute(6), Some((2, 1, 7))); // b
        assert_eq!(i.recompute(8), Some((3, 1, 9))); // c (after lone CR)
        assert_eq!(i.recompute(10), Some((4, 1, 11)));
        assert_eq!(i.recompute(11), Some((4, 2, 12)));
        assert_eq!(i.recompute(12), None);
        assert!(i.linecol_specified(7));
        assert!(!i.linecol_specified(8));
    }
}
