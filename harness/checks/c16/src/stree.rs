//! Fully span-wrapped untyped tree: every node (scalar, sequence, mapping, and
//! every mapping key) is a `serde_saphyr::Spanned<..>`, so one parse collects the
//! `referenced`/`defined` pair of every node the deserializer delivers.

use serde::de::{self, Deserialize, Deserializer, MapAccess, SeqAccess, Visitor};
use serde_saphyr::{Location, Spanned};
use std::fmt;

#[derive(Clone, Debug, PartialEq)]
pub enum ST {
    /// scalar, with the text form of what `deserialize_any` delivered
    Leaf(String),
    Seq(Vec<Spanned<ST>>),
    Map(Vec<(Spanned<ST>, Spanned<ST>)>),
}

pub type SNode = Spanned<ST>;

struct STVisitor;

macro_rules! leaf {
    ($name:ident, $t:ty) => {
        fn $name<E: de::Error>(self, v: $t) -> Result<ST, E> {
            Ok(ST::Leaf(v.to_string()))
        }
    };
}

impl<'de> Visitor<'de> for STVisitor {
    type Value = ST;
    fn expecting(&self, f: &mut fmt::Formatter) -> fmt::Result {
        f.write_str("any YAML node")
    }
    leaf!(visit_bool, bool);
    leaf!(visit_i64, i64);
    leaf!(visit_u64, u64);
    leaf!(visit_i128, i128);
    leaf!(visit_u128, u128);
    leaf!(visit_f64, f64);
    leaf!(visit_char, char);
    leaf!(visit_str, &str);
    leaf!(visit_string, String);
    fn visit_bytes<E: de::Error>(self, v: &[u8]) -> Result<ST, E> {
        Ok(ST::Leaf(format!("bytes:{v:?}")))
    }
    fn visit_unit<E: de::Error>(self) -> Result<ST, E> {
        Ok(ST::Leaf("~null".into()))
    }
    fn visit_none<E: de::Error>(self) -> Result<ST, E> {
        Ok(ST::Leaf("~null".into()))
    }
    fn visit_some<D: Deserializer<'de>>(self, d: D) -> Result<ST, D::Error> {
        ST::deserialize(d)
    }
    fn visit_newtype_struct<D: Deserializer<'de>>(self, d: D) -> Result<ST, D::Error> {
        ST::deserialize(d)
    }
    fn visit_seq<A: SeqAccess<'de>>(self, mut seq: A) -> Result<ST, A::Error> {
        let mut v = Vec::new();
        while let Some(x) = seq.next_element::<Spanned<ST>>()? {
            v.push(x);
        }
        Ok(ST::Seq(v))
    }
    fn visit_map<A: MapAccess<'de>>(self, mut map: A) -> Result<ST, A::Error> {
        let mut v = Vec::new();
        while let Some(k) = map.next_key::<Spanned<ST>>()? {
            let x = map.next_value::<Spanned<ST>>()?;
            v.push((k, x));
        }
        Ok(ST::Map(v))
    }
}

impl<'de> Deserialize<'de> for ST {
    fn deserialize<D: Deserializer<'de>>(d: D) -> Result<ST, D::Error> {
        d.deserialize_any(STVisitor)
    }
}

/// One collected location record.
#[derive(Clone, Debug)]
#[allow(dead_code)]
pub struct Rec {
    /// delivered path: seq index / 2*i (key) / 2*i+1 (value)
    pub path: Vec<usize>,
    pub referenced: Location,
    pub defined: Location,
    /// Some(text) for leaves
    pub leaf: Option<String>,
    pub is_key: bool,
}

pub fn collect(root: &SNode) -> Vec<Rec> {
    fn go(n: &SNode, path: &mut Vec<usize>, is_key: bool, out: &mut Vec<Rec>) {
        out.push(Rec {
            path: path.clone(),
            referenced: n.referenced,
            defined: n.defined,
            leaf: match &n.value {
                ST::Leaf(s) => Some(s.clone()),
                _ => None,
            },
            is_key,
        });
        match &n.value {
            ST::Leaf(_) => {}
            ST::Seq(v) => {
                for (i, x) in v.iter().enumerate() {
                    path.push(i);
                    go(x, path, false, out);
                    path.pop();
                }
            }
            ST::Map(m) => {
                for (i, (k, x)) in m.iter().enumerate() {
                    path.push(2 * i);
                    go(k, path, true, out);
                    path.pop();
                    path.push(2 * i + 1);
                    go(x, path, false, out);
                    path.pop();
                }
            }
        }
    }
    let mut out = Vec::new();
    go(root, &mut Vec::new(), false, &mut out);
    out
}

pub fn loc_str(l: &Location) -> String {
    format!(
        "{}:{}@{}+{}/b{:?}+{:?}",
        l.line(),
        l.column(),
        l.span().offset(),
        l.span().len(),
        l.span().byte_offset(),
        l.span().byte_len()
    )
}
