//! Document generator for C16: trees with unique scalar texts (multi-byte
//! characters in keys, values and comments), anchors / aliases / merges nested
//! up to three levels, rendered by `vcore::ydoc` and then *decorated* (comments,
//! blank lines, tabs and extra blanks, BOM, document markers, mixed breaks).
//! Nothing here is trusted: the caller re-parses the final text with the raw
//! parser and only uses it when it still means the intended tree.

use vcore::rng::Rng;
use vcore::ydoc::{Node, Rendered, Style};

#[derive(Clone, Copy, PartialEq, Eq, Debug)]
enum Kind {
    Scalar,
    Seq,
    Map,
}

struct AnchorInfo {
    name: String,
    kind: Kind,
    level: usize,
}

pub struct Gen<'r> {
    pub rng: &'r mut Rng,
    counter: usize,
    anchors: Vec<AnchorInfo>,
    anchor_names: usize,
    pub allow_block_scalars: bool,
    pub used_block_scalar: bool,
    pub max_level: usize,
    pub alias_pct: usize,
    pub complex_key_pct: usize,
}

const MB: &[&str] = &["é", "ü", "✓", "漢", "😀", "ß", "Ж", "→"];

impl<'r> Gen<'r> {
    pub fn new(rng: &'r mut Rng) -> Self {
        Gen {
            rng,
            counter: 0,
            anchors: Vec::new(),
            anchor_names: 0,
            allow_block_scalars: false,
            used_block_scalar: false,
            max_level: 3,
            alias_pct: 22,
            complex_key_pct: 6,
        }
    }

    fn uniq(&mut self) -> usize {
        self.counter += 1;
        self.counter
    }

    fn mb(&mut self) -> &'static str {
        MB[self.rng.below(MB.len())]
    }

    pub fn leaf(&mut self, in_flow: bool) -> Node {
        let n = self.uniq();
        let m = self.mb();
        let m2 = self.mb();
        // closing-quote stress: backslashes in single-quoted text, '' pairs at the start / end /
        // next to a backslash, the other quote character, \" and \\ right before the closing quote
        if self.rng.chance(1, 4) {
            return match self.rng.below(16) {
                0 => Node::sq(&format!("C:\\tmp{n}\\")),
                1 => Node::sq(&format!("a\\'b{n}")),
                2 => Node::sq(&format!("{n}a'")),
                3 => Node::sq(&format!("'a{n}")),
                4 => Node::sq("'"),
                5 => Node::sq("\\"),
                6 => Node::sq(&format!("say \"hi\" {n}{m}")),
                7 => Node::sq(&format!("'{n}\\' x '")),
                8 => Node::dq(&format!("a{n}\\")),
                9 => Node::dq(&format!("x{n}\\\"")),
                10 => Node::dq("\""),
                11 => Node::dq("\\"),
                12 => Node::dq(&format!("it's {n}{m}")),
                13 => Node::dq(&format!("\"{n}\" \\ '")),
                14 => Node::sq(&format!("one two{n} {m} three\\")),
                _ => Node::dq(&format!("one two{n} {m} three\\")),
            };
        }
        match self.rng.below(if self.allow_block_scalars && !in_flow { 14 } else { 12 }) {
            0 => Node::plain(&format!("v{n}")),
            1 => Node::plain(&format!("v{m}{n}")),
            2 => Node::plain(&format!("{m}{n}x")),
            3 => Node::plain(&format!("{}", 100 + n)),
            4 => Node::plain(&format!("w{n} {m}{m2}")),
            5 => Node::dq(&format!("d{n}")),
            6 => Node::dq(&format!("{m} {m2}\u{a0}{n}")),
            7 => Node::dq(&format!("t\t{n}\"{m}")),
            8 => Node::dq(&format!("#{n}: {m}")),
            9 => Node::sq(&format!("s {n}")),
            10 => Node::sq(&format!("it's{n}{m}")),
            11 => Node::sq(&format!("{m}{m2}, [{n}]")),
            12 => {
                self.used_block_scalar = true;
                Node::styled(&format!("l{n} {m}\nsecond {m2}\n"), Style::Literal)
            }
            _ => {
                self.used_block_scalar = true;
                Node::styled(&format!("f{n} {m} second {m2}\n"), Style::Folded)
            }
        }
    }

    pub fn key(&mut self) -> Node {
        let n = self.uniq();
        let m = self.mb();
        if self.rng.chance(1, 6) {
            return match self.rng.below(6) {
                0 => Node::sq(&format!("k{n}\\")),
                1 => Node::sq(&format!("k{n}'")),
                2 => Node::sq(&format!("'k{n}\\'")),
                3 => Node::dq(&format!("k{n}\\")),
                4 => Node::dq(&format!("k\"{n}\\\"")),
                _ => Node::dq(&format!("k'{n}")),
            };
        }
        match self.rng.below(8) {
            0 | 1 | 2 => Node::plain(&format!("k{n}")),
            3 => Node::plain(&format!("k{m}{n}")),
            4 => Node::plain(&format!("{m}{n}")),
            5 => Node::dq(&format!("k {n}{m}")),
            6 => Node::sq(&format!("k'{n}")),
            _ => Node::plain(&format!("{}", 5000 + n)),
        }
    }

    fn new_anchor_name(&mut self) -> String {
        // mostly fresh names; sometimes re-define an existing name
        if !self.anchors.is_empty() && self.rng.chance(1, 8) {
            let i = self.rng.below(self.anchors.len());
            return self.anchors[i].name.clone();
        }
        self.anchor_names += 1;
        format!("a{}", self.anchor_names)
    }

    /// The most recent definition of each name is the one an alias resolves to.
    fn live_anchor(&self, i: usize) -> bool {
        let name = &self.anchors[i].name;
        !self.anchors[i + 1..].iter().any(|a| &a.name == name)
    }

    fn pick_anchor(&mut self, kinds: &[Kind]) -> Option<(String, usize)> {
        let cands: Vec<usize> = (0..self.anchors.len())
            .filter(|&i| self.live_anchor(i) && kinds.contains(&self.anchors[i].kind) && self.anchors[i].level < self.max_level)
            .collect();
        if cands.is_empty() {
            return None;
        }
        let i = *self.rng.pick(&cands);
        Some((self.anchors[i].name.clone(), self.anchors[i].level))
    }

    /// Returns (node, indirection level of the node).
    pub fn node(&mut self, depth: usize, budget: usize, in_flow: bool) -> (Node, usize) {
        if self.rng.below(100) < self.alias_pct
            && let Some((name, lvl)) = self.pick_anchor(&[Kind::Scalar, Kind::Seq, Kind::Map])
        {
            return (Node::alias(&name), lvl + 1);
        }
        // The anchor (if any) is decided before the children are generated: a re-used name
        // shadows the older definition from here on, and the node itself cannot be aliased
        // from inside (placeholder level = usize::MAX).
        let slot = if self.rng.chance(1, 4) {
            let name = self.new_anchor_name();
            self.anchors.push(AnchorInfo { name, kind: Kind::Scalar, level: usize::MAX });
            Some(self.anchors.len() - 1)
        } else {
            None
        };
        let (mut n, level, kind) = if depth == 0 || budget <= 1 || self.rng.chance(2, 5) {
            if self.rng.chance(1, 16) {
                if self.rng.bool() { (Node::seq(vec![]), 0, Kind::Seq) } else { (Node::map(vec![]), 0, Kind::Map) }
            } else {
                (self.leaf(in_flow), 0, Kind::Scalar)
            }
        } else if self.rng.chance(2, 5) {
            let flow = in_flow || self.rng.chance(1, 3);
            let k = self.rng.range(1, 4.min(budget));
            let mut items = Vec::new();
            let mut level = 0;
            for _ in 0..k {
                let (c, l) = self.node(depth - 1, (budget - 1) / k, flow);
                level = level.max(l);
                items.push(c);
            }
            let mut n = Node::seq(items);
            if flow {
                n.set_flow(true);
            }
            (n, level, Kind::Seq)
        } else {
            let flow = in_flow || self.rng.chance(1, 3);
            let (n, level) = self.map(depth, budget, flow);
            (n, level, Kind::Map)
        };
        if let Some(i) = slot {
            n = n.with_anchor(&self.anchors[i].name.clone());
            self.anchors[i].kind = kind;
            self.anchors[i].level = level;
        }
        (n, level)
    }

    pub fn map(&mut self, depth: usize, budget: usize, flow: bool) -> (Node, usize) {
        let k = self.rng.range(1, 4.min(budget.max(1)));
        let mut entries = Vec::new();
        let mut level = 0;
        let mut alias_keys: Vec<String> = Vec::new();
        let merge_at = if self.rng.chance(1, 3) { Some(self.rng.below(k + 1)) } else { None };
        for i in 0..=k {
            if merge_at == Some(i)
                && let Some((entry, l)) = self.merge_entry(depth, flow)
            {
                level = level.max(l);
                entries.push(entry);
            }
            if i == k {
                break;
            }
            // key: mostly a fresh scalar, sometimes an alias to an anchored scalar
            let key = if self.rng.chance(1, 12)
                && let Some((name, _)) = self.pick_anchor(&[Kind::Scalar])
                && !alias_keys.contains(&name)
            {
                alias_keys.push(name.clone());
                level = level.max(1);
                Node::alias(&name)
            } else if self.rng.below(100) < self.complex_key_pct {
                // complex key (`? ` in block context): a small collection of fresh scalars
                let kflow = flow || self.rng.chance(2, 3);
                let a = self.leaf(true);
                let mut key = if self.rng.bool() {
                    let mut items = vec![a];
                    if self.rng.bool() {
                        items.push(self.leaf(true));
                    }
                    Node::seq(items)
                } else {
                    let k = self.key();
                    Node::map(vec![(k, a)])
                };
                if kflow {
                    key.set_flow(true);
                }
                key
            } else {
                let mut key = self.key();
                if self.rng.chance(1, 10) {
                    let name = self.new_anchor_name();
                    key = key.with_anchor(&name);
                    self.anchors.push(AnchorInfo { name, kind: Kind::Scalar, level: 0 });
                }
                key
            };
            let (v, l) = self.node(depth.saturating_sub(1), budget.saturating_sub(1) / k, flow);
            level = level.max(l);
            entries.push((key, v));
        }
        let mut n = Node::map(entries);
        if flow {
            n.set_flow(true);
        }
        (n, level)
    }

    fn merge_entry(&mut self, depth: usize, flow: bool) -> Option<((Node, Node), usize)> {
        let key = Node::plain("<<");
        match self.rng.below(6) {
            0 | 1 | 2 => {
                let (name, l) = self.pick_anchor(&[Kind::Map])?;
                Some(((key, Node::alias(&name)), l + 1))
            }
            3 => {
                // sequence of aliases (and possibly an inline mapping)
                let (n1, l1) = self.pick_anchor(&[Kind::Map])?;
                let mut items = vec![Node::alias(&n1)];
                let mut level = l1 + 1;
                if let Some((n2, l2)) = self.pick_anchor(&[Kind::Map])
                    && n2 != n1
                {
                    items.push(Node::alias(&n2));
                    level = level.max(l2 + 1);
                }
                if self.rng.chance(1, 3) {
                    let (m, l) = self.map(depth.saturating_sub(1).min(1), 3, true);
                    items.push(m);
                    level = level.max(l);
                }
                let mut s = Node::seq(items);
                s.set_flow(true);
                Some(((key, s), level))
            }
            _ => {
                // inline mapping as merge value
                let f = flow || self.rng.bool();
                let (m, l) = self.map(depth.saturating_sub(1).min(1), 3, f);
                Some(((key, m), l))
            }
        }
    }

    pub fn document(&mut self) -> Node {
        let budget = self.rng.range(4, 28);
        let depth = self.rng.range(2, 4);
        let root_flow = self.rng.chance(1, 8);
        if self.rng.chance(3, 4) {
            // a few top-level entries so that anchors come before aliases
            let mut entries = Vec::new();
            let k = self.rng.range(2, 6);
            for _ in 0..k {
                if self.rng.chance(1, 6)
                    && let Some((e, _)) = self.merge_entry(depth, root_flow)
                {
                    entries.push(e);
                }
                let key = self.key();
                let (v, _) = self.node(depth, budget / k + 1, root_flow);
                entries.push((key, v));
            }
            let mut n = Node::map(entries);
            if root_flow {
                n.set_flow(true);
            }
            n
        } else {
            let mut items = Vec::new();
            let k = self.rng.range(2, 6);
            for _ in 0..k {
                let (v, _) = self.node(depth, budget / k + 1, root_flow);
                items.push(v);
            }
            let mut n = Node::seq(items);
            if root_flow {
                n.set_flow(true);
            }
            n
        }
    }
}

// ---------------------------------------------------------------- decoration

/// Per pre-order node id (same numbering as `ydoc::render`): may blanks / a tab
/// be inserted right before the node's token, and is the node in flow context.
pub struct PadInfo {
    pub before_ok: Vec<bool>,
    pub in_flow: Vec<bool>,
    pub is_key: Vec<bool>,
}

pub fn pad_info(root: &Node) -> PadInfo {
    #[derive(Clone, Copy, PartialEq)]
    enum Role {
        Root,
        Item,
        Key,
        Value,
    }
    fn is_inline(n: &Node) -> bool {
        match n {
            Node::Seq { flow, items, .. } => *flow || items.is_empty(),
            Node::Map { flow, entries, .. } => *flow || entries.is_empty(),
            Node::Scalar { style, .. } => !matches!(style, Style::Literal | Style::Folded),
            Node::Alias(_) => true,
        }
    }
    fn go(n: &Node, in_flow: bool, role: Role, out: &mut PadInfo) {
        let inline = is_inline(n);
        let ok = inline && role != Role::Root && (in_flow || role == Role::Value || role == Role::Item);
        out.before_ok.push(ok);
        out.in_flow.push(in_flow);
        out.is_key.push(role == Role::Key);
        let child_flow = in_flow || (inline && matches!(n, Node::Seq { .. } | Node::Map { .. }));
        match n {
            Node::Seq { items, .. } => items.iter().for_each(|i| go(i, child_flow, Role::Item, out)),
            Node::Map { entries, .. } => entries.iter().for_each(|(k, v)| {
                go(k, child_flow, Role::Key, out);
                go(v, child_flow, Role::Value, out);
            }),
            _ => {}
        }
    }
    let mut out = PadInfo { before_ok: Vec::new(), in_flow: Vec::new(), is_key: Vec::new() };
    go(root, false, Role::Root, &mut out);
    out
}

pub struct Decorated {
    pub text: String,
    /// new char index of old char index i (i in 0..=old_len)
    pub new_index: Vec<usize>,
    pub bom: bool,
    pub what: Vec<&'static str>,
    /// (pre-order node id, token text as it now stands in the document) for quoted scalars
    /// that were broken over two lines
    pub token_overrides: Vec<(usize, String)>,
}

fn comment_text(rng: &mut Rng) -> String {
    let pool = ["# c", "# é✓", "#", "# 😀 note: [x, y]", "# \"q\" 'r' *a &b", "#\ttab", "# 漢字 → ü", "# it's \"open", "# \\' \\\""];
    rng.pick(&pool).to_string()
}

/// Decorate a rendered document. `intensity` 0 = leave the text alone.
pub fn decorate(
    rng: &mut Rng,
    r: &Rendered,
    root: &Node,
    brk: &'static str,
    has_block_scalar: bool,
    intensity: usize,
    allow_prefix: bool,
) -> Decorated {
    let old: Vec<char> = r.text.chars().collect();
    let n = old.len();
    // insertions[i] = text inserted immediately before old char i (i == n: at the end)
    let mut ins: Vec<String> = vec![String::new(); n + 1];
    let mut what: Vec<&'static str> = Vec::new();
    let mut token_overrides: Vec<(usize, String)> = Vec::new();
    let note = |w: &'static str, what: &mut Vec<&'static str>| {
        if !what.contains(&w) {
            what.push(w);
        }
    };
    let other_brk: &'static str = match brk {
        "\n" => "\r\n",
        "\r\n" => "\n",
        _ => "\r",
    };
    if intensity > 0 {
        // line starts / ends in the old text
        let mut line_ends: Vec<usize> = Vec::new(); // index of first break char of each line
        let mut line_starts: Vec<usize> = vec![0];
        let mut i = 0;
        while i < n {
            if old[i] == '\r' || old[i] == '\n' {
                line_ends.push(i);
                if old[i] == '\r' && i + 1 < n && old[i + 1] == '\n' {
                    i += 1;
                }
                if i + 1 < n {
                    line_starts.push(i + 1);
                }
            }
            i += 1;
        }
        if !has_block_scalar {
            for &e in &line_ends {
                if rng.below(100) < 12 * intensity {
                    let t = match rng.below(6) {
                        0 => " ".to_string(),
                        1 => "\t".to_string(),
                        2 => "  \t ".to_string(),
                        3 => format!(" {}", comment_text(rng)),
                        4 => format!("\t{}", comment_text(rng)),
                        _ => format!("   {}  ", comment_text(rng)),
                    };
                    note("trailing-blank-or-comment", &mut what);
                    ins[e].push_str(&t);
                }
            }
            for &s in &line_starts {
                if s == 0 {
                    continue;
                }
                if rng.below(100) < 8 * intensity {
                    let b = if rng.chance(1, 4) { other_brk } else { brk };
                    let t = match rng.below(4) {
                        0 => b.to_string(),
                        1 => format!("{}{}", " ".repeat(rng.below(5)), b),
                        _ => format!("{}{}{}", " ".repeat(rng.below(7)), comment_text(rng), b),
                    };
                    if b != brk {
                        note("mixed-breaks", &mut what);
                    }
                    note("comment-or-blank-line", &mut what);
                    ins[s].push_str(&t);
                }
            }
        }
        // inline padding before / after tokens
        let pi = pad_info(root);
        for t in &r.toks {
            if t.node >= pi.before_ok.len() {
                continue;
            }
            // break a quoted value over two lines at a lone interior space (a single line break
            // inside a quoted scalar folds back into that space; the continuation line is
            // indented to the token's own column, which is deeper than any enclosing block)
            if let Some(tok) = &t.token
                && !pi.is_key[t.node]
                && t.node != 0
                && (tok.starts_with('\'') || tok.starts_with('"'))
                && rng.below(100) < 7 * intensity
            {
                let tc: Vec<char> = tok.chars().collect();
                let cands: Vec<usize> = (2..tc.len().saturating_sub(2))
                    .filter(|&j| tc[j] == ' ' && !matches!(tc[j - 1], ' ' | '\t' | '\\') && !matches!(tc[j + 1], ' ' | '\t'))
                    .collect();
                if !cands.is_empty() {
                    let j = *rng.pick(&cands);
                    let mut ls = t.char_start;
                    while ls > 0 && old[ls - 1] != '\n' && old[ls - 1] != '\r' {
                        ls -= 1;
                    }
                    let col = (t.char_start - ls).max(1) + rng.below(3);
                    let brk_here = format!("{brk}{}", " ".repeat(col));
                    ins[t.char_start + j].push_str(&brk_here);
                    let mut nt: String = tc[..j].iter().collect();
                    nt.push_str(&brk_here);
                    nt.extend(tc[j..].iter());
                    token_overrides.push((t.node, nt));
                    note("multi-line-quoted-scalar", &mut what);
                }
            }
            if pi.before_ok[t.node] && t.char_start > 0 && old[t.char_start - 1] == ' ' && rng.below(100) < 10 * intensity {
                let after_qmark = t.char_start >= 2 && old[t.char_start - 2] == '?';
                let pad = match rng.below(if after_qmark { 1 } else { 4 }) {
                    0 => " ",
                    1 => "\t",
                    2 => "  ",
                    _ => "\t ",
                };
                note("pad-before-token", &mut what);
                ins[t.char_start].push_str(pad);
            }
            if pi.in_flow[t.node]
                && let Some(tok) = &t.token
                && rng.below(100) < 8 * intensity
            {
                let end = t.char_start + tok.chars().count();
                if end < n && matches!(old[end], ',' | ']' | '}') {
                    let pad = match rng.below(3) {
                        0 => " ",
                        1 => "  ",
                        _ => " \t",
                    };
                    note("pad-after-flow-token", &mut what);
                    ins[end].push_str(pad);
                }
            }
        }
    }
    // prefix / suffix (applied at every intensity > 0, sometimes)
    let mut prefix = String::new();
    let mut bom = false;
    if intensity > 0 && allow_prefix {
        if rng.chance(1, 8) {
            bom = true;
            note("bom", &mut what);
        }
        match rng.below(10) {
            0 => {
                prefix.push_str(&format!("{}{}", comment_text(rng), brk));
                note("leading-comment", &mut what);
            }
            1 => {
                prefix.push_str(&format!("---{brk}"));
                note("doc-start-marker", &mut what);
            }
            2 => {
                prefix.push_str(&format!("--- {}{}", comment_text(rng), brk));
                note("doc-start-marker", &mut what);
            }
            3 => {
                prefix.push_str(&format!("%YAML 1.2{brk}--- # é{brk}"));
                note("directive", &mut what);
            }
            4 => {
                prefix.push_str(&format!("{brk}  {brk}# ü{brk}"));
                note("leading-comment", &mut what);
            }
            _ => {}
        }
        match rng.below(8) {
            0 => {
                ins[n].push_str(&format!("...{brk}"));
                note("doc-end-marker", &mut what);
            }
            1 => {
                ins[n].push_str(&format!("{}{}", comment_text(rng), brk));
                note("trailing-comment-line", &mut what);
            }
            2 => {
                ins[n].push_str(&comment_text(rng));
                note("no-final-break", &mut what);
            }
            _ => {}
        }
    }
    let mut text = String::new();
    let mut new_index = Vec::with_capacity(n + 1);
    let mut pos = 0usize;
    text.push_str(&prefix);
    pos += prefix.chars().count();
    for i in 0..=n {
        if !ins[i].is_empty() {
            text.push_str(&ins[i]);
            pos += ins[i].chars().count();
        }
        new_index.push(pos);
        if i < n {
            text.push(old[i]);
            pos += 1;
        }
    }
    Decorated { text, new_index, bom, what, token_overrides }
}
