//! Typed mirror driven at run time: walks the delivered structure of a document
//! the way derived code would (deserialize_seq / deserialize_map for the
//! containers on the path, `IgnoredAny` for siblings) and demands one concrete
//! type at exactly one node, so a type error is provoked at a known node.

use crate::stree::{SNode, ST};
use serde::de::{self, Deserialize, DeserializeSeed, Deserializer, IgnoredAny, MapAccess, SeqAccess, Visitor};
use std::fmt;

#[derive(Clone, Copy, Debug, PartialEq, Eq)]
pub enum Want {
    I64,
    Bool,
    U8,
    F64,
    Char,
    Unit,
    Str,
    SeqI64,
    MapStrI64,
    /// deserialize_any + a visitor that rejects everything with serde's own
    /// `invalid_type` (error raised outside the library)
    Reject,
    /// visitor raising `Error::custom`
    Custom,
}

pub const WANTS_ALL: &[Want] = &[
    Want::I64,
    Want::Bool,
    Want::U8,
    Want::F64,
    Want::Char,
    Want::Unit,
    Want::Str,
    Want::SeqI64,
    Want::MapStrI64,
    Want::Reject,
    Want::Custom,
];

impl Want {
    pub fn name(self) -> &'static str {
        match self {
            Want::I64 => "i64",
            Want::Bool => "bool",
            Want::U8 => "u8",
            Want::F64 => "f64",
            Want::Char => "char",
            Want::Unit => "unit",
            Want::Str => "String",
            Want::SeqI64 => "Vec<i64>",
            Want::MapStrI64 => "BTreeMap<String,i64>",
            Want::Reject => "visitor:invalid_type",
            Want::Custom => "visitor:custom",
        }
    }
    pub fn from_name(s: &str) -> Option<Want> {
        WANTS_ALL.iter().copied().find(|w| w.name() == s)
    }
}

struct Rejecter(bool);
impl<'de> Visitor<'de> for Rejecter {
    type Value = ();
    fn expecting(&self, f: &mut fmt::Formatter) -> fmt::Result {
        f.write_str("nothing at all")
    }
    fn visit_bool<E: de::Error>(self, v: bool) -> Result<(), E> {
        Err(self.err(de::Unexpected::Bool(v)))
    }
    fn visit_i64<E: de::Error>(self, v: i64) -> Result<(), E> {
        Err(self.err(de::Unexpected::Signed(v)))
    }
    fn visit_u64<E: de::Error>(self, v: u64) -> Result<(), E> {
        Err(self.err(de::Unexpected::Unsigned(v)))
    }
    fn visit_f64<E: de::Error>(self, v: f64) -> Result<(), E> {
        Err(self.err(de::Unexpected::Float(v)))
    }
    fn visit_str<E: de::Error>(self, v: &str) -> Result<(), E> {
        Err(self.err(de::Unexpected::Str(v)))
    }
    fn visit_unit<E: de::Error>(self) -> Result<(), E> {
        Err(self.err(de::Unexpected::Unit))
    }
    fn visit_none<E: de::Error>(self) -> Result<(), E> {
        Err(self.err(de::Unexpected::Option))
    }
    fn visit_seq<A: SeqAccess<'de>>(self, _: A) -> Result<(), A::Error> {
        Err(self.err(de::Unexpected::Seq))
    }
    fn visit_map<A: MapAccess<'de>>(self, _: A) -> Result<(), A::Error> {
        Err(self.err(de::Unexpected::Map))
    }
}
impl Rejecter {
    fn err<E: de::Error>(&self, u: de::Unexpected) -> E {
        if self.0 { E::custom("c16 custom rejection") } else { E::invalid_type(u, self) }
    }
}

pub struct PathSeed<'a> {
    pub node: &'a SNode,
    pub path: &'a [usize],
    pub want: Want,
}

impl<'de> DeserializeSeed<'de> for PathSeed<'_> {
    type Value = ();
    fn deserialize<D: Deserializer<'de>>(self, d: D) -> Result<(), D::Error> {
        if self.path.is_empty() {
            return match self.want {
                Want::I64 => i64::deserialize(d).map(|_| ()),
                Want::Bool => bool::deserialize(d).map(|_| ()),
                Want::U8 => u8::deserialize(d).map(|_| ()),
                Want::F64 => f64::deserialize(d).map(|_| ()),
                Want::Char => char::deserialize(d).map(|_| ()),
                Want::Unit => <()>::deserialize(d),
                Want::Str => String::deserialize(d).map(|_| ()),
                Want::SeqI64 => Vec::<i64>::deserialize(d).map(|_| ()),
                Want::MapStrI64 => std::collections::BTreeMap::<String, i64>::deserialize(d).map(|_| ()),
                Want::Reject => d.deserialize_any(Rejecter(false)),
                Want::Custom => d.deserialize_any(Rejecter(true)),
            };
        }
        match &self.node.value {
            ST::Seq(items) => d.deserialize_seq(SeqWalk { items, path: self.path, want: self.want }),
            ST::Map(entries) => d.deserialize_map(MapWalk { entries, path: self.path, want: self.want }),
            ST::Leaf(_) => Err(de::Error::custom("c16 harness: path goes through a leaf")),
        }
    }
}

struct SeqWalk<'a> {
    items: &'a [SNode],
    path: &'a [usize],
    want: Want,
}
impl<'de> Visitor<'de> for SeqWalk<'_> {
    type Value = ();
    fn expecting(&self, f: &mut fmt::Formatter) -> fmt::Result {
        f.write_str("a sequence")
    }
    fn visit_seq<A: SeqAccess<'de>>(self, mut seq: A) -> Result<(), A::Error> {
        let mut i = 0usize;
        loop {
            if i == self.path[0] && i < self.items.len() {
                if seq
                    .next_element_seed(PathSeed { node: &self.items[i], path: &self.path[1..], want: self.want })?
                    .is_none()
                {
                    break;
                }
            } else if seq.next_element::<IgnoredAny>()?.is_none() {
                break;
            }
            i += 1;
        }
        Ok(())
    }
}

struct MapWalk<'a> {
    entries: &'a [(SNode, SNode)],
    path: &'a [usize],
    want: Want,
}
impl<'de> Visitor<'de> for MapWalk<'_> {
    type Value = ();
    fn expecting(&self, f: &mut fmt::Formatter) -> fmt::Result {
        f.write_str("a mapping")
    }
    fn visit_map<A: MapAccess<'de>>(self, mut map: A) -> Result<(), A::Error> {
        let mut i = 0usize;
        loop {
            let in_range = i < self.entries.len();
            if in_range && self.path[0] == 2 * i {
                if map
                    .next_key_seed(PathSeed { node: &self.entries[i].0, path: &self.path[1..], want: self.want })?
                    .is_none()
                {
                    break;
                }
            } else if map.next_key::<IgnoredAny>()?.is_none() {
                break;
            }
            if in_range && self.path[0] == 2 * i + 1 {
                map.next_value_seed(PathSeed { node: &self.entries[i].1, path: &self.path[1..], want: self.want })?;
            } else {
                map.next_value::<IgnoredAny>()?;
            }
            i += 1;
        }
        Ok(())
    }
}

/// Run the typed mirror over `doc`, demanding `want` at delivered `path`.
pub fn run(doc: &str, root: &SNode, path: &[usize], want: Want, opts: serde_saphyr::Options) -> Result<(), serde_saphyr::Error> {
    serde_saphyr::with_deserializer_from_str_with_options(doc, opts, |d| PathSeed { node: root, path, want }.deserialize(d))
}
