//! Reference model: the raw parser's tree (`vcore::reftree::RNode`, positions as
//! the parser reported them) expanded the way the data model says — aliases
//! replaced by the anchored node, merge entries replaced by the entries of the
//! merged mapping(s) — while remembering, for every resulting node, where it is
//! *defined* and through which indirections (alias tokens, `<<` keys, merge
//! values) it was *reached*.

use crate::stree::{SNode, ST};
use saphyr_parser::ScalarStyle;
use std::collections::HashMap;
use vcore::reftree::{Pos, RNode};

#[derive(Clone, Copy, Debug, PartialEq, Eq)]
pub enum Indir {
    /// position of an alias token `*a`
    Alias(usize),
    /// position of a `<<` key
    MergeKey(usize),
    /// position of a merge value that is not itself an alias (`<<: {..}` / `<<: [..]`)
    /// or of a non-alias element of a merge sequence
    MergeVal(usize),
}

impl Indir {
    pub fn off(self) -> usize {
        match self {
            Indir::Alias(o) | Indir::MergeKey(o) | Indir::MergeVal(o) => o,
        }
    }
}

#[derive(Clone, Debug)]
pub enum XK {
    Leaf { value: String, style: ScalarStyle },
    Seq(Vec<X>),
    /// (key, value, ambiguous): ambiguous = the key text occurs more than once
    /// among explicit + merged entries, so which one is delivered is C03's
    /// business, not decided here
    Map(Vec<(X, X, bool)>),
}

#[derive(Clone, Debug)]
pub struct X {
    /// where the node is defined (parser position of the node itself)
    pub def: Pos,
    /// pre-order index of the defining node in the raw tree (for renderer tokens)
    pub pre: usize,
    /// indirections crossed on the way from the root, outermost first
    pub chain: Vec<Indir>,
    /// the node itself stands where an alias token stands (it *is* the alias)
    pub is_alias_itself: bool,
    pub kind: XK,
}

pub struct Anchors<'a> {
    by_id: HashMap<usize, (&'a RNode, usize)>,
}

/// Pre-order numbering identical to `ydoc::render`'s token ids (node, then
/// children; map entries key before value; an alias is one node).
pub fn index_anchors(root: &RNode) -> Anchors<'_> {
    fn go<'a>(n: &'a RNode, next: &mut usize, out: &mut HashMap<usize, (&'a RNode, usize)>) {
        let me = *next;
        *next += 1;
        if n.anchor() != 0 {
            out.insert(n.anchor(), (n, me));
        }
        match n {
            RNode::Seq { items, .. } => items.iter().for_each(|i| go(i, next, out)),
            RNode::Map { entries, .. } => entries.iter().for_each(|(k, v)| {
                go(k, next, out);
                go(v, next, out);
            }),
            _ => {}
        }
    }
    let mut by_id = HashMap::new();
    go(root, &mut 0, &mut by_id);
    Anchors { by_id }
}

fn is_merge_key(k: &RNode) -> bool {
    matches!(k, RNode::Scalar { value, style: ScalarStyle::Plain, tag: None, .. } if value == "<<")
}

fn subtree_size(n: &RNode) -> usize {
    match n {
        RNode::Seq { items, .. } => 1 + items.iter().map(subtree_size).sum::<usize>(),
        RNode::Map { entries, .. } => 1 + entries.iter().map(|(k, v)| subtree_size(k) + subtree_size(v)).sum::<usize>(),
        _ => 1,
    }
}

pub struct Expander<'a> {
    pub anchors: &'a Anchors<'a>,
    /// guard against runaway expansion / self reference
    pub budget: usize,
}

impl<'a> Expander<'a> {
    /// Expand node `n` whose pre-order index is `pre`. None = not expandable
    /// (unknown / self-referential alias, bad merge value, budget exceeded).
    pub fn expand(&mut self, n: &RNode, pre: usize, chain: &[Indir], open: &mut Vec<usize>) -> Option<X> {
        if self.budget == 0 {
            return None;
        }
        self.budget -= 1;
        match n {
            RNode::Alias { id, pos } => {
                if open.contains(id) {
                    return None;
                }
                let (target, tpre) = *self.anchors.by_id.get(id)?;
                // an alias may only refer to an anchor that is complete before it
                if target.pos().index >= pos.index {
                    return None;
                }
                let mut c = chain.to_vec();
                c.push(Indir::Alias(pos.index));
                let mut x = self.expand(target, tpre, &c, open)?;
                x.is_alias_itself = true;
                Some(x)
            }
            RNode::Scalar { value, style, pos, .. } => Some(X {
                def: *pos,
                pre,
                chain: chain.to_vec(),
                is_alias_itself: false,
                kind: XK::Leaf { value: value.clone(), style: *style },
            }),
            RNode::Seq { items, pos, anchor, .. } => {
                if *anchor != 0 {
                    open.push(*anchor);
                }
                let mut out = Vec::new();
                let mut p = pre + 1;
                for it in items {
                    out.push(self.expand(it, p, chain, open)?);
                    p += subtree_size(it);
                }
                if *anchor != 0 {
                    open.pop();
                }
                Some(X { def: *pos, pre, chain: chain.to_vec(), is_alias_itself: false, kind: XK::Seq(out) })
            }
            RNode::Map { pos, anchor, .. } => {
                if *anchor != 0 {
                    open.push(*anchor);
                }
                let entries = self.map_entries(n, pre, chain, open)?;
                if *anchor != 0 {
                    open.pop();
                }
                Some(X { def: *pos, pre, chain: chain.to_vec(), is_alias_itself: false, kind: XK::Map(entries) })
            }
        }
    }

    /// Entries of mapping `n` (explicit ones, then everything contributed by its
    /// merge entries), with ambiguity marks for repeated key texts.
    fn map_entries(&mut self, n: &RNode, pre: usize, chain: &[Indir], open: &mut Vec<usize>) -> Option<Vec<(X, X, bool)>> {
        let RNode::Map { entries, .. } = n else { return None };
        let mut out: Vec<(X, X, bool)> = Vec::new();
        let mut p = pre + 1;
        for (k, v) in entries {
            let kp = p;
            let vp = p + subtree_size(k);
            p = vp + subtree_size(v);
            if is_merge_key(k) {
                let mut c = chain.to_vec();
                c.push(Indir::MergeKey(k.pos().index));
                let mut merged = self.merged(v, vp, &c, open, true)?;
                out.append(&mut merged);
            } else {
                let kx = self.expand(k, kp, chain, open)?;
                let vx = self.expand(v, vp, chain, open)?;
                out.push((kx, vx, false));
            }
        }
        // ambiguity marks
        let texts: Vec<Option<String>> = out.iter().map(|(k, _, _)| key_text(k)).collect();
        for i in 0..out.len() {
            let dup = texts[i].is_none() || texts.iter().enumerate().any(|(j, t)| j != i && *t == texts[i]);
            out[i].2 = dup;
        }
        Some(out)
    }

    fn merged(&mut self, v: &RNode, vpre: usize, chain: &[Indir], open: &mut Vec<usize>, top: bool) -> Option<Vec<(X, X, bool)>> {
        if self.budget == 0 {
            return None;
        }
        self.budget -= 1;
        match v {
            RNode::Alias { id, pos } => {
                if open.contains(id) {
                    return None;
                }
                let (target, tpre) = *self.anchors.by_id.get(id)?;
                if target.pos().index >= pos.index {
                    return None;
                }
                let mut c = chain.to_vec();
                c.push(Indir::Alias(pos.index));
                match target {
                    RNode::Map { .. } => self.map_entries(target, tpre, &c, open),
                    RNode::Seq { .. } if top => self.merged_seq(target, tpre, &c, open),
                    _ => None,
                }
            }
            RNode::Map { pos, .. } => {
                let mut c = chain.to_vec();
                c.push(Indir::MergeVal(pos.index));
                self.map_entries(v, vpre, &c, open)
            }
            RNode::Seq { pos, .. } if top => {
                let mut c = chain.to_vec();
                c.push(Indir::MergeVal(pos.index));
                self.merged_seq(v, vpre, &c, open)
            }
            _ => None,
        }
    }

    fn merged_seq(&mut self, s: &RNode, spre: usize, chain: &[Indir], open: &mut Vec<usize>) -> Option<Vec<(X, X, bool)>> {
        let RNode::Seq { items, .. } = s else { return None };
        let mut out = Vec::new();
        let mut p = spre + 1;
        for it in items {
            let mut m = self.merged(it, p, chain, open, false)?;
            out.append(&mut m);
            p += subtree_size(it);
        }
        Some(out)
    }
}

pub fn key_text(k: &X) -> Option<String> {
    match &k.kind {
        XK::Leaf { value, .. } => Some(value.clone()),
        _ => None,
    }
}

pub fn expand_doc(root: &RNode) -> Option<X> {
    let anchors = index_anchors(root);
    let mut e = Expander { anchors: &anchors, budget: 20_000 };
    e.expand(root, 0, &[], &mut Vec::new())
}

/// What `deserialize_any` delivers as text for a scalar the model knows as
/// (`value`, `style`): only the unambiguous cases; None = do not compare.
fn leaf_text_matches(delivered: &str, value: &str, style: ScalarStyle) -> Option<bool> {
    if style != ScalarStyle::Plain {
        return Some(delivered == value);
    }
    // plain: strings that cannot be anything but strings, and canonical decimal integers
    let is_int = !value.is_empty()
        && value.len() < 18
        && value.bytes().all(|b| b.is_ascii_digit())
        && (value == "0" || !value.starts_with('0'));
    if is_int {
        return Some(delivered == value);
    }
    let first = value.chars().next()?;
    let stringy = (first.is_alphabetic() || !first.is_ascii())
        && !matches!(
            value.to_ascii_lowercase().as_str(),
            "y" | "n" | "yes" | "no" | "on" | "off" | "true" | "false" | "null" | "nan" | "inf"
        );
    if stringy {
        return Some(delivered == value);
    }
    None
}

/// One delivered node matched with its model node.
pub struct Matched<'a> {
    pub st: &'a SNode,
    pub x: &'a X,
    pub path: Vec<usize>,
    pub is_key: bool,
    /// delivered ancestors (outermost first), for the "enclosing container" rule
    pub ancestors: Vec<&'a SNode>,
    /// key node of the entry this node is the value of
    pub key_of_entry: Option<&'a SNode>,
    /// the node lies strictly inside a (complex) mapping key; the key node is given
    pub inside_key: Option<&'a SNode>,
}

/// Align the delivered tree with the model. `Err(reason)` = the two do not have
/// the same shape / scalar texts (model or merge-semantics disagreement —
/// inconclusive, never a location verdict). Entries with ambiguous keys are
/// skipped (returned in `skipped`).
pub fn align<'a>(st: &'a SNode, x: &'a X, out: &mut Vec<Matched<'a>>, skipped: &mut u64) -> Result<(), String> {
    fn go<'a>(
        st: &'a SNode,
        x: &'a X,
        path: &mut Vec<usize>,
        anc: &mut Vec<&'a SNode>,
        is_key: bool,
        key_of_entry: Option<&'a SNode>,
        inside_key: Option<&'a SNode>,
        out: &mut Vec<Matched<'a>>,
        skipped: &mut u64,
    ) -> Result<(), String> {
        match (&st.value, &x.kind) {
            (ST::Leaf(t), XK::Leaf { value, style }) => {
                if leaf_text_matches(t, value, *style) == Some(false) {
                    return Err(format!("leaf text {t:?} vs model {value:?} at {path:?}"));
                }
            }
            (ST::Seq(a), XK::Seq(b)) => {
                if a.len() != b.len() {
                    return Err(format!("sequence length {} vs model {} at {path:?}", a.len(), b.len()));
                }
            }
            (ST::Map(_), XK::Map(_)) => {}
            _ => return Err(format!("node kind differs at {path:?}")),
        }
        out.push(Matched { st, x, path: path.clone(), is_key, ancestors: anc.clone(), key_of_entry, inside_key });
        let child_inside = if is_key { Some(st) } else { inside_key };
        match (&st.value, &x.kind) {
            (ST::Seq(a), XK::Seq(b)) => {
                anc.push(st);
                for (i, (s, m)) in a.iter().zip(b.iter()).enumerate() {
                    path.push(i);
                    go(s, m, path, anc, false, None, child_inside, out, skipped)?;
                    path.pop();
                }
                anc.pop();
            }
            (ST::Map(a), XK::Map(b)) => {
                // A mapping without merge entries delivers its entries in document order:
                // align by position (this is what makes complex `? ` keys usable).
                let no_merge = b.iter().all(|(k, _, _)| k.chain.len() == x.chain.len() + usize::from(k.is_alias_itself));
                if no_merge {
                    if a.len() != b.len() {
                        return Err(format!("mapping has {} delivered entries, model {} at {path:?}", a.len(), b.len()));
                    }
                    anc.push(st);
                    for (i, ((ks, vs), (kx, vx, _))) in a.iter().zip(b.iter()).enumerate() {
                        path.push(2 * i);
                        go(ks, kx, path, anc, true, None, child_inside, out, skipped)?;
                        path.pop();
                        path.push(2 * i + 1);
                        go(vs, vx, path, anc, false, Some(ks), child_inside, out, skipped)?;
                        path.pop();
                    }
                    anc.pop();
                    return Ok(());
                }
                // with merges: by key text; complex keys count one each
                let mut distinct: Vec<&str> = Vec::new();
                let mut complex = 0usize;
                for (k, _, _) in b {
                    if let XK::Leaf { value, .. } = &k.kind {
                        if !distinct.contains(&value.as_str()) {
                            distinct.push(value);
                        }
                    } else {
                        complex += 1;
                    }
                }
                if (complex == 0 && a.len() != distinct.len()) || a.len() > distinct.len() + complex || a.len() < distinct.len() {
                    return Err(format!("mapping has {} delivered entries, model {} distinct keys at {path:?}", a.len(), distinct.len() + complex));
                }
                anc.push(st);
                for (i, (ks, vs)) in a.iter().enumerate() {
                    let ST::Leaf(kt) = &ks.value else {
                        *skipped += 1;
                        continue;
                    };
                    let cands: Vec<&(X, X, bool)> =
                        b.iter().filter(|(k, _, _)| matches!(&k.kind, XK::Leaf { value, .. } if value == kt)).collect();
                    if cands.is_empty() {
                        return Err(format!("delivered key {kt:?} not in model at {path:?}"));
                    }
                    if cands.len() > 1 || cands[0].2 {
                        *skipped += 1;
                        continue;
                    }
                    let (kx, vx, _) = cands[0];
                    path.push(2 * i);
                    go(ks, kx, path, anc, true, None, child_inside, out, skipped)?;
                    path.pop();
                    path.push(2 * i + 1);
                    go(vs, vx, path, anc, false, Some(ks), child_inside, out, skipped)?;
                    path.pop();
                }
                anc.pop();
            }
            _ => {}
        }
        Ok(())
    }
    go(st, x, &mut Vec::new(), &mut Vec::new(), false, None, None, out, skipped)
}
