//! C16 — reported locations are consistent with the input and name the right node.
//!
//! Oracles (all run on every execution):
//! 1. consistency: every `Location` obtained (all `Spanned` fields of a fully
//!    span-wrapped tree, every error location) lies inside the BOM-stripped
//!    input and its line / column / char offset / byte offset denote the same
//!    position (`lines::Index::recompute`, an independent recomputation with
//!    YAML break rules);
//! 2. defined = node: the `defined` location of every delivered node equals the
//!    raw parser's mark for the node the reference model (`model`) says it is;
//! 3. referenced = use site: the node's own position when it is written in
//!    place, the alias token when reached through an alias, the `<<` key or the
//!    merge value when reached through a merge;
//! 4. span exactness for single-line plain / quoted scalars:
//!    `input[byte range] ==` the token the renderer wrote;
//! 5. error = span: a type error provoked at a known node by a run-time typed
//!    mirror must report the referenced/defined pair the span-wrapped parse
//!    gave for that node (errors under an alias must carry both).

mod docgen;
mod families;
mod lines;
mod model;
mod stree;
mod typed;

use lines::{Index, LocKind, LocStats, check_loc};
use model::{Indir, Matched, XK};
use saphyr_parser::ScalarStyle;
use serde_json::{Value, json};
use serde_saphyr::Location;
use std::collections::BTreeMap;
use stree::{SNode, ST, collect, loc_str};
use typed::Want;
use vcore::reftree::{self, Pos, RNode};
use vcore::rng::{Rng, fnv_parts};
use vcore::run::{Finish, Run, Tier, par_range};
use vcore::treegen::{self, Leaf};
use vcore::ydoc::{self, Node, RenderOpts, Style};

/// Equality of the error's `defined` location with the span-wrapped `defined`
/// for nodes strictly inside a replayed (aliased / merged) container is not
/// demanded: the statement also allows "that of the anchored node". Flip to
/// make it a verdict.
const STRICT_ERROR_DEFINED_INSIDE_REPLAY: bool = false;

fn opts() -> serde_saphyr::Options {
    vcore::errs::unlimited_options()
}

type Counts = BTreeMap<&'static str, u64>;
fn bump(c: &mut Counts, k: &'static str) {
    *c.entry(k).or_insert(0) += 1;
}

thread_local! {
    static FILED: std::cell::RefCell<std::collections::HashMap<String, u64>> = std::cell::RefCell::new(std::collections::HashMap::new());
}
const FILE_CAP_PER_THREAD_AND_SIGNATURE: u64 = 8;

/// `run.violation` with a per-thread cap per signature: `Run::violation` keeps every case key,
/// which is quadratic when a broken build makes every node a violation. Everything beyond the
/// cap is only counted (`violations_counted_not_filed/<signature>`).
fn viol(run: &Run, sig: &str, case: Value, detail: impl Into<String>) {
    let n = FILED.with(|f| {
        let mut f = f.borrow_mut();
        let e = f.entry(sig.to_string()).or_insert(0);
        *e += 1;
        *e
    });
    if n <= FILE_CAP_PER_THREAD_AND_SIGNATURE {
        run.violation(sig, case, detail);
    }
}

/// Publish the counts of violations that were not filed (call at the end of a work item).
fn flush_viol(run: &Run) {
    FILED.with(|f| {
        let mut f = f.borrow_mut();
        for (sig, n) in f.iter_mut() {
            if *n > FILE_CAP_PER_THREAD_AND_SIGNATURE {
                let extra = *n - FILE_CAP_PER_THREAD_AND_SIGNATURE;
                run.count(&format!("violations_counted_not_filed/{sig}"), extra);
                *n = FILE_CAP_PER_THREAD_AND_SIGNATURE;
            }
        }
    })
}

fn consistency_sig(sig: &str, what: &str) -> String {
    if sig == "char-offset-counts-bytes-on-directive-line" {
        format!("C16:consistency:{sig}")
    } else {
        format!("C16:consistency:{sig}:{what}")
    }
}

thread_local! {
    static SEEN: std::cell::RefCell<std::collections::HashMap<&'static str, std::collections::HashSet<String>>> =
        std::cell::RefCell::new(std::collections::HashMap::new());
}

/// `run.observe` behind a per-thread cache (the global set is mutex-protected).
fn observe(run: &Run, set: &'static str, label: &str) {
    SEEN.with(|s| {
        let mut s = s.borrow_mut();
        let e = s.entry(set).or_default();
        if !e.contains(label) {
            e.insert(label.to_string());
            run.observe(set, label);
        }
    })
}

fn same_pos(a: &Location, b: &Location) -> bool {
    a.line() == b.line()
        && a.column() == b.column()
        && a.span().offset() == b.span().offset()
        && a.span().byte_offset() == b.span().byte_offset()
}

struct DocCase<'a> {
    /// text as handed to the library (may start with a BOM)
    text: &'a str,
    /// per document: renderer token per pre-order node id (None = not a single-line scalar / alias)
    tokens: Option<&'a [Vec<Option<String>>]>,
    /// the text is a stream of documents (read with `from_multiple`); no typed part
    multi: bool,
    /// which typed wants to try, and on how many nodes
    typed_nodes: usize,
    typed_wants: &'a [Want],
    /// restrict the typed part to one (path, want) — replay
    only: Option<(Vec<usize>, Want)>,
    source: &'static str,
}

fn case_json(c: &DocCase, extra: Value) -> Value {
    json!({
        "kind": if c.source == "short" { "short" } else { "doc" },
        "source": c.source,
        "text": c.text,
        "multi": c.multi,
        "tokens": c.tokens,
        "at": extra,
    })
}

fn pre_order(root: &RNode) -> Vec<&RNode> {
    fn go<'a>(n: &'a RNode, out: &mut Vec<&'a RNode>) {
        out.push(n);
        match n {
            RNode::Seq { items, .. } => items.iter().for_each(|i| go(i, out)),
            RNode::Map { entries, .. } => entries.iter().for_each(|(k, v)| {
                go(k, out);
                go(v, out);
            }),
            _ => {}
        }
    }
    let mut v = Vec::new();
    go(root, &mut v);
    v
}

/// Compare a library location with the raw parser's mark for the same node.
/// End of a single-/double-quoted scalar token that starts at byte `start` of `text`:
/// scan to the closing quote with the `''` / backslash rules (multi-line allowed).
/// Returns (char length, byte length) of the token including both quotes.
fn quoted_token_len(text: &str, start: usize, single: bool) -> Option<(usize, usize)> {
    let rest = text.get(start..)?;
    let mut it = rest.char_indices().peekable();
    let (_, q) = it.next()?;
    if q != if single { '\'' } else { '"' } {
        return None;
    }
    let mut chars = 1usize;
    while let Some((i, ch)) = it.next() {
        chars += 1;
        if single {
            if ch == '\'' {
                if matches!(it.peek(), Some((_, '\''))) {
                    it.next();
                    chars += 1;
                } else {
                    return Some((chars, i + 1));
                }
            }
        } else if ch == '\\' {
            if it.next().is_some() {
                chars += 1;
            }
        } else if ch == '"' {
            return Some((chars, i + 1));
        }
    }
    None
}

/// `quoted`: for single-/double-quoted scalars the expected length is that of the token up to
/// and including its closing quote (the raw parser's end mark runs on over trailing blanks and
/// a comment); offset / line / column always come from the parser's start mark.
fn vs_parser(l: &Location, p: &Pos, quoted: Option<(usize, usize)>) -> Result<(), (&'static str, String)> {
    let sp = l.span();
    if sp.offset() as usize != p.index {
        return Err(("char-offset", format!("char offset {} vs parser index {}", sp.offset(), p.index)));
    }
    if l.line() as usize != p.line {
        return Err(("line", format!("line {} vs parser line {}", l.line(), p.line)));
    }
    if l.column() as usize != p.col + 1 {
        return Err(("column", format!("column {} vs parser col {} + 1", l.column(), p.col)));
    }
    let plen = quoted.map(|q| q.0).unwrap_or(p.end_index.saturating_sub(p.index));
    if sp.len() as usize != plen {
        return Err((
            "char-len",
            format!("char len {} vs expected {plen} (parser span {}..{}, quoted token {:?})", sp.len(), p.index, p.end_index, quoted),
        ));
    }
    if let (Some(b), Some(eb)) = (p.byte, p.end_byte) {
        let blen = quoted.map(|q| q.1).unwrap_or(eb.saturating_sub(b));
        if (b, blen) == (0, 0) {
            // the crate's documented "unavailable" sentinel coincides with this value
            if sp.byte_offset().is_some_and(|x| x != 0) {
                return Err(("byte-offset", format!("byte offset {:?} vs parser 0", sp.byte_offset())));
            }
        } else {
            if sp.byte_offset() != Some(b as u64) {
                return Err(("byte-offset", format!("byte offset {:?} vs parser {b}", sp.byte_offset())));
            }
            if sp.byte_len() != Some(blen as u64) {
                return Err(("byte-len", format!("byte len {:?} vs parser {blen}", sp.byte_len())));
            }
        }
    }
    Ok(())
}

fn style_name(s: ScalarStyle) -> &'static str {
    match s {
        ScalarStyle::Plain => "plain",
        ScalarStyle::SingleQuoted => "single-quoted",
        ScalarStyle::DoubleQuoted => "double-quoted",
        ScalarStyle::Literal => "literal",
        ScalarStyle::Folded => "folded",
    }
}

/// Everything C16 checks about one input (one document, or a stream of documents
/// when `c.multi`). Returns false when the input could not be used (inconclusive
/// reasons are recorded on `run`).
fn check_doc(run: &Run, c: &DocCase, counts: &mut Counts) -> bool {
    let stripped = c.text.strip_prefix('\u{FEFF}').unwrap_or(c.text);
    let idx = Index::new(stripped);
    let roots: Vec<RNode> = if c.multi {
        match reftree::parse_stream(stripped) {
            Ok(docs) if docs.iter().all(|d| d.root.is_some()) => docs.into_iter().filter_map(|d| d.root).collect(),
            _ => {
                run.inconclusive("generator-invalid: raw parser rejects the stream or sees an empty document");
                return false;
            }
        }
    } else {
        match reftree::parse_one(stripped) {
            Some(r) => vec![r],
            None => {
                run.inconclusive("generator-invalid: raw parser does not see exactly one document");
                return false;
            }
        }
    };
    let mut xs = Vec::new();
    for root in &roots {
        let Some(x) = model::expand_doc(root) else {
            if std::env::var("C16_DEBUG").is_ok() {
                eprintln!("NOT-EXPANDABLE {:?}", c.text);
            }
            run.inconclusive("generator-invalid: document not expandable by the reference model");
            return false;
        };
        xs.push(x);
    }
    run.eval();
    let parsed = vcore::obs::catch(|| {
        if c.multi {
            serde_saphyr::from_multiple_with_options::<SNode>(c.text, opts())
        } else {
            serde_saphyr::from_str_with_options::<SNode>(c.text, opts()).map(|t| vec![t])
        }
    });
    let sts: Vec<SNode> = match parsed {
        Err(p) => {
            viol(run, &format!("C16:panic:{}", vcore::obs::panic_site(&p)), case_json(c, json!(null)), p);
            return false;
        }
        Ok(Err(e)) => {
            // whether a document is accepted is C02/C03's business; here only its location
            bump(counts, "span_parse_rejected");
            observe(run, "span_parse_error_kinds", &vcore::errs::kind(&e));
            check_error_consistency(run, &idx, &e, c, json!({"phase": "span-wrapped parse"}), counts);
            run.inconclusive("span-wrapped parse of a generated document failed (acceptance is not C16's subject)");
            return false;
        }
        Ok(Ok(sts)) => sts,
    };
    if sts.len() != roots.len() {
        run.inconclusive("model/delivery disagreement: number of documents delivered differs from the raw parser's");
        return false;
    }
    // the same text through the byte-slice entry point must carry the same locations
    if !c.multi && fnv_parts(&[c.text.as_bytes()]) % 8 == 0 {
        run.eval();
        if let Ok(Ok(t2)) = vcore::obs::catch(|| serde_saphyr::from_slice_with_options::<SNode>(c.text.as_bytes(), opts())) {
            bump(counts, "from_slice_compared");
            if t2 != sts[0] {
                viol(run, 
                    "C16:from_slice-locations-differ-from-from_str",
                    case_json(c, json!(null)),
                    "span-wrapped tree from from_slice differs from the one from from_str".to_string(),
                );
            }
        }
    }
    // a stream read through the iterator over a reader: positions are stream-absolute in the
    // same way (no byte info there); every delivered location must agree with from_multiple's
    if c.multi && !c.text.starts_with('\u{FEFF}') {
        run.eval();
        let got = vcore::obs::catch(|| {
            let mut cur = std::io::Cursor::new(c.text.as_bytes());
            serde_saphyr::read_with_options::<_, SNode>(&mut cur, opts()).collect::<Vec<_>>()
        });
        match got {
            Err(p) => viol(run, &format!("C16:panic:{}", vcore::obs::panic_site(&p)), case_json(c, json!({"entry": "read"})), p),
            Ok(items) => {
                if items.len() == sts.len() && items.iter().all(|r| r.is_ok()) {
                    bump(counts, "read_iterator_streams_compared");
                    for (k, (a, b)) in items.iter().zip(sts.iter()).enumerate() {
                        let a = a.as_ref().unwrap();
                        let (ra, rb) = (collect(a), collect(b));
                        if ra.len() != rb.len() {
                            run.inconclusive("read iterator delivered a differently shaped tree than from_multiple");
                            continue;
                        }
                        for (x, y) in ra.iter().zip(rb.iter()) {
                            for (which, l, m) in [("referenced", &x.referenced, &y.referenced), ("defined", &x.defined, &y.defined)] {
                                bump(counts, "read_iterator_locations_checked");
                                if (l.line(), l.column(), l.span().offset()) == (m.line(), m.column(), m.span().offset()) {
                                    continue;
                                }
                                // known class: the streaming input of the parser advances the char index by the
                                // byte length of a comment, so offsets after a comment with multi-byte text run ahead
                                let (lo, mo) = (l.span().offset() as usize, m.span().offset() as usize);
                                let prefix: String = stripped.chars().take(mo).collect();
                                let excess: usize = prefix.chars().map(|ch| ch.len_utf8() - 1).sum();
                                let sig = if (l.line(), l.column()) == (m.line(), m.column()) && lo > mo && lo - mo <= excess && prefix.contains('#') {
                                    "C16:reader:char-offset-counts-bytes-of-multibyte-comment"
                                } else {
                                    "C16:read-iterator-location-differs-from-from_multiple"
                                };
                                viol(
                                    run,
                                    sig,
                                    case_json(c, json!({"entry": "read", "doc": k, "path": x.path})),
                                    format!("{which} of node {:?} of document {k}: read gives [{}], from_multiple [{}]", x.path, loc_str(l), loc_str(m)),
                                );
                            }
                        }
                    }
                } else {
                    bump(counts, "read_iterator_streams_not_comparable");
                }
            }
        }
    }
    let mut all = true;
    for (k, ((root, x), st)) in roots.iter().zip(xs.iter()).zip(sts.iter()).enumerate() {
        let toks = c.tokens.and_then(|t| t.get(k)).map(|v| v.as_slice());
        all &= check_one(run, c, counts, &idx, stripped, root, x, st, k, toks);
    }
    all
}

#[allow(clippy::too_many_arguments)]
fn check_one(
    run: &Run,
    c: &DocCase,
    counts: &mut Counts,
    idx: &Index,
    stripped: &str,
    root: &RNode,
    x: &model::X,
    st: &SNode,
    doc_no: usize,
    tokens: Option<&[Option<String>]>,
) -> bool {
    let mut matched: Vec<Matched> = Vec::new();
    let mut skipped = 0u64;
    if let Err(why) = model::align(st, x, &mut matched, &mut skipped) {
        // still run the consistency oracle on everything delivered
        let mut stats = LocStats::default();
        for r in collect(st) {
            for (which, l) in [("referenced", &r.referenced), ("defined", &r.defined)] {
                if let Err((sig, detail)) = check_loc(idx, l, LocKind::Node, &mut stats) {
                    viol(run, 
                        &consistency_sig(&sig, "spanned"),
                        case_json(c, json!({"path": r.path, "which": which})),
                        format!("{which} of node {:?}: {detail} [{}]", r.path, loc_str(l)),
                    );
                }
            }
        }
        if std::env::var("C16_DEBUG").is_ok() { eprintln!("ALIGN {why} {:?}", c.text); }
        run.inconclusive("model/delivery disagreement: delivered tree does not align with the reference expansion");
        return false;
    }
    *counts.entry("entries_skipped_ambiguous_merge_key").or_insert(0) += skipped;
    bump(counts, "docs_checked");
    let pre = pre_order(root);
    let mut stats = LocStats::default();
    // nodes whose `referenced` already failed its own check: no error = span comparison on them
    let mut ref_failed: Vec<Vec<usize>> = Vec::new();

    for m in &matched {
        let st = m.st;
        let xn = m.x;
        let at = || json!({"doc": doc_no, "path": m.path, "is_key": m.is_key});
        bump(counts, "nodes_delivered");
        let through = !xn.chain.is_empty();
        let nontrivial = through || idx.nontrivial_before(xn.def.index);

        // (1) consistency
        let mut ok = true;
        for (which, l) in [("referenced", &st.referenced), ("defined", &st.defined)] {
            if *l == Location::UNKNOWN {
                viol(run, 
                    "C16:spanned-location-unknown",
                    case_json(c, at()),
                    format!("{which} of delivered node {:?} is Location::UNKNOWN", m.path),
                );
                ok = false;
                continue;
            }
            if let Err((sig, detail)) = check_loc(idx, l, LocKind::Node, &mut stats) {
                viol(run, 
                    &consistency_sig(&sig, "spanned"),
                    case_json(c, at()),
                    format!("{which} of node {:?}: {detail} [{}]", m.path, loc_str(l)),
                );
                ok = false;
            }
        }

        // (2) defined == the parser's mark of the defining node
        let quoted = match (&xn.kind, xn.def.byte) {
            (XK::Leaf { style: ScalarStyle::SingleQuoted, .. }, Some(b)) => quoted_token_len(stripped, b, true),
            (XK::Leaf { style: ScalarStyle::DoubleQuoted, .. }, Some(b)) => quoted_token_len(stripped, b, false),
            _ => None,
        };
        if matches!(&xn.kind, XK::Leaf { style: ScalarStyle::SingleQuoted | ScalarStyle::DoubleQuoted, .. }) && quoted.is_none() {
            // cannot establish the token end independently
            bump(counts, "quoted_token_rescan_failed");
        }
        let is_quoted = matches!(&xn.kind, XK::Leaf { style: ScalarStyle::SingleQuoted | ScalarStyle::DoubleQuoted, .. });
        let quoted = if is_quoted && quoted.is_none() {
            // no independent token end: no verdict on the length (take the reported one)
            Some((st.defined.span().len() as usize, st.defined.span().byte_len().unwrap_or(0) as usize))
        } else {
            quoted
        };
        if let Err((field, detail)) = vs_parser(&st.defined, &xn.def, quoted) {
            let sig = if st.defined.span().offset() as usize != xn.def.index {
                "C16:defined:names-another-node".to_string()
            } else {
                format!("C16:defined:differs-from-parser-mark:{field}")
            };
            viol(run, &sig, case_json(c, at()), format!("defined of node {:?}: {detail} [{}]", m.path, loc_str(&st.defined)));
            ok = false;
        }

        // (3) referenced == use site
        let roff = st.referenced.span().offset() as usize;
        if !through {
            if st.referenced != st.defined
                && let Some(k) = m.inside_key
                && same_pos(&st.referenced, &k.referenced)
            {
                viol(
                    run,
                    "C16:referenced:node-inside-in-place-complex-key-reports-key-start",
                    case_json(c, at()),
                    format!(
                        "node {:?} is written in place inside a complex key, but referenced [{}] is the key's start, defined [{}]",
                        m.path,
                        loc_str(&st.referenced),
                        loc_str(&st.defined)
                    ),
                );
                ok = false;
                ref_failed.push(m.path.clone());
            } else if st.referenced != st.defined {
                ref_failed.push(m.path.clone());
                viol(run, 
                    "C16:referenced:in-place-node-differs-from-defined",
                    case_json(c, at()),
                    format!("node {:?} is written in place but referenced [{}] != defined [{}]", m.path, loc_str(&st.referenced), loc_str(&st.defined)),
                );
                ok = false;
            }
        } else if m.is_key {
            if xn.is_alias_itself && xn.chain.len() == 1 {
                // `*a : v` — Spanned docs: "For aliases (*a): this is the location of the alias token."
                let want = xn.chain[0].off();
                if roff == want {
                    bump(counts, "alias_key_referenced_is_alias_token");
                } else if same_pos(&st.referenced, &st.defined) {
                    viol(run, 
                        "C16:alias-in-key-position:referenced-is-definition-site",
                        case_json(c, at()),
                        format!("key {:?} is the alias token at char {want}, but referenced [{}] == defined", m.path, loc_str(&st.referenced)),
                    );
                    ok = false;
                } else {
                    viol(run, 
                        "C16:alias-in-key-position:referenced-elsewhere",
                        case_json(c, at()),
                        format!("key {:?} is the alias token at char {want}, referenced [{}]", m.path, loc_str(&st.referenced)),
                    );
                    ok = false;
                }
            } else {
                bump(counts, "unspecified/key-inside-aliased-or-merged-container");
            }
        } else {
            let hit = xn.chain.iter().position(|i| i.off() == roff);
            match hit {
                Some(i) => {
                    let label = match (xn.chain[i], i == 0, xn.chain.len()) {
                        (Indir::Alias(_), _, 1) => "alias-token(single)",
                        (Indir::Alias(_), true, _) => "alias-token(outermost)",
                        (Indir::Alias(_), false, _) => "alias-token(inner)",
                        (Indir::MergeKey(_), _, _) => "merge-key",
                        (Indir::MergeVal(_), _, _) => "merge-value",
                    };
                    observe(run, "referenced_reading", label);
                    // the referenced location must be the full mark of that token
                    if let Indir::Alias(a) = xn.chain[i]
                        && let Some(tok) = pre.iter().find(|n| matches!(n, RNode::Alias { pos, .. } if pos.index == a))
                        && let Err((field, detail)) = vs_parser(&st.referenced, &tok.pos(), None)
                    {
                        viol(run, 
                            &format!("C16:referenced:differs-from-parser-mark:{field}"),
                            case_json(c, at()),
                            format!("referenced of node {:?}: {detail} [{}]", m.path, loc_str(&st.referenced)),
                        );
                        ok = false;
                    }
                }
                None => {
                    let only_merge = xn.chain.iter().all(|i| !matches!(i, Indir::Alias(_)));
                    let sig = if same_pos(&st.referenced, &st.defined) {
                        if only_merge { "C16:merge:referenced-is-definition-site" } else { "C16:alias:referenced-is-definition-site" }
                    } else if only_merge {
                        "C16:merge:referenced-elsewhere"
                    } else {
                        "C16:alias:referenced-elsewhere"
                    };
                    viol(run, 
                        sig,
                        case_json(c, at()),
                        format!(
                            "node {:?} reached through {:?}; referenced [{}], defined [{}]",
                            m.path,
                            xn.chain,
                            loc_str(&st.referenced),
                            loc_str(&st.defined)
                        ),
                    );
                    ok = false;
                }
            }
        }

        // (4) span exactness of single-line plain / quoted scalars
        if let XK::Leaf { style, .. } = &xn.kind {
            match style {
                ScalarStyle::Literal | ScalarStyle::Folded => bump(counts, "unspecified/span-end-of-block-scalar"),
                _ => {
                    if let Some(Some(tok)) = tokens.and_then(|t| t.get(xn.pre)) {
                        let multi_line = tok.contains('\n') || tok.contains('\r');
                        if multi_line && *style != ScalarStyle::Plain {
                            bump(counts, "multi_line_quoted_scalars_checked");
                        }
                        if multi_line && *style == ScalarStyle::Plain {
                            bump(counts, "unspecified/span-end-of-multi-line-scalar");
                        } else if let (Some(bo), Some(bl)) = (st.defined.span().byte_offset(), st.defined.span().byte_len()) {
                            let (bo, bl) = (bo as usize, bl as usize);
                            let slice = stripped.get(bo..bo + bl);
                            if slice == Some(tok.as_str()) && st.defined.span().len() as usize == tok.chars().count() {
                                bump(counts, "span_exact_ok");
                                observe(run, "span_exact_styles", style_name(*style));
                            } else {
                                let sname = style_name(*style);
                                let sig = match slice {
                                    Some(s) if s.starts_with(tok.as_str()) && *style != ScalarStyle::Plain => {
                                        let rest = &s[tok.len()..];
                                        let blanks = rest.trim_start_matches([' ', '\t']);
                                        if blanks.is_empty() || (blanks.starts_with('#') && !blanks.contains(['\n', '\r'])) {
                                            "C16:span-exact:quoted-scalar:span-includes-trailing-blanks-or-comment".to_string()
                                        } else {
                                            format!("C16:span-exact:{sname}:span-too-long")
                                        }
                                    }
                                    Some(s) if tok.starts_with(s) => format!("C16:span-exact:{sname}:span-too-short"),
                                    Some(_) => format!("C16:span-exact:{sname}:other-text"),
                                    None => format!("C16:span-exact:{sname}:range-not-on-char-boundary-or-outside"),
                                };
                                viol(run, 
                                    &sig,
                                    case_json(c, at()),
                                    format!("scalar token {tok:?} but input[{bo}..{}] = {slice:?} [{}]", bo + bl, loc_str(&st.defined)),
                                );
                                ok = false;
                            }
                        } else if (xn.def.byte, xn.def.end_byte) != (Some(0), Some(0)) {
                            viol(run, 
                                "C16:byte-info-missing-for-str-input",
                                case_json(c, at()),
                                format!("node {:?} from &str input has no byte info [{}]", m.path, loc_str(&st.defined)),
                            );
                            ok = false;
                        }
                    }
                }
            }
        }
        if ok && nontrivial {
            run.nontrivial(fnv_parts(&[c.text.as_bytes(), format!("{doc_no}{:?}", m.path).as_bytes()]));
            if through {
                bump(counts, "nodes_through_alias_or_merge");
            }
        }
    }

    // (5) error = span
    let pick: Vec<usize> = {
        let n = matched.len();
        if c.only.is_some() || n <= c.typed_nodes {
            (0..n).collect()
        } else {
            // deterministic spread, always including nodes reached through indirection first
            let mut through: Vec<usize> = (0..n).filter(|&i| !matched[i].x.chain.is_empty() && !matched[i].is_key).collect();
            let step = (through.len() / (c.typed_nodes / 2).max(1)).max(1);
            through = through.into_iter().step_by(step).take(c.typed_nodes / 2).collect();
            let mut v = through;
            let h = fnv_parts(&[c.text.as_bytes()]) as usize;
            let start = h % n;
            for k in 0..n {
                if v.len() >= c.typed_nodes {
                    break;
                }
                let i = (start + k) % n;
                if !v.contains(&i) {
                    v.push(i);
                }
            }
            v
        }
    };
    for &i in if c.multi { &[][..] } else { &pick[..] } {
        let m = &matched[i];
        if let Some((p, _)) = &c.only
            && *p != m.path
        {
            continue;
        }
        if m.is_key && !m.x.chain.is_empty() {
            continue; // span side unspecified (see above)
        }
        if ref_failed.contains(&m.path) {
            continue;
        }
        for &w in c.typed_wants {
            if let Some((_, ow)) = &c.only
                && *ow != w
            {
                continue;
            }
            let applicable = match (&m.st.value, w) {
                (ST::Leaf(_), _) => true,
                (ST::Seq(_), Want::SeqI64) | (ST::Map(_), Want::MapStrI64) => false,
                // a wrong element type inside a container is an error at the element, not here
                (ST::Seq(_), Want::MapStrI64) | (ST::Map(_), Want::SeqI64) => true,
                _ => true,
            };
            if !applicable {
                continue;
            }
            check_typed(run, c, idx, st, m, w, counts);
        }
    }

    run.max("max_nodes_in_a_document", matched.len() as u64);
    *counts.entry("locations_checked").or_insert(0) += stats.checked;
    *counts.entry("unspecified/linecol-after-lone-CR-or-legacy-break").or_insert(0) += stats.linecol_unspecified;
    *counts.entry("unspecified/eof-position-line-convention").or_insert(0) += stats.eof_line_convention;
    *counts.entry("locations_without_byte_info").or_insert(0) += stats.byte_absent;
    true
}

fn check_error_consistency(run: &Run, idx: &Index, e: &serde_saphyr::Error, c: &DocCase, at: Value, counts: &mut Counts) -> bool {
    let mut stats = LocStats::default();
    let mut ok = true;
    let mut locs: Vec<(&'static str, Location)> = Vec::new();
    if let Some(l) = e.location() {
        locs.push(("location()", l));
    }
    if let Some(ls) = e.locations() {
        locs.push(("locations().reference_location", ls.reference_location));
        locs.push(("locations().defined_location", ls.defined_location));
    }
    if locs.is_empty() {
        bump(counts, "errors_without_location");
    }
    for (which, l) in locs {
        if l == Location::UNKNOWN {
            continue;
        }
        if let Err((sig, detail)) = check_loc(idx, &l, LocKind::Error, &mut stats) {
            viol(run, 
                &consistency_sig(&sig, "error"),
                case_json(c, at.clone()),
                format!("{which} of {}: {detail} [{}]", vcore::errs::kind(e), loc_str(&l)),
            );
            ok = false;
        }
    }
    *counts.entry("error_locations_checked").or_insert(0) += stats.checked;
    *counts.entry("error_locations_len_past_end").or_insert(0) += stats.error_len_past_end;
    *counts.entry("unspecified/linecol-after-lone-CR-or-legacy-break").or_insert(0) += stats.linecol_unspecified;
    *counts.entry("unspecified/eof-position-line-convention").or_insert(0) += stats.eof_line_convention;
    ok
}

fn check_typed(run: &Run, c: &DocCase, idx: &Index, root: &SNode, m: &Matched, w: Want, counts: &mut Counts) {
    run.eval();
    let at = || json!({"path": m.path, "want": w.name(), "is_key": m.is_key});
    let res = vcore::obs::catch(|| typed::run(c.text, root, &m.path, w, opts()));
    let e = match res {
        Err(p) => {
            viol(run, &format!("C16:panic:{}", vcore::obs::panic_site(&p)), case_json(c, at()), p);
            return;
        }
        Ok(Ok(())) => {
            bump(counts, "typed_no_error_provoked");
            return;
        }
        Ok(Err(e)) => e,
    };
    let kind = vcore::errs::kind(&e);
    observe(run, "typed_error_kinds", &kind);
    bump(counts, "typed_errors_provoked");
    if !check_error_consistency(run, idx, &e, c, at(), counts) {
        return;
    }
    let st = m.st;
    let through = !m.x.chain.is_empty();
    let visitor_raised = matches!(w, Want::Reject | Want::Custom);
    let primary = e.location();
    let locs = e.locations();
    let describe = || {
        format!(
            "{kind} for {} at node {:?}: error location {:?} / locations {:?}; span-wrapped parse gave referenced [{}] defined [{}]; message: {}",
            w.name(),
            m.path,
            primary.map(|l| loc_str(&l)),
            locs.map(|l| (loc_str(&l.reference_location), loc_str(&l.defined_location))),
            loc_str(&st.referenced),
            loc_str(&st.defined),
            e.without_snippet().to_string().replace('\n', " / ")
        )
    };
    let nontrivial = through || idx.nontrivial_before(m.x.def.index);
    let mark_nt = || {
        if nontrivial {
            run.nontrivial(fnv_parts(&[c.text.as_bytes(), format!("{:?}", m.path).as_bytes(), w.name().as_bytes()]));
        }
    };

    if visitor_raised {
        // The error is created outside the library (serde's `invalid_type` / `custom` from a
        // visitor); the library can only attach a best-effort location afterwards. Accepted:
        // the node itself; the key of its entry (documented fallback) — the latter without verdict.
        let Some(p) = primary else {
            bump(counts, "unspecified/visitor-raised-error-without-location");
            return;
        };
        if same_pos(&p, &st.referenced) || same_pos(&p, &st.defined) {
            bump(counts, "visitor_error_at_node");
            mark_nt();
            return;
        }
        if let Some(k) = m.key_of_entry
            && (same_pos(&p, &k.referenced) || same_pos(&p, &k.defined))
        {
            bump(counts, "unspecified/visitor-raised-error-located-at-entry-key");
            return;
        }
        if m.ancestors.iter().any(|a| same_pos(&p, &a.referenced) || same_pos(&p, &a.defined)) {
            bump(counts, "unspecified/visitor-raised-error-located-at-enclosing-container");
            return;
        }
        if collect(st).iter().any(|d| same_pos(&p, &d.referenced) || same_pos(&p, &d.defined)) {
            bump(counts, "unspecified/visitor-raised-error-located-inside-the-node");
            return;
        }
        viol(run, "C16:error-vs-span:visitor-raised:located-at-unrelated-node", case_json(c, at()), describe());
        return;
    }

    let Some(ls) = locs else {
        viol(run, "C16:error-vs-span:no-location", case_json(c, at()), describe());
        return;
    };
    let Some(p) = primary else {
        viol(run, "C16:error-vs-span:no-location", case_json(c, at()), describe());
        return;
    };
    // primary location is the use site
    let exp_primary = if ls.reference_location != Location::UNKNOWN { ls.reference_location } else { ls.defined_location };
    if p != exp_primary {
        viol(run, "C16:error-vs-span:location-not-primary-of-locations", case_json(c, at()), describe());
        return;
    }
    if !same_pos(&ls.reference_location, &st.referenced) {
        let sig = if through && same_pos(&ls.reference_location, &st.defined) && same_pos(&ls.defined_location, &st.referenced) {
            "C16:error-vs-span:under-alias:pair-swapped"
        } else if through && same_pos(&ls.reference_location, &ls.defined_location) {
            "C16:error-vs-span:under-alias:only-one-location"
        } else if through {
            "C16:error-vs-span:under-alias:referenced-differs"
        } else {
            "C16:error-vs-span:referenced-differs"
        };
        viol(run, sig, case_json(c, at()), describe());
        return;
    }
    if same_pos(&ls.defined_location, &st.defined) {
        if ls.defined_location.span().len() != st.defined.span().len() {
            bump(counts, "typed_error_span_len_differs_from_node_span_len");
        }
        bump(counts, if through { "typed_error_equals_span_pair_through_alias_or_merge" } else { "typed_error_equals_span_in_place" });
        mark_nt();
        return;
    }
    // defined differs
    let enclosing = through
        && m.ancestors
            .iter()
            .any(|a| same_pos(&a.referenced, &st.referenced) && a.referenced != a.defined && same_pos(&a.defined, &ls.defined_location));
    if enclosing && !STRICT_ERROR_DEFINED_INSIDE_REPLAY {
        bump(counts, "unspecified/error-defined-is-enclosing-replayed-container");
        return;
    }
    let sig = if enclosing {
        "C16:error-vs-span:under-alias:defined-is-enclosing-replayed-container"
    } else if through {
        "C16:error-vs-span:under-alias:defined-differs"
    } else {
        "C16:error-vs-span:defined-differs"
    };
    viol(run, sig, case_json(c, at()), describe());
}

// ------------------------------------------------------------ short strings

const ALPHABET: &[&str] = &[
    "a", "1", " ", "\n", "\t", "-", ":", "?", "[", "]", "{", "}", ",", "&a", "*a", "!t", "|", ">", "'", "\"", "#", "%", "<<", "---",
    "...", "~", "\\", "é", // the C01 alphabet (DESIGN §5 C01)
    "\r\n", "\r", // C16's own addition: the other break styles
];

fn short_string(mut i: usize, len: usize) -> String {
    let mut s = String::new();
    for _ in 0..len {
        s.push_str(ALPHABET[i % ALPHABET.len()]);
        i /= ALPHABET.len();
    }
    s
}

#[derive(serde::Deserialize, Debug)]
#[allow(dead_code)]
struct Rec {
    a: i64,
    #[serde(default)]
    b: Option<Vec<bool>>,
}

fn check_short(run: &Run, text: &str, counts: &mut Counts) {
    let stripped = text.strip_prefix('\u{FEFF}').unwrap_or(text);
    let idx = Index::new(stripped);
    let c = DocCase { text, tokens: None, multi: false, typed_nodes: 0, typed_wants: &[], only: None, source: "short" };
    let case = |target: &str| json!({"kind": "short", "text": text, "target": target});
    let any_loc_past0 = std::cell::Cell::new(false);
    let on_err = |e: &serde_saphyr::Error, target: &str, counts: &mut Counts| {
        observe(run, "short_error_kinds", &vcore::errs::kind(e));
        bump(counts, "short_errors");
        if let Some(l) = e.location() {
            let off = l.span().offset() as usize;
            if off > 0 && idx.nontrivial_before(off) {
                any_loc_past0.set(true);
            }
        }
        check_error_consistency(run, &idx, e, &c, json!({"target": target}), counts);
    };
    // span-wrapped tree
    run.eval();
    match vcore::obs::catch(|| serde_saphyr::from_str_with_options::<SNode>(text, opts())) {
        Err(p) => viol(run, &format!("C16:panic:{}", vcore::obs::panic_site(&p)), case("SNode"), p),
        Ok(Ok(st)) => {
            bump(counts, "short_ok_trees");
            let mut stats = LocStats::default();
            for r in collect(&st) {
                for (which, l) in [("referenced", &r.referenced), ("defined", &r.defined)] {
                    if *l == Location::UNKNOWN {
                        // an empty document has no node at all; the synthesized null carries the last seen mark
                        bump(counts, "short_unknown_location");
                        continue;
                    }
                    let off = l.span().offset() as usize;
                    if off > 0 && idx.nontrivial_before(off) {
                        any_loc_past0.set(true);
                    }
                    if let Err((sig, detail)) = check_loc(&idx, l, LocKind::Node, &mut stats) {
                        viol(run, 
                            &consistency_sig(&sig, "spanned"),
                            case("SNode"),
                            format!("{which} of node {:?}: {detail} [{}]", r.path, loc_str(l)),
                        );
                    }
                }
            }
            *counts.entry("locations_checked").or_insert(0) += stats.checked;
            *counts.entry("unspecified/linecol-after-lone-CR-or-legacy-break").or_insert(0) += stats.linecol_unspecified;
            *counts.entry("unspecified/eof-position-line-convention").or_insert(0) += stats.eof_line_convention;
        }
        Ok(Err(e)) => on_err(&e, "SNode", counts),
    }
    // a few typed targets so that type errors (not only scan errors) are located
    run.eval();
    match vcore::obs::catch(|| serde_saphyr::from_str_with_options::<Vec<i64>>(text, opts())) {
        Err(p) => viol(run, &format!("C16:panic:{}", vcore::obs::panic_site(&p)), case("Vec<i64>"), p),
        Ok(Err(e)) => on_err(&e, "Vec<i64>", counts),
        Ok(Ok(_)) => {}
    }
    run.eval();
    match vcore::obs::catch(|| serde_saphyr::from_str_with_options::<Rec>(text, opts())) {
        Err(p) => viol(run, &format!("C16:panic:{}", vcore::obs::panic_site(&p)), case("Rec"), p),
        Ok(Err(e)) => on_err(&e, "Rec", counts),
        Ok(Ok(_)) => {}
    }
    run.eval();
    match vcore::obs::catch(|| serde_saphyr::from_str_with_options::<BTreeMap<String, bool>>(text, opts())) {
        Err(p) => viol(run, &format!("C16:panic:{}", vcore::obs::panic_site(&p)), case("BTreeMap<String,bool>"), p),
        Ok(Err(e)) => on_err(&e, "BTreeMap<String,bool>", counts),
        Ok(Ok(_)) => {}
    }
    if any_loc_past0.get() {
        run.nontrivial(fnv_parts(&[b"short", text.as_bytes()]));
    }
}

// ------------------------------------------------------------ generated docs

fn tokens_by_pre(r: &ydoc::Rendered, n_nodes: usize) -> Vec<Option<String>> {
    let mut v = vec![None; n_nodes];
    for t in &r.toks {
        if t.node < n_nodes {
            v[t.node] = t.token.clone();
        }
    }
    v
}

/// Render + decorate + confirm with the raw parser that the text still means the
/// intended tree and that the renderer's token positions are the parser's.
fn build_doc(
    run: &Run,
    rng: &mut Rng,
    tree: &Node,
    ro: &RenderOpts,
    has_block: bool,
    intensity: usize,
    allow_prefix: bool,
) -> Option<(String, Vec<Option<String>>, Vec<&'static str>)> {
    let r = ydoc::render(tree, ro);
    let d = docgen::decorate(rng, &r, tree, ro.brk, has_block, intensity, allow_prefix);
    let Some(root) = reftree::parse_one(&d.text) else {
        if std::env::var("C16_DEBUG").is_ok() {
            eprintln!("REJECTED {:?} | {:?}", reftree::parse_stream(&d.text).err().map(|e| (e.info, e.line, e.col)), d.text);
        }
        run.inconclusive("generator-invalid: decorated document rejected by the raw parser");
        return None;
    };
    if reftree::rnode_shape_anon(&root) != reftree::node_shape(tree) {
        if std::env::var("C16_DEBUG").is_ok() { eprintln!("DIFFTREE {:?}\n   und {:?}", d.text, r.text); }
        run.inconclusive("generator-invalid: decorated document parsed as a different tree");
        return None;
    }
    // renderer's idea of where each node starts vs the parser's
    let pre = pre_order(&root);
    for t in &r.toks {
        let Some(n) = pre.get(t.node) else {
            run.inconclusive("generator-invalid: token numbering differs from the parser's pre-order");
            return None;
        };
        let new_start = d.new_index[t.char_start.min(d.new_index.len() - 1)];
        if matches!(n, RNode::Scalar { style: ScalarStyle::Literal | ScalarStyle::Folded, .. }) {
            // the parser marks a block scalar at its first content character, the renderer at
            // the `|` / `>` indicator: which one is "the start" is not pinned down
            run.count("unspecified/block-scalar-start-convention", 1);
            continue;
        }
        if n.pos().index != new_start {
            if std::env::var("C16_DEBUG").is_ok() { eprintln!("RENDERPOS node {} renderer {} parser {} {:?}", t.node, new_start, n.pos().index, d.text); }
            run.inconclusive("renderer/parser disagreement about a node's start position");
            return None;
        }
    }
    let mut toks = tokens_by_pre(&r, pre.len());
    for (node, t) in &d.token_overrides {
        if let Some(slot) = toks.get_mut(*node) {
            *slot = Some(t.clone());
        }
    }
    let text = if d.bom { format!("\u{FEFF}{}", d.text) } else { d.text };
    Some((text, toks, d.what))
}

const LEAVES_C16: &[Leaf] = &[
    Leaf { text: "é", style: Style::Plain, unique: true },
    Leaf { text: "7", style: Style::Plain, unique: false },
    Leaf { text: "ü ✓", style: Style::Double, unique: false },
    Leaf { text: "q 😀", style: Style::Single, unique: false },
    Leaf { text: "a\\'b\\", style: Style::Single, unique: false },
    Leaf { text: "'", style: Style::Single, unique: false },
    Leaf { text: "a\\\"", style: Style::Double, unique: false },
];

const LEAVES_C16_TINY: &[Leaf] = &[
    Leaf { text: "é", style: Style::Plain, unique: true },
    Leaf { text: "a\\'b\\ ü", style: Style::Single, unique: false },
];

const LEAVES_C16_SMALL: &[Leaf] = &[
    Leaf { text: "é", style: Style::Plain, unique: true },
    Leaf { text: "ü ✓", style: Style::Double, unique: false },
    Leaf { text: "a\\'b\\", style: Style::Single, unique: false },
];

/// One anchor + one alias (optionally as a merge) on a base tree: every placement.
#[allow(dead_code)]
fn single_alias_decorations(base: &Node) -> Vec<Node> {
    let paths = treegen::node_paths(base);
    let mut out = vec![base.clone()];
    for (ai, ap) in paths.iter().enumerate() {
        if ap.is_empty() {
            continue;
        }
        for (qi, qp) in paths.iter().enumerate() {
            // alias strictly after the anchored node in document order and not inside it
            if qi <= ai || qp.starts_with(ap) {
                continue;
            }
            let leafish = match treegen::node_at(base, qp) {
                Node::Scalar { .. } => true,
                Node::Seq { items, .. } => items.is_empty(),
                Node::Map { entries, .. } => entries.is_empty(),
                Node::Alias(_) => false,
            };
            if !leafish {
                continue;
            }
            let mut t = base.clone();
            let n = treegen::node_at_mut(&mut t, ap);
            *n = n.clone().with_anchor("a");
            *treegen::node_at_mut(&mut t, qp) = Node::alias("a");
            out.push(t.clone());
            // merge variant: the alias is a map value and the anchored node a mapping
            if let Some((&last, parent)) = qp.split_last()
                && last % 2 == 1
                && matches!(treegen::node_at(base, parent), Node::Map { .. })
                && matches!(treegen::node_at(base, ap), Node::Map { .. })
            {
                let mut kp = parent.to_vec();
                kp.push(last - 1);
                if kp != *ap {
                    *treegen::node_at_mut(&mut t, &kp) = Node::plain("<<");
                    out.push(t);
                }
            }
        }
    }
    out
}

/// Up to two anchors (names a,a / a,b) and up to two aliases (*a / *b) on a base tree, every
/// placement, plus the merge-key variant of an alias that is a mapping value; only trees the
/// data model can expand (every alias has an earlier, closed anchor) are kept.
fn two_alias_decorations(base: &Node) -> Vec<Node> {
    let paths = treegen::node_paths(base);
    let leaf_paths: Vec<&Vec<usize>> = paths
        .iter()
        .filter(|p| match treegen::node_at(base, p) {
            Node::Scalar { .. } => true,
            Node::Seq { items, .. } => items.is_empty(),
            Node::Map { entries, .. } => entries.is_empty(),
            Node::Alias(_) => false,
        })
        .collect();
    let mut anchor_sets: Vec<Vec<(&Vec<usize>, &str)>> = Vec::new();
    for p in &paths {
        anchor_sets.push(vec![(p, "a")]);
    }
    for i in 0..paths.len() {
        for j in (i + 1)..paths.len() {
            anchor_sets.push(vec![(&paths[i], "a"), (&paths[j], "a")]);
            anchor_sets.push(vec![(&paths[i], "a"), (&paths[j], "b")]);
        }
    }
    let mut alias_sets: Vec<Vec<(&Vec<usize>, &str)>> = Vec::new();
    for p in &leaf_paths {
        alias_sets.push(vec![(p, "a")]);
        alias_sets.push(vec![(p, "b")]);
    }
    for i in 0..leaf_paths.len() {
        for j in (i + 1)..leaf_paths.len() {
            for (x, y) in [("a", "a"), ("a", "b"), ("b", "a"), ("b", "b")] {
                alias_sets.push(vec![(leaf_paths[i], x), (leaf_paths[j], y)]);
            }
        }
    }
    let mut out = vec![base.clone()];
    for an in &anchor_sets {
        for al in &alias_sets {
            if an.iter().any(|(p, _)| al.iter().any(|(q, _)| p == q)) {
                continue;
            }
            let mut t = base.clone();
            for (p, name) in an {
                let n = treegen::node_at_mut(&mut t, p);
                *n = n.clone().with_anchor(name);
            }
            for (p, name) in al {
                *treegen::node_at_mut(&mut t, p) = Node::alias(name);
            }
            if ydoc::expand(&t).is_none() {
                continue;
            }
            out.push(t.clone());
            for (p, _) in al {
                if let Some((&last, parent)) = p.split_last()
                    && last % 2 == 1
                    && matches!(treegen::node_at(&t, parent), Node::Map { .. })
                {
                    let mut t2 = t.clone();
                    let mut kp = parent.to_vec();
                    kp.push(last - 1);
                    let key = treegen::node_at_mut(&mut t2, &kp);
                    if key.anchor().is_none() && !matches!(key, Node::Alias(_)) {
                        *key = Node::plain("<<");
                        if ydoc::expand(&t2).is_some_and(|e| merges_ok(&e)) {
                            out.push(t2);
                        }
                    }
                }
            }
        }
    }
    out
}

/// In an alias-free tree: every `<<` value is a mapping (or a sequence of mappings).
fn merges_ok(n: &Node) -> bool {
    match n {
        Node::Seq { items, .. } => items.iter().all(merges_ok),
        Node::Map { entries, .. } => entries.iter().all(|(k, v)| {
            let is_merge = matches!(k, Node::Scalar { text, style: Style::Plain, tag: None, .. } if text == "<<");
            let v_ok = !is_merge
                || match v {
                    Node::Map { .. } => true,
                    Node::Seq { items, .. } => items.iter().all(|i| matches!(i, Node::Map { .. })),
                    _ => false,
                };
            v_ok && merges_ok(k) && merges_ok(v)
        }),
        _ => true,
    }
}

fn replay(run: &Run, rep: &Value) {
    let case = &rep["case"];
    let mut counts = Counts::new();
    let text = case["text"].as_str().unwrap_or("").to_string();
    if case["kind"].as_str() == Some("short") {
        check_short(run, &text, &mut counts);
        return;
    }
    if case["kind"].as_str() == Some("enum") {
        let c = families::EnumCase { text: &text, label: case["label"].as_str().unwrap_or("").to_string(), bad: case["bad"].as_bool().unwrap_or(false) };
        families::check_enum(run, &|sig, cs, d| viol(run, sig, cs, d), &c, &mut counts);
        return;
    }
    if case["kind"].as_str() == Some("static") {
        let p = &case["params"];
        let kinds = families::static_kinds();
        let kind = kinds[(p["kind"].as_u64().unwrap_or(0) as usize).min(kinds.len() - 1)];
        let holder = match p["holder"].as_i64().unwrap_or(-1) {
            -1 => families::Holder::Field,
            i => families::Holder::Elem(i as usize),
        };
        if let Some(d) = families::static_doc(kind, holder, p["via_alias"].as_bool().unwrap_or(false), p["flow"].as_bool().unwrap_or(false), p["unknown_key"].as_str().unwrap_or("zz")) {
            families::check_static(run, &|sig, cs, dd| viol(run, sig, cs, dd), &text, kind, &d, p, &mut counts);
        }
        return;
    }
    let tokens: Option<Vec<Vec<Option<String>>>> = case["tokens"].as_array().map(|docs| {
        docs.iter()
            .map(|d| d.as_array().map(|a| a.iter().map(|t| t.as_str().map(|s| s.to_string())).collect()).unwrap_or_default())
            .collect()
    });
    let only = match (case["at"]["path"].as_array(), case["at"]["want"].as_str().and_then(Want::from_name)) {
        (Some(p), Some(w)) => Some((p.iter().filter_map(|x| x.as_u64().map(|x| x as usize)).collect(), w)),
        _ => None,
    };
    let c = DocCase {
        text: &text,
        tokens: tokens.as_deref(),
        multi: case["multi"].as_bool().unwrap_or(false),
        typed_nodes: usize::MAX,
        typed_wants: typed::WANTS_ALL,
        only,
        source: "replay",
    };
    check_doc(run, &c, &mut counts);
}

fn main() {
    let run = Run::from_args("C16");
    if let Some(rep) = run.is_replay() {
        replay(&run, rep);
        run.finish(Finish::new("replay"));
    }
    let tier = run.tier;

    // ---- part 1: exhaustive short token strings (consistency of every location)
    let max_len = tier.pick(4, 5);
    let mut total_short = 0usize;
    for len in 0..=max_len {
        let n = ALPHABET.len().pow(len as u32);
        total_short += n;
        par_range(n, |i| {
            let mut counts = Counts::new();
            let s = short_string(i, len);
            check_short(&run, &s, &mut counts);
            if i % 20011 == 7 {
                run.sample(|| json!({"kind": "short", "text": s}));
            }
            run.count_map(&counts);
            flush_viol(&run);
        });
    }
    run.count("short_strings", total_short as u64);

    // ---- part 2: exhaustive small trees x up to two anchors + two aliases (+ merge variants) x layouts x breaks x prefixes
    struct Level {
        nodes: std::ops::RangeInclusive<usize>,
        leaves: &'static [Leaf],
        brks: &'static [&'static str],
        prefixes: &'static [&'static str],
        wants: &'static [Want],
        what: &'static str,
    }
    const W4: &[Want] = &[Want::I64, Want::Bool, Want::Unit, Want::Reject];
    const W1: &[Want] = &[Want::I64];
    const B3: &[&str] = &["\n", "\r\n", "\r"];
    const B2: &[&str] = &["\n", "\r\n"];
    const B1: &[&str] = &["\r\n"];
    const P3: &[&str] = &["", "# é✓ 😀", "\u{FEFF}"];
    const P2: &[&str] = &["# é✓ 😀", "\u{FEFF}"];
    const P1: &[&str] = &["# é✓ 😀"];
    let levels: Vec<Level> = match tier {
        Tier::Quick => vec![
            Level { nodes: 1..=4, leaves: LEAVES_C16, brks: B3, prefixes: P3, wants: W4, what: "<=4 nodes over 7 scalar leaves x {LF,CRLF,CR} x {no prefix, multi-byte comment line, BOM} x 4 typed demands per node" },
            Level { nodes: 5..=5, leaves: LEAVES_C16_SMALL, brks: B3, prefixes: P2, wants: W4, what: "5 nodes over 3 scalar leaves x {LF,CRLF,CR} x {comment line, BOM} x 4 typed demands" },
            Level { nodes: 6..=6, leaves: LEAVES_C16_TINY, brks: B2, prefixes: P1, wants: W1, what: "6 nodes over 2 scalar leaves x {LF,CRLF} x {comment line} x 1 typed demand" },
        ],
        Tier::Thorough => vec![
            Level { nodes: 1..=4, leaves: LEAVES_C16, brks: B3, prefixes: P3, wants: W4, what: "<=4 nodes over 7 scalar leaves x {LF,CRLF,CR} x {no prefix, multi-byte comment line, BOM} x 4 typed demands per node" },
            Level { nodes: 5..=5, leaves: LEAVES_C16_SMALL, brks: B3, prefixes: P3, wants: W4, what: "5 nodes over 3 scalar leaves x {LF,CRLF,CR} x {no prefix, comment line, BOM} x 4 typed demands" },
            Level { nodes: 6..=6, leaves: LEAVES_C16_TINY, brks: B3, prefixes: P2, wants: W4, what: "6 nodes over 2 scalar leaves x {LF,CRLF,CR} x {comment line, BOM} x 4 typed demands" },
            Level { nodes: 7..=7, leaves: LEAVES_C16_TINY, brks: B1, prefixes: P1, wants: W1, what: "7 nodes over 2 scalar leaves x CRLF x {comment line} x 1 typed demand" },
        ],
    };
    let mut bases: Vec<(Node, usize)> = Vec::new();
    for (li, l) in levels.iter().enumerate() {
        let before = bases.len();
        for n in l.nodes.clone() {
            bases.extend(treegen::base_trees(n, l.leaves).into_iter().map(|t| (t, li)));
        }
        run.count(&format!("small_tree_level_{li}_base_trees"), (bases.len() - before) as u64);
    }
    let small_scope: Vec<String> = levels.iter().map(|l| l.what.to_string()).collect();
    par_range(bases.len(), |bi| {
        let mut counts = Counts::new();
        let mut rng = Rng::stream(0xC16, bi as u64); // decoration is off here; rng unused by intensity 0
        let (base, li) = &bases[bi];
        let level = &levels[*li];
        let (brks, prefixes, wants_small) = (level.brks, level.prefixes, level.wants);
        for t in two_alias_decorations(base) {
            bump(&mut counts, "small_tree_decorated_trees");
            for flow in [false, true] {
                let mut t = t.clone();
                t.set_flow(flow);
                for &brk in brks {
                    let brk: &'static str = brk;
                    let ro = RenderOpts { indent: 2, brk, compact: true };
                    let Some((text, toks, _)) = build_doc(&run, &mut rng, &t, &ro, false, 0, true) else { continue };
                    let toks = [toks];
                    for &prefix in prefixes {
                        let text = match prefix {
                            "" => text.clone(),
                            "\u{FEFF}" => format!("\u{FEFF}{text}"),
                            p => format!("{p}{brk}{text}"),
                        };
                        let c = DocCase {
                            text: &text,
                            tokens: Some(&toks),
                            multi: false,
                            typed_nodes: usize::MAX,
                            typed_wants: wants_small,
                            only: None,
                            source: "small-tree",
                        };
                        if check_doc(&run, &c, &mut counts) {
                            bump(&mut counts, "small_tree_docs");
                        }
                    }
                }
            }
        }
        run.count_map(&counts);
        flush_viol(&run);
    });

    let (mut enum_cells_n, mut static_cells_n) = (0usize, 0usize);
    // ---- part 2b: Spanned inside enum payloads, three notations x alias modes (exhaustive grid)
    {
        let mut cells = Vec::new();
        for &v in families::VARIANTS {
            for &not in families::NOTATIONS {
                for &am in families::ALIAS_MODES {
                    for bad in [false, true] {
                        if let Some(t) = families::enum_doc(v, not, am, bad) {
                            cells.push((format!("{v:?}/{not:?}/{am:?}/bad={bad}"), t, bad));
                        }
                    }
                }
            }
        }
        run.count("enum_grid_cells", cells.len() as u64);
        enum_cells_n = cells.len();
        par_range(cells.len(), |i| {
            let mut counts = families::Counts::new();
            let (label, tree, bad) = &cells[i];
            for brk in ["\n", "\r\n", "\r"] {
                for prefix in ["", "# é✓ 😀", "--- # ü"] {
                    for flow_root in [false, true] {
                        let mut t = tree.clone();
                        if flow_root {
                            t.set_flow(true);
                        }
                        let Some(text) = families::render(&t, brk, prefix) else {
                            run.inconclusive("generator-invalid: enum document not parsed as intended");
                            continue;
                        };
                        for bom in [false, true] {
                            let text = if bom { format!("\u{FEFF}{text}") } else { text.clone() };
                            let c = families::EnumCase { text: &text, label: label.clone(), bad: *bad };
                            families::check_enum(&run, &|sig, cs, d| viol(&run, sig, cs, d), &c, &mut counts);
                            if i % 17 == 0 && brk == "\n" && !bom {
                                run.sample(|| json!({"kind": "enum", "label": label, "text": text}));
                            }
                        }
                    }
                }
            }
            run.count_map(&counts);
            flush_viol(&run);
        });
    }

    // ---- part 2c: errors from serde's static constructors vs the documented fallback (exhaustive grid)
    {
        let kinds = families::static_kinds();
        let mut cells = Vec::new();
        for (ki, &k) in kinds.iter().enumerate() {
            for (hi, h) in [(-1i64, families::Holder::Field), (0, families::Holder::Elem(0)), (1, families::Holder::Elem(1)), (2, families::Holder::Elem(2))] {
                for via_alias in [false, true] {
                    for flow in [false, true] {
                        for uk in ["zz", "zé😀"] {
                            if uk != "zz" && !matches!(k, families::StaticKind::UnknownField(_)) {
                                continue;
                            }
                            if let Some(d) = families::static_doc(k, h, via_alias, flow, uk) {
                                cells.push((k, d, json!({"kind": ki, "holder": hi, "via_alias": via_alias, "flow": flow, "unknown_key": uk})));
                            }
                        }
                    }
                }
            }
        }
        run.count("static_grid_cells", cells.len() as u64);
        static_cells_n = cells.len();
        par_range(cells.len(), |i| {
            let mut counts = families::Counts::new();
            let (k, d, params) = &cells[i];
            for brk in ["\n", "\r\n", "\r"] {
                for prefix in ["", "# é✓ 😀", "--- # ü"] {
                    let Some(text) = families::render(&d.tree, brk, prefix) else {
                        run.inconclusive("generator-invalid: static-error document not parsed as intended");
                        continue;
                    };
                    families::check_static(&run, &|sig, cs, dd| viol(&run, sig, cs, dd), &text, *k, d, params, &mut counts);
                    if i % 23 == 0 && brk == "\n" {
                        run.sample(|| json!({"kind": "static", "what": format!("{k:?}"), "text": text}));
                    }
                }
            }
            run.count_map(&counts);
            flush_viol(&run);
        });
    }

    // ---- part 3: random decorated documents
    let n_random = tier.pick(800_000, 5_000_000);
    par_range(n_random, |i| {
        let mut counts = Counts::new();
        let mut rng = Rng::stream(run.seed, i as u64);
        let allow_block = rng.chance(1, 5);
        let (tree, used_block) = {
            let mut g = docgen::Gen::new(&mut rng);
            g.allow_block_scalars = allow_block;
            let t = g.document();
            (t, g.used_block_scalar)
        };
        let brk = match rng.below(10) {
            0..=4 => "\n",
            5..=8 => "\r\n",
            _ => "\r",
        };
        let ro = RenderOpts { indent: *rng.pick(&[1usize, 2, 2, 3, 4]), brk, compact: rng.bool() };
        let intensity = rng.below(4);
        let Some((mut text, toks, what)) = build_doc(&run, &mut rng, &tree, &ro, used_block, intensity, true) else {
            run.count_map(&counts);
            return;
        };
        let mut toks = vec![toks];
        // sometimes: a stream of two documents (locations in the second one)
        let multi = rng.chance(1, 6);
        let extra_docs = if multi { rng.range(1, 3) } else { 0 };
        for _ in 0..extra_docs {
            let (tree2, used_block2) = {
                let mut g = docgen::Gen::new(&mut rng);
                g.allow_block_scalars = allow_block;
                let t = g.document();
                (t, g.used_block_scalar)
            };
            let Some((text2, toks2, _)) = build_doc(&run, &mut rng, &tree2, &ro, used_block2, intensity.min(2), false) else {
                run.count_map(&counts);
                return;
            };
            if !text.ends_with(['\n', '\r']) {
                text.push_str(brk);
            }
            text.push_str("---");
            text.push_str(if rng.chance(1, 3) { " # é second" } else { "" });
            text.push_str(brk);
            text.push_str(&text2);
            toks.push(toks2);
        }
        let wants: Vec<Want> = {
            let mut w = vec![Want::I64];
            for _ in 0..tier.pick(3, 5) {
                let x = *rng.pick(typed::WANTS_ALL);
                if !w.contains(&x) {
                    w.push(x);
                }
            }
            w
        };
        let c = DocCase {
            text: &text,
            tokens: Some(&toks),
            multi,
            typed_nodes: tier.pick(10, 24),
            typed_wants: &wants,
            only: None,
            source: "random",
        };
        if check_doc(&run, &c, &mut counts) {
            bump(&mut counts, "random_docs");
            bump(
                &mut counts,
                match brk {
                    "\n" => "random_docs_lf",
                    "\r\n" => "random_docs_crlf",
                    _ => "random_docs_cr_only",
                },
            );
            for w in &what {
                observe(&run, "decorations", w);
            }
            if tree.has_alias() {
                bump(&mut counts, "random_docs_with_alias_or_merge");
            }
            if multi {
                bump(&mut counts, "random_multi_document_streams");
            }
        }
        if i % 97 == 0 {
            run.sample(|| json!({"kind": "doc", "multi": multi, "text": text}));
        }
        run.count_map(&counts);
        flush_viol(&run);
    });

    let (enum_cells, static_cells) = (enum_cells_n, static_cells_n);
    let scope = format!(
        "(a) all strings of <= {max_len} tokens over the 28-token C01 alphabet + CRLF + CR ({total_short} strings) x 4 targets, every error / Spanned location checked for consistency; \
         (b) all base trees of the levels [{}] (leaves: multi-byte plain, integer, multi-byte double-/single-quoted, single-quoted with backslashes and '' pairs, the single-quoted quote, double-quoted ending in escaped backslash + quote; + empty seq/map), undecorated or with every placement of <= 2 anchors (names a,a / a,b) and <= 2 later aliases (*a / *b) that the data model can expand, plus the merge-key variant of an alias that is a mapping value, x {{block, flow}}; every delivered node checked and x the typed demands; \
         (c) enum grid: 6 variants x 3 notations (bare/mapping block/mapping flow/tag) x 4 alias modes (none, alias inside the payload, payload is an alias, whole value through an alias) x wrong-typed payload element or not = {} cells x {{LF,CRLF,CR}} x {{none, comment, ---}} x {{block, flow root}} x {{BOM or not}}; \
         (d) static-constructor errors: unknown field at 3 positions / missing field with 3 key sets / invalid length 0,1 / unknown variant x holder (field, element 0..2 of a sequence) x in place or through an alias x block/flow x ASCII or multi-byte unknown key = {} cells x {{LF,CRLF,CR}} x {{none, comment, ---}}",
        small_scope.join("; "),
        enum_cells,
        static_cells
    );
    let fin = Finish::new(
        "a node counts when all its checks ran and either a multi-byte character or a non-LF break precedes it in the document, or it is reached through an alias/merge; typed-error cases count under the same condition; short strings count when some reported location lies after a multi-byte character or a CR; an enum document counts when every Spanned of every payload passed (all contain multi-byte text), a static-error document when the error sits at the documented fallback; distinct by hash(text, delivered path[, demanded type]). Random part: seeded documents (unique multi-byte scalars/keys, closing-quote stress leaves, complex `? ` keys, anchors/aliases/merges nested <= 3, decorations incl. multi-line quoted scalars), 1 in 6 as a stream of 2-4 documents read with from_multiple and with the read iterator over a reader",
    )
    .exhaustive(scope)
    .assume("the raw saphyr-parser event stream and its marks are the ground truth for what a document means and where a node starts")
    .assume("line/column convention after a lone CR or after U+0085/U+2028/U+2029 is unspecified (offsets are still checked)")
    .assume("span end of block and multi-line scalars is unspecified; referenced location of mapping keys inside an aliased/merged container is unspecified; errors raised by a visitor (serde invalid_type/custom) may be located at the entry key")
    .min_nontrivial(if tier == Tier::Quick { 5_000 } else { 50_000 });
    run.finish(fin);
}
