//! Two hand-built families with their own (exhaustively enumerated) grids:
//!
//! * `enums`  — `Spanned` fields inside enum payloads, the enum written in all
//!   three notations (bare scalar for a unit variant, single-entry mapping,
//!   `!Variant payload` tag), payloads in place or through aliases, the whole
//!   enum value through an alias; plus a wrong-typed payload element whose error
//!   must be located at that element.
//! * `statics` — errors created by serde's static constructors (unknown field,
//!   missing field, invalid length, unknown variant), which carry no position of
//!   their own and get the documented fallback: the key just read / the
//!   container.

use crate::lines::{Index, LocKind, LocStats, check_loc};
use crate::stree::loc_str;
use serde::Deserialize;
use serde_json::json;
use serde_saphyr::{Location, Spanned};
use std::collections::BTreeMap;
use vcore::reftree::{self, Pos, RNode};
use vcore::run::Run;
use vcore::ydoc::{self, Node, RenderOpts};

pub type Counts = BTreeMap<&'static str, u64>;
fn bump(c: &mut Counts, k: &'static str) {
    *c.entry(k).or_insert(0) += 1;
}

pub fn rnode_at<'a>(n: &'a RNode, path: &[usize]) -> Option<&'a RNode> {
    let mut cur = n;
    for p in path {
        cur = match cur {
            RNode::Seq { items, .. } => items.get(*p)?,
            RNode::Map { entries, .. } => {
                let e = entries.get(p / 2)?;
                if p % 2 == 0 { &e.0 } else { &e.1 }
            }
            _ => return None,
        };
    }
    Some(cur)
}

fn anchors(root: &RNode) -> BTreeMap<usize, &RNode> {
    fn go<'a>(n: &'a RNode, out: &mut BTreeMap<usize, &'a RNode>) {
        if n.anchor() != 0 {
            out.insert(n.anchor(), n);
        }
        match n {
            RNode::Seq { items, .. } => items.iter().for_each(|i| go(i, out)),
            RNode::Map { entries, .. } => entries.iter().for_each(|(k, v)| {
                go(k, out);
                go(v, out);
            }),
            _ => {}
        }
    }
    let mut m = BTreeMap::new();
    go(root, &mut m);
    m
}

/// Follow an alias (one level is all these families produce).
fn resolve<'a>(n: &'a RNode, anc: &BTreeMap<usize, &'a RNode>, chain: &mut Vec<usize>) -> Option<&'a RNode> {
    match n {
        RNode::Alias { id, pos } => {
            chain.push(pos.index);
            let t = *anc.get(id)?;
            if matches!(t, RNode::Alias { .. }) { None } else { Some(t) }
        }
        _ => Some(n),
    }
}

fn at_pos(l: &Location, p: &Pos) -> bool {
    l.span().offset() as usize == p.index && l.line() as usize == p.line && l.column() as usize == p.col + 1
}

/// The standard pair check for one delivered `Spanned`: consistency, defined ==
/// the node's mark, referenced == the use site.
#[allow(clippy::too_many_arguments)]
fn check_spanned(
    run: &Run,
    viol: &dyn Fn(&str, serde_json::Value, String),
    idx: &Index,
    text: &str,
    what: &str,
    referenced: &Location,
    defined: &Location,
    node: &RNode,
    chain: &[usize],
    tag_notation: bool,
    counts: &mut Counts,
) -> bool {
    let case = || json!({"kind": "enum", "text": text, "at": what});
    if std::env::var("C16_DEBUG").is_ok() && !chain.is_empty() && !chain.contains(&(referenced.span().offset() as usize)) {
        eprintln!("ENUMREF {what} | {text:?}");
    }
    let mut stats = LocStats::default();
    for (w, l) in [("referenced", referenced), ("defined", defined)] {
        if *l == Location::UNKNOWN {
            viol("C16:spanned-location-unknown", case(), format!("{w} of {what} is Location::UNKNOWN"));
            return false;
        }
        if let Err((sig, detail)) = check_loc(idx, l, LocKind::Node, &mut stats) {
            let sig = if sig == "char-offset-counts-bytes-on-directive-line" {
                format!("C16:consistency:{sig}")
            } else {
                format!("C16:consistency:{sig}:spanned")
            };
            viol(&sig, case(), format!("{w} of {what}: {detail} [{}]", loc_str(l)));
            return false;
        }
    }
    if !at_pos(defined, &node.pos()) {
        viol(
            "C16:enum-payload:defined-names-another-node",
            case(),
            format!("defined of {what} is [{}], the payload node is at char {} (line {}, col {})", loc_str(defined), node.pos().index, node.pos().line, node.pos().col + 1),
        );
        return false;
    }
    let roff = referenced.span().offset() as usize;
    if chain.is_empty() {
        if (referenced.line(), referenced.column(), roff) != (defined.line(), defined.column(), defined.span().offset() as usize) {
            viol(
                "C16:enum-payload:in-place-referenced-differs-from-defined",
                case(),
                format!("{what} is written in place but referenced [{}] != defined [{}]", loc_str(referenced), loc_str(defined)),
            );
            return false;
        }
    } else if !chain.contains(&roff) {
        viol(
            if tag_notation {
                "C16:enum-payload:tag-notation:referenced-is-not-the-alias-token"
            } else {
                "C16:enum-payload:referenced-is-not-the-alias-token"
            },
            case(),
            format!("{what} is reached through alias token(s) at {chain:?} but referenced [{}], defined [{}]", loc_str(referenced), loc_str(defined)),
        );
        return false;
    }
    let _ = run;
    bump(counts, if chain.is_empty() { "enum_spanned_in_place_ok" } else { "enum_spanned_through_alias_ok" });
    true
}

// ------------------------------------------------------------------ enums

#[derive(Deserialize, Debug)]
pub enum E {
    Unit,
    New(Spanned<String>),
    Opt(Option<Spanned<i64>>),
    Tup(Spanned<i64>, Spanned<String>),
    Rec { a: Spanned<i64>, b: Vec<Spanned<String>> },
    Seq(Vec<Spanned<String>>),
}

#[derive(Clone, Copy, Debug, PartialEq, Eq)]
pub enum Variant {
    Unit,
    New,
    Opt,
    Tup,
    Rec,
    Seq,
}
#[derive(Clone, Copy, Debug, PartialEq, Eq)]
pub enum Notation {
    /// `Variant: payload` in a block mapping
    MapBlock,
    /// `{Variant: payload}`
    MapFlow,
    /// `!Variant payload`
    Tag,
}
#[derive(Clone, Copy, Debug, PartialEq, Eq)]
pub enum AliasMode {
    None,
    /// a scalar element of the payload is an alias to a scalar anchored in an earlier item
    PayloadScalar,
    /// the whole payload is an alias (mapping notations only)
    Payload,
    /// the whole enum value is repeated through an alias
    Whole,
}

pub const VARIANTS: &[Variant] = &[Variant::Unit, Variant::New, Variant::Opt, Variant::Tup, Variant::Rec, Variant::Seq];
pub const NOTATIONS: &[Notation] = &[Notation::MapBlock, Notation::MapFlow, Notation::Tag];
pub const ALIAS_MODES: &[AliasMode] = &[AliasMode::None, AliasMode::PayloadScalar, AliasMode::Payload, AliasMode::Whole];

impl Variant {
    fn name(self) -> &'static str {
        match self {
            Variant::Unit => "Unit",
            Variant::New => "New",
            Variant::Opt => "Opt",
            Variant::Tup => "Tup",
            Variant::Rec => "Rec",
            Variant::Seq => "Seq",
        }
    }
}

fn payload(v: Variant, n: usize, flow: bool, bad: bool, alias_scalar: Option<&str>) -> Node {
    let s1 = |k: usize| Node::dq(&format!("p{k} é✓"));
    let int = |k: usize| if bad { Node::plain(&format!("bad{k}ü")) } else { Node::plain(&format!("{}", 40 + k)) };
    let a = |d: Node| match alias_scalar {
        Some(name) => Node::alias(name),
        None => d,
    };
    let mut p = match v {
        Variant::Unit => Node::plain("~"),
        Variant::New => a(s1(n)),
        Variant::Opt => int(n),
        Variant::Tup => Node::seq(vec![int(n), a(Node::plain(&format!("t{n}ß")))]),
        Variant::Rec => Node::map(vec![
            (Node::plain("a"), int(n)),
            (Node::plain("b"), Node::fseq(vec![a(s1(n)), Node::sq(&format!("it's {n}"))])),
        ]),
        Variant::Seq => Node::seq(vec![a(s1(n)), Node::plain(&format!("q{n}"))]),
    };
    if flow {
        p.set_flow(true);
    }
    p
}

fn item(v: Variant, not: Notation, n: usize, bad: bool, alias_scalar: Option<&str>, alias_payload: Option<&str>, anchor: Option<&str>) -> Node {
    let mut it = if v == Variant::Unit {
        Node::plain("Unit")
    } else {
        match not {
            Notation::Tag => payload(v, n, n % 2 == 0, bad, alias_scalar).with_tag(&format!("!{}", v.name())),
            Notation::MapBlock | Notation::MapFlow => {
                let p = match alias_payload {
                    Some(name) => Node::alias(name),
                    None => payload(v, n, not == Notation::MapFlow || n % 2 == 0, bad, alias_scalar),
                };
                let mut m = Node::map(vec![(Node::plain(v.name()), p)]);
                if not == Notation::MapFlow {
                    m.set_flow(true);
                }
                m
            }
        }
    };
    if let Some(a) = anchor {
        it = it.with_anchor(a);
    }
    it
}

/// Build the document for one grid cell. None = the combination does not exist.
pub fn enum_doc(v: Variant, not: Notation, am: AliasMode, bad: bool) -> Option<Node> {
    if v == Variant::Unit && (not != Notation::MapBlock || am != AliasMode::None && am != AliasMode::Whole || bad) {
        return None;
    }
    if bad && !matches!(v, Variant::Opt | Variant::Tup | Variant::Rec) {
        return None;
    }
    let mut items = Vec::new();
    match am {
        AliasMode::None => items.push(item(v, not, 1, bad, None, None, None)),
        AliasMode::PayloadScalar => {
            if !matches!(v, Variant::New | Variant::Tup | Variant::Rec | Variant::Seq) || (v == Variant::New && not == Notation::Tag) {
                return None;
            }
            // an earlier item anchors a string scalar
            items.push(Node::map(vec![(Node::plain("New"), Node::dq("anch ü1").with_anchor("s"))]));
            items.push(item(v, not, 2, bad, Some("s"), None, None));
        }
        AliasMode::Payload => {
            if not == Notation::Tag {
                return None;
            }
            // the payload is anchored in a first item of the same variant and reused
            let mut first = item(v, Notation::MapFlow, 1, bad, None, None, None);
            if let Node::Map { entries, .. } = &mut first {
                let p = entries[0].1.clone().with_anchor("p");
                entries[0].1 = p;
            }
            items.push(first);
            items.push(item(v, not, 2, bad, None, Some("p"), None));
        }
        AliasMode::Whole => {
            items.push(item(v, not, 1, bad, None, None, Some("e")));
            items.push(Node::plain("Unit"));
            items.push(Node::alias("e"));
        }
    }
    Some(Node::seq(items))
}

pub struct EnumCase<'a> {
    pub text: &'a str,
    pub label: String,
    pub bad: bool,
}

/// Check one enum document (already confirmed to mean the intended tree).
pub fn check_enum(run: &Run, viol: &dyn Fn(&str, serde_json::Value, String), c: &EnumCase, counts: &mut Counts) {
    let text = c.text;
    let stripped = text.strip_prefix('\u{FEFF}').unwrap_or(text);
    let idx = Index::new(stripped);
    let Some(root) = reftree::parse_one(stripped) else {
        run.inconclusive("generator-invalid: enum document rejected by the raw parser");
        return;
    };
    let RNode::Seq { items, .. } = &root else { return };
    let anc = anchors(&root);
    run.eval();
    let res = vcore::obs::catch(|| serde_saphyr::from_str_with_options::<Vec<Spanned<E>>>(text, vcore::errs::unlimited_options()));
    let case = |at: &str| json!({"kind": "enum", "text": text, "label": c.label, "bad": c.bad, "at": at});
    let res = match res {
        Err(p) => {
            viol(&format!("C16:panic:{}", vcore::obs::panic_site(&p)), case("parse"), p);
            return;
        }
        Ok(r) => r,
    };
    // where is the (first) wrong-typed integer, if any
    let bad_node: Option<(&RNode, Vec<usize>)> = if c.bad {
        let mut found = None;
        for it in items {
            let mut chain = Vec::new();
            let Some(t) = resolve(it, &anc, &mut chain) else { continue };
            let p = match t {
                RNode::Map { entries, tag: None, .. } if entries.len() == 1 => resolve(&entries[0].1, &anc, &mut chain),
                other => Some(other),
            };
            let Some(p) = p else { continue };
            let cand = match p {
                RNode::Scalar { .. } => Some(p),
                RNode::Seq { items, .. } => items.first(),
                RNode::Map { entries, .. } => entries.iter().find(|(k, _)| matches!(k, RNode::Scalar { value, .. } if value == "a")).map(|(_, v)| v),
                _ => None,
            };
            if let Some(n) = cand
                && matches!(n, RNode::Scalar { value, .. } if value.starts_with("bad"))
            {
                found = Some((n, chain));
                break;
            }
        }
        found
    } else {
        None
    };
    match res {
        Err(e) => {
            run_observe(run, "enum_error_kinds", &vcore::errs::kind(&e));
            // consistency of whatever location is reported
            let mut stats = LocStats::default();
            for l in e.location().into_iter().chain(e.locations().into_iter().flat_map(|l| [l.reference_location, l.defined_location])) {
                if l == Location::UNKNOWN {
                    continue;
                }
                if let Err((sig, detail)) = check_loc(&idx, &l, LocKind::Error, &mut stats) {
                    viol(&format!("C16:consistency:{sig}:error"), case("error"), format!("{}: {detail} [{}]", vcore::errs::kind(&e), loc_str(&l)));
                    return;
                }
            }
            let Some((n, chain)) = bad_node else {
                bump(counts, "enum_docs_rejected");
                run.inconclusive("enum document rejected by the library (acceptance is not C16's subject)");
                return;
            };
            let Some(ls) = e.locations() else {
                viol("C16:enum-payload:type-error-without-location", case("bad element"), format!("{e}"));
                return;
            };
            let r_ok = if chain.is_empty() { at_pos(&ls.reference_location, &n.pos()) } else { chain.contains(&(ls.reference_location.span().offset() as usize)) };
            let d_ok = at_pos(&ls.defined_location, &n.pos());
            if r_ok && d_ok {
                bump(counts, "enum_type_error_at_payload_element");
                run.nontrivial(vcore::rng::fnv_parts(&[b"enum-bad", text.as_bytes()]));
            } else if r_ok && !chain.is_empty() {
                // the statement also allows "that of the anchored node" for the definition site
                bump(counts, "unspecified/error-defined-is-enclosing-replayed-container");
            } else {
                viol(
                    "C16:enum-payload:type-error-not-located-at-the-payload-element",
                    case("bad element"),
                    format!(
                        "wrong-typed element at char {} (line {}, col {}), reached through {chain:?}; error {} locations ([{}], [{}]): {}",
                        n.pos().index,
                        n.pos().line,
                        n.pos().col + 1,
                        vcore::errs::kind(&e),
                        loc_str(&ls.reference_location),
                        loc_str(&ls.defined_location),
                        e.without_snippet().to_string().replace('\n', " / ")
                    ),
                );
            }
        }
        Ok(vals) => {
            if c.bad {
                bump(counts, "enum_bad_element_accepted");
                return;
            }
            if vals.len() != items.len() {
                run.inconclusive("enum family: number of delivered items differs from the document's");
                return;
            }
            let mut all = true;
            for (i, (sv, it)) in vals.iter().zip(items.iter()).enumerate() {
                let mut chain = Vec::new();
                let Some(t) = resolve(it, &anc, &mut chain) else { continue };
                all &= check_spanned(run, viol, &idx, text, &format!("item {i} (enum value)"), &sv.referenced, &sv.defined, t, &chain, false, counts);
                // payload node
                let p = match t {
                    RNode::Map { entries, tag: None, .. } if entries.len() == 1 => resolve(&entries[0].1, &anc, &mut chain),
                    other => Some(other),
                };
                let Some(p) = p else { continue };
                let tagged = !matches!(t, RNode::Map { tag: None, .. }) && !matches!(t, RNode::Scalar { tag: None, .. });
                let sub = |what: String, r: &Location, d: &Location, node: &RNode, all: &mut bool, counts: &mut Counts| {
                    let mut ch = chain.clone();
                    if let Some(n) = resolve(node, &anc, &mut ch) {
                        *all &= check_spanned(run, viol, &idx, text, &what, r, d, n, &ch, tagged, counts);
                    }
                };
                match (&sv.value, p) {
                    (E::Unit, _) => {}
                    (E::New(s), n) => sub(format!("item {i} New payload"), &s.referenced, &s.defined, n, &mut all, counts),
                    (E::Opt(Some(s)), n) => sub(format!("item {i} Opt payload"), &s.referenced, &s.defined, n, &mut all, counts),
                    (E::Opt(None), _) => {}
                    (E::Tup(a, b), RNode::Seq { items, .. }) if items.len() == 2 => {
                        sub(format!("item {i} Tup.0"), &a.referenced, &a.defined, &items[0], &mut all, counts);
                        sub(format!("item {i} Tup.1"), &b.referenced, &b.defined, &items[1], &mut all, counts);
                    }
                    (E::Rec { a, b }, RNode::Map { entries, .. }) => {
                        for (k, v) in entries {
                            match k {
                                RNode::Scalar { value, .. } if value == "a" => sub(format!("item {i} Rec.a"), &a.referenced, &a.defined, v, &mut all, counts),
                                RNode::Scalar { value, .. } if value == "b" => {
                                    let mut ch = chain.clone();
                                    if let Some(RNode::Seq { items, .. }) = resolve(v, &anc, &mut ch)
                                        && items.len() == b.len()
                                    {
                                        for (j, (s, n)) in b.iter().zip(items.iter()).enumerate() {
                                            let mut ch2 = ch.clone();
                                            if let Some(n) = resolve(n, &anc, &mut ch2) {
                                                all &= check_spanned(run, viol, &idx, text, &format!("item {i} Rec.b[{j}]"), &s.referenced, &s.defined, n, &ch2, tagged, counts);
                                            }
                                        }
                                    }
                                }
                                _ => {}
                            }
                        }
                    }
                    (E::Seq(v), RNode::Seq { items, .. }) if items.len() == v.len() => {
                        for (j, (s, n)) in v.iter().zip(items.iter()).enumerate() {
                            sub(format!("item {i} Seq[{j}]"), &s.referenced, &s.defined, n, &mut all, counts);
                        }
                    }
                    _ => {
                        run.inconclusive("enum family: delivered variant does not match the document's payload shape");
                        all = false;
                    }
                }
            }
            if all {
                bump(counts, "enum_docs_checked");
                run.nontrivial(vcore::rng::fnv_parts(&[b"enum", text.as_bytes()]));
            }
        }
    }
}

fn run_observe(run: &Run, set: &'static str, label: &str) {
    run.observe(set, label);
}

// ---------------------------------------------------------------- statics

#[derive(Deserialize, Debug)]
#[serde(deny_unknown_fields)]
#[allow(dead_code)]
pub struct S {
    a: i64,
    b: String,
    #[serde(default)]
    c: Option<i64>,
}
#[derive(Deserialize, Debug)]
#[allow(dead_code)]
pub enum En {
    A,
    B,
}
#[derive(Deserialize, Debug)]
#[allow(dead_code)]
pub struct Outer {
    #[serde(default)]
    s: Option<S>,
    #[serde(default)]
    t: Option<(i64, i64)>,
    #[serde(default)]
    e: Option<En>,
    #[serde(default)]
    v: Vec<S>,
}

#[derive(Clone, Copy, Debug, PartialEq, Eq)]
pub enum StaticKind {
    /// unknown key at position 0..=2 of the struct's mapping
    UnknownField(usize),
    /// `b` missing; which other keys are there (0: a / 1: a, c / 2: c, a)
    MissingField(usize),
    /// tuple of 2 given 0 or 1 elements
    InvalidLength(usize),
    UnknownVariant,
}
#[derive(Clone, Copy, Debug, PartialEq, Eq)]
pub enum Holder {
    /// field `s`
    Field,
    /// element i of `v`
    Elem(usize),
}

pub fn static_kinds() -> Vec<StaticKind> {
    let mut v = Vec::new();
    for j in 0..3 {
        v.push(StaticKind::UnknownField(j));
        v.push(StaticKind::MissingField(j));
    }
    v.push(StaticKind::InvalidLength(0));
    v.push(StaticKind::InvalidLength(1));
    v.push(StaticKind::UnknownVariant);
    v
}

pub struct StaticDoc {
    pub tree: Node,
    /// path (in the document tree) of the mapping / sequence / scalar the error is about
    pub container: Vec<usize>,
    /// path of the unknown key, for UnknownField
    pub key: Option<Vec<usize>>,
    /// path of the entry key holding the container (`t`, `e`), for the fallback-at-key reading
    pub holder_key: Option<Vec<usize>>,
    /// path of the alias token when the container is reached through one
    pub alias: Option<Vec<usize>>,
}

pub fn static_doc(kind: StaticKind, holder: Holder, via_alias: bool, flow: bool, unknown_key: &str) -> Option<StaticDoc> {
    let good_s = |n: usize| Node::map(vec![(Node::plain("a"), Node::plain(&format!("{n}"))), (Node::plain("b"), Node::dq(&format!("str {n} é")))]);
    let mut entries: Vec<(Node, Node)> = Vec::new();
    // a leading entry with multi-byte text so that byte and char offsets differ
    entries.push((Node::plain("e"), Node::plain("A")));
    let mut container;
    let mut key = None;
    let mut holder_key = None;
    let mut alias = None;
    match kind {
        StaticKind::UnknownField(_) | StaticKind::MissingField(_) => {
            let mut es: Vec<(Node, Node)> = match kind {
                StaticKind::UnknownField(j) => {
                    let mut es = vec![(Node::plain("a"), Node::plain("1")), (Node::plain("b"), Node::dq("x ü"))];
                    es.insert(j, (Node::plain(unknown_key), Node::plain("3")));
                    es
                }
                StaticKind::MissingField(0) => vec![(Node::plain("a"), Node::plain("1"))],
                StaticKind::MissingField(1) => vec![(Node::plain("a"), Node::plain("1")), (Node::plain("c"), Node::plain("2"))],
                _ => vec![(Node::plain("c"), Node::plain("2")), (Node::plain("a"), Node::plain("1"))],
            };
            let kpos = match kind {
                StaticKind::UnknownField(j) => Some(2 * j),
                _ => None,
            };
            let mut m = Node::map(std::mem::take(&mut es));
            if flow {
                m.set_flow(true);
            }
            let (value, def_path): (Node, Option<Vec<usize>>) = if via_alias {
                // anchored under an extra key the struct does not know (Outer is lenient)
                entries.push((Node::plain("zdef"), m.with_anchor("m")));
                (Node::alias("m"), Some(vec![2 * (entries.len() - 1) + 1]))
            } else {
                (m, None)
            };
            match holder {
                Holder::Field => {
                    entries.push((Node::plain("s"), value));
                    let p = vec![2 * (entries.len() - 1) + 1];
                    if via_alias {
                        alias = Some(p.clone());
                        container = def_path.unwrap();
                    } else {
                        container = p;
                    }
                }
                Holder::Elem(i) => {
                    let mut items = vec![good_s(7), good_s(8)];
                    items.insert(i, value);
                    let mut sq = Node::seq(items);
                    if flow {
                        sq.set_flow(true);
                    }
                    entries.push((Node::plain("v"), sq));
                    let p = vec![2 * (entries.len() - 1) + 1, i];
                    if via_alias {
                        alias = Some(p.clone());
                        container = def_path.unwrap();
                    } else {
                        container = p;
                    }
                }
            }
            if let Some(k) = kpos {
                let mut kp = container.clone();
                kp.push(k);
                key = Some(kp);
            }
        }
        StaticKind::InvalidLength(n) => {
            if holder != Holder::Field {
                return None;
            }
            let mut sq = Node::seq((0..n).map(|i| Node::plain(&format!("{}", 5 + i))).collect());
            if flow || n == 0 {
                sq.set_flow(true);
            }
            if via_alias {
                entries.push((Node::plain("zdef"), sq.with_anchor("m")));
                container = vec![2 * (entries.len() - 1) + 1];
                entries.push((Node::plain("t"), Node::alias("m")));
                alias = Some(vec![2 * (entries.len() - 1) + 1]);
            } else {
                entries.push((Node::plain("t"), sq));
                container = vec![2 * (entries.len() - 1) + 1];
            }
            holder_key = Some(vec![2 * (entries.len() - 1)]);
        }
        StaticKind::UnknownVariant => {
            if holder != Holder::Field || flow {
                return None;
            }
            // replace the leading `e: A`
            entries.clear();
            entries.push((Node::plain("t"), Node::fseq(vec![Node::plain("1"), Node::plain("2")])));
            let bad = Node::plain("Zedé");
            if via_alias {
                entries.push((Node::plain("zdef"), bad.with_anchor("m")));
                container = vec![2 * (entries.len() - 1) + 1];
                entries.push((Node::plain("e"), Node::alias("m")));
                alias = Some(vec![2 * (entries.len() - 1) + 1]);
            } else {
                entries.push((Node::plain("e"), bad));
                container = vec![2 * (entries.len() - 1) + 1];
            }
            holder_key = Some(vec![2 * (entries.len() - 1)]);
        }
    }
    // a trailing good entry
    if !matches!(kind, StaticKind::InvalidLength(_)) {
        entries.push((Node::plain("t"), Node::fseq(vec![Node::plain("1"), Node::plain("2")])));
    }
    if matches!(kind, StaticKind::UnknownVariant) {
        entries.pop();
    }
    let _ = &mut container;
    Some(StaticDoc { tree: Node::map(entries), container, key, holder_key, alias })
}

pub fn render(tree: &Node, brk: &'static str, prefix: &str) -> Option<String> {
    let r = ydoc::render(tree, &RenderOpts { indent: 2, brk, compact: true });
    let text = if prefix.is_empty() { r.text } else { format!("{prefix}{brk}{}", r.text) };
    let root = reftree::parse_one(&text)?;
    if reftree::rnode_shape_anon(&root) != reftree::node_shape(tree) {
        return None;
    }
    Some(text)
}

pub fn check_static(
    run: &Run,
    viol: &dyn Fn(&str, serde_json::Value, String),
    text: &str,
    kind: StaticKind,
    d: &StaticDoc,
    params: &serde_json::Value,
    counts: &mut Counts,
) {
    let idx = Index::new(text);
    let Some(root) = reftree::parse_one(text) else {
        run.inconclusive("generator-invalid: static-error document rejected by the raw parser");
        return;
    };
    let case = || json!({"kind": "static", "text": text, "what": format!("{kind:?}"), "params": params});
    run.eval();
    let res = vcore::obs::catch(|| serde_saphyr::from_str_with_options::<Outer>(text, vcore::errs::unlimited_options()));
    let e = match res {
        Err(p) => {
            viol(&format!("C16:panic:{}", vcore::obs::panic_site(&p)), case(), p);
            return;
        }
        Ok(Ok(_)) => {
            bump(counts, "static_no_error_provoked");
            return;
        }
        Ok(Err(e)) => e,
    };
    let ekind = vcore::errs::kind(&e);
    run.observe("static_error_kinds", &ekind);
    let msg = e.without_snippet().to_string();
    let expected_msg = match kind {
        StaticKind::UnknownField(_) => "unknown field",
        StaticKind::MissingField(_) => "missing field",
        StaticKind::InvalidLength(_) => "invalid length",
        StaticKind::UnknownVariant => "unknown variant",
    };
    if !msg.contains(expected_msg) {
        bump(counts, "static_other_error_than_intended");
        return;
    }
    let mut stats = LocStats::default();
    let Some(ls) = e.locations() else {
        viol(&format!("C16:static-error:{}:no-location", expected_msg.replace(' ', "-")), case(), msg);
        return;
    };
    for l in [ls.reference_location, ls.defined_location] {
        if l != Location::UNKNOWN
            && let Err((sig, detail)) = check_loc(&idx, &l, LocKind::Error, &mut stats)
        {
            viol(&format!("C16:consistency:{sig}:error"), case(), format!("{ekind}: {detail} [{}]", loc_str(&l)));
            return;
        }
    }
    // accepted positions (documented fallback: the key just read / the container)
    let Some(cont) = rnode_at(&root, &d.container) else { return };
    let mut accepted: Vec<Pos> = Vec::new();
    match kind {
        StaticKind::UnknownField(_) => {
            if let Some(k) = d.key.as_ref().and_then(|p| rnode_at(&root, p)) {
                accepted.push(k.pos());
            }
        }
        StaticKind::MissingField(_) => {
            accepted.push(cont.pos());
            if let RNode::Map { entries, .. } = cont {
                accepted.extend(entries.iter().map(|(k, _)| k.pos()));
            }
        }
        StaticKind::InvalidLength(_) | StaticKind::UnknownVariant => {
            accepted.push(cont.pos());
            if let Some(k) = d.holder_key.as_ref().and_then(|p| rnode_at(&root, p)) {
                accepted.push(k.pos());
            }
        }
    }
    let name = expected_msg.replace(' ', "-");
    match d.alias.as_ref().and_then(|p| rnode_at(&root, p)) {
        None => {
            let in_acc = |l: &Location| accepted.iter().any(|p| at_pos(l, p));
            if in_acc(&ls.reference_location) && in_acc(&ls.defined_location) {
                bump(counts, "static_error_at_documented_fallback");
                run.nontrivial(vcore::rng::fnv_parts(&[b"static", text.as_bytes()]));
            } else {
                viol(
                    &format!("C16:static-error:{name}:not-at-key-or-container"),
                    case(),
                    format!("{msg}: locations ([{}], [{}]); accepted positions {:?}", loc_str(&ls.reference_location), loc_str(&ls.defined_location), accepted.iter().map(|p| (p.line, p.col + 1)).collect::<Vec<_>>()),
                );
            }
        }
        Some(al) => {
            accepted.push(cont.pos());
            let in_acc = |l: &Location| accepted.iter().any(|p| at_pos(l, p));
            // through an alias: use site = the alias token (or, for errors raised while a key of the
            // replayed mapping is current, that key); definition site inside the anchored node
            let r_alias = at_pos(&ls.reference_location, &al.pos());
            if r_alias && in_acc(&ls.defined_location) {
                bump(counts, "static_error_through_alias_both_locations");
                run.nontrivial(vcore::rng::fnv_parts(&[b"static", text.as_bytes()]));
            } else if in_acc(&ls.reference_location) && in_acc(&ls.defined_location) {
                viol(
                    &format!("C16:static-error:{name}:under-alias:use-site-missing"),
                    case(),
                    format!("{msg}: locations ([{}], [{}]) name only the anchored node, the alias token is at line {} col {}", loc_str(&ls.reference_location), loc_str(&ls.defined_location), al.pos().line, al.pos().col + 1),
                );
            } else {
                viol(
                    &format!("C16:static-error:{name}:under-alias:not-at-key-or-container"),
                    case(),
                    format!("{msg}: locations ([{}], [{}]); alias token at line {} col {}; accepted definition positions {:?}", loc_str(&ls.reference_location), loc_str(&ls.defined_location), al.pos().line, al.pos().col + 1, accepted.iter().map(|p| (p.line, p.col + 1)).collect::<Vec<_>>()),
                );
            }
        }
    }
}
