//! Minimal public-API reproductions of the C16 findings (not part of the check).
//! `cargo run --release -p c16 --bin c16repro`

use serde::de::{Deserializer, MapAccess, Visitor};
use serde::Deserialize;
use serde_saphyr::Spanned;

/// A mapping read as an ordered list of pairs with span-carrying keys.
#[derive(Debug)]
struct Pairs(Vec<(Spanned<String>, i64)>);
impl<'de> Deserialize<'de> for Pairs {
    fn deserialize<D: Deserializer<'de>>(d: D) -> Result<Self, D::Error> {
        struct V;
        impl<'de> Visitor<'de> for V {
            type Value = Pairs;
            fn expecting(&self, f: &mut std::fmt::Formatter) -> std::fmt::Result {
                f.write_str("a mapping")
            }
            fn visit_map<A: MapAccess<'de>>(self, mut m: A) -> Result<Pairs, A::Error> {
                let mut v = Vec::new();
                while let Some(e) = m.next_entry::<Spanned<String>, i64>()? {
                    v.push(e);
                }
                Ok(Pairs(v))
            }
        }
        d.deserialize_map(V)
    }
}

/// A mapping read as pairs whose keys are sequences of span-carrying strings.
#[derive(Debug)]
struct SeqKeyPairs(Vec<(Vec<Spanned<String>>, i64)>);
impl<'de> Deserialize<'de> for SeqKeyPairs {
    fn deserialize<D: Deserializer<'de>>(d: D) -> Result<Self, D::Error> {
        struct V;
        impl<'de> Visitor<'de> for V {
            type Value = SeqKeyPairs;
            fn expecting(&self, f: &mut std::fmt::Formatter) -> std::fmt::Result {
                f.write_str("a mapping")
            }
            fn visit_map<A: MapAccess<'de>>(self, mut m: A) -> Result<SeqKeyPairs, A::Error> {
                let mut v = Vec::new();
                while let Some(e) = m.next_entry::<Vec<Spanned<String>>, i64>()? {
                    v.push(e);
                }
                Ok(SeqKeyPairs(v))
            }
        }
        d.deserialize_map(V)
    }
}

fn main() {
    // 6. `!Variant payload` reached through an alias: the payload's use site is lost
    #[derive(Deserialize, Debug)]
    enum E6 {
        Unit,
        New(Spanned<String>),
    }
    let src = "- &e !New px\n- Unit\n- *e\n";
    let v: Vec<E6> = serde_saphyr::from_str(src).unwrap();
    if let E6::New(s) = &v[2] {
        println!(
            "6. source {src:?}: payload of item 2 ({:?}): referenced line {} col {} / defined line {} col {}  (expected referenced = the `*e` token at line 3 col 3; `- &e {{New: px}}` + `*e` gives that)",
            s.value,
            s.referenced.line(),
            s.referenced.column(),
            s.defined.line(),
            s.defined.column()
        );
    }
    let _ = E6::Unit;
    // 5. reader input: multi-byte text in a comment shifts every later character offset
    let src = "# é\nx\n";
    let v: Spanned<String> = serde_saphyr::from_reader(std::io::Cursor::new(src.as_bytes())).unwrap();
    let w: Spanned<String> = serde_saphyr::from_str(src).unwrap();
    println!(
        "5. source {src:?}: `x` from_reader char offset {} (line {}, col {}); from_str char offset {} (true {})",
        v.defined.span().offset(),
        v.defined.line(),
        v.defined.column(),
        w.defined.span().offset(),
        src.chars().position(|c| c == 'x').unwrap()
    );
    // 4. nodes inside a complex key written in place: `referenced` is the key's start
    let src = "? [aa, bb]\n: 1\n";
    let d: SeqKeyPairs = serde_saphyr::from_str(src).unwrap();
    let bb = &d.0[0].0[1];
    println!(
        "4. source {src:?}: element {:?} of the key: referenced line {} col {} / defined line {} col {}  (expected referenced == defined == line 1 col 8)",
        bb.value,
        bb.referenced.line(),
        bb.referenced.column(),
        bb.defined.line(),
        bb.defined.column()
    );

    // 1. quoted scalar: the reported span runs over trailing blanks and the comment
    let src = "\"x\"   # note\n";
    let v: Spanned<String> = serde_saphyr::from_str(src).unwrap();
    let sp = v.defined.span();
    let (bo, bl) = (sp.byte_offset().unwrap_or(0) as usize, sp.byte_len().unwrap_or(0) as usize);
    println!("1. source {src:?}: value {:?}, span len {} chars, input[byte range] = {:?}  (expected \"\\\"x\\\"\", len 3)", v.value, sp.len(), &src[bo..bo + bl]);

    // 2. alias in key position: `referenced` is the definition site, not the alias token
    let src = "a: &k 7\n*k : 2\n";
    #[derive(Deserialize, Debug)]
    struct Doc(Pairs);
    let d: Doc = serde_saphyr::from_str(src).unwrap();
    let (k, _) = &d.0.0[1];
    println!(
        "2. source {src:?}: second key {:?} referenced line {} col {} / defined line {} col {}  (expected referenced = the `*k` token at line 2 col 1)",
        k.value,
        k.referenced.line(),
        k.referenced.column(),
        k.defined.line(),
        k.defined.column()
    );

    // 3. multi-byte text on a directive line shifts every later character offset
    let src = "%é\n--- x\n";
    let v: Spanned<String> = serde_saphyr::from_str(src).unwrap();
    let sp = v.defined.span();
    println!(
        "3. source {src:?}: `x` reported at char offset {} (line {}, col {}, byte offset {:?}); true char offset {}, byte offset {}",
        sp.offset(),
        v.defined.line(),
        v.defined.column(),
        sp.byte_offset(),
        src.chars().position(|c| c == 'x').unwrap(),
        src.find('x').unwrap()
    );
    let e = serde_saphyr::from_str::<String>("%é").unwrap_err();
    println!("   source \"%é\" (2 chars): error location char offset {:?}", e.location().map(|l| l.span().offset()));
}
