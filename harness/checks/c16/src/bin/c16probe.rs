#[path = "../stree.rs"]
mod stree;
#[path = "../typed.rs"]
mod typed;
use stree::*;

fn main() {
    let docs: Vec<String> = std::env::args().skip(1).collect();
    for d in docs {
        let d = d.replace("\\n", "\n").replace("\\r", "\r").replace("\\t", "\t");
        println!("=== {:?}", d);
        let (evs, err) = vcore::reftree::raw_events(&d);
        for e in &evs {
            println!("  raw {:?} {:?}", e.kind, e.pos);
        }
        if let Some(e) = err {
            println!("  raw err {:?}", e);
        }
        match serde_saphyr::from_str::<SNode>(&d) {
            Ok(t) => {
                let typed_on = std::env::var("TYPED").is_ok();
                for r in collect(&t) {
                    if typed_on {
                        for w in typed::WANTS_ALL {
                            let res = typed::run(&d, &t, &r.path, *w, serde_saphyr::Options::default());
                            match res {
                                Ok(()) => {}
                                Err(e) => {
                                    let l = e.locations();
                                    let same = l.map(|l| l.reference_location == r.referenced && l.defined_location == r.defined);
                                    println!("     {:?} want {:<22} {} same={:?} {:?} | {}", r.path, w.name(), vcore::errs::kind(&e), same,
                                      l.map(|l| (loc_str(&l.reference_location), loc_str(&l.defined_location))), e.without_snippet().to_string().replace('\n', " / "));
                                }
                            }
                        }
                    }
                    println!(
                        "  {:?} key={} leaf={:?} ref={} def={}",
                        r.path,
                        r.is_key,
                        r.leaf,
                        loc_str(&r.referenced),
                        loc_str(&r.defined)
                    );
                }
            }
            Err(e) => {
                println!("  ERR {:?}", e.without_snippet());
                println!("  loc {:?}", e.location().map(|l| loc_str(&l)));
                println!(
                    "  locs {:?}",
                    e.locations().map(|l| (loc_str(&l.reference_location), loc_str(&l.defined_location)))
                );
            }
        }
    }
}
