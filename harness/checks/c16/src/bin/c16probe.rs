#[path = "../stree.rs"]
mod stree;
use stree::*;

fn main() {
    let docs: Vec<String> = std::env::args().skip(1).collect();
    for d in docs {
        let d = d.replace("\\n", "\n").replace("\\r", "\r").replace("\\t", "\t");
        println!("=== {:?}", d);
        let (evs, err) = vcore::reftree::raw_events(&d);
        for e in &evs {
            println!("  raw {:?} {:?}", e.kind, e.pos);
        }
        if let Some(e) = err {
            println!("  raw err {:?}", e);
        }
        match serde_saphyr::from_str::<SNode>(&d) {
            Ok(t) => {
                for r in collect(&t) {
                    println!(
                        "  {:?} key={} leaf={:?} ref={} def={}",
                        r.path,
                        r.is_key,
                        r.leaf,
                        loc_str(&r.referenced),
                        loc_str(&r.defined)
                    );
                }
            }
            Err(e) => {
                println!("  ERR {:?}", e.without_snippet());
                println!("  loc {:?}", e.location().map(|l| loc_str(&l)));
                println!(
                    "  locs {:?}",
                    e.locations().map(|l| (loc_str(&l.reference_location), loc_str(&l.defined_location)))
                );
            }
        }
    }
}
