#[path = "../stree.rs"]
mod stree;
use stree::*;
fn offs(v: &[SNode]) -> Vec<u64> { v.iter().flat_map(|t| collect(t).into_iter().map(|r| r.defined.span().offset())).collect() }
fn bad(d: &str) -> bool {
    let mut cur = std::io::Cursor::new(d.as_bytes());
    let a: Vec<_> = serde_saphyr::read::<_, SNode>(&mut cur).collect();
    if a.iter().any(|r| r.is_err()) { return false; }
    let a: Vec<SNode> = a.into_iter().map(|r| r.unwrap()).collect();
    let Ok(b) = serde_saphyr::from_multiple::<SNode>(d) else { return false };
    a.len() == b.len() && offs(&a).len() == offs(&b).len() && offs(&a) != offs(&b)
}
fn main() {
    let f = std::env::args().nth(1).unwrap();
    let v: serde_json::Value = serde_json::from_str(&std::fs::read_to_string(f).unwrap()).unwrap();
    let mut t: Vec<char> = v["case"]["text"].as_str().unwrap().chars().collect();
    assert!(bad(&t.iter().collect::<String>()));
    let mut chunk = t.len() / 2;
    while chunk >= 1 {
        let mut i = 0;
        while i + chunk <= t.len() {
            let mut c = t.clone();
            c.drain(i..i + chunk);
            if bad(&c.iter().collect::<String>()) { t = c; } else { i += chunk; }
        }
        chunk /= 2;
    }
    let s: String = t.iter().collect();
    println!("{s:?}");
    let mut cur = std::io::Cursor::new(s.as_bytes());
    for r in serde_saphyr::read::<_, SNode>(&mut cur) { for x in collect(&r.unwrap()) { println!(" read {:?} {}", x.leaf, loc_str(&x.defined)); } }
    for r in serde_saphyr::from_multiple::<SNode>(&s).unwrap() { for x in collect(&r) { println!(" mult {:?} {}", x.leaf, loc_str(&x.defined)); } }
}
