//! c19nr — dump tool for check C19, linked against serde-saphyr built WITHOUT the
//! `robotics` feature (see Cargo.toml). Usage: `c19nr <corpus.json>` where the file
//! is a JSON array of YAML documents. Output (stdout), one line each:
//!
//!   PROBE <outcome of f64 "2*pi" with angle_conversions = true>
//!   <index>\toff\t<f32>\t<f64>\t<any>
//!   <index>\ton\t<f32>\t<f64>\t<any>          (option on, feature absent)
//!   END <number of documents>

mod dump;

use std::io::Write;

fn main() {
    std::panic::set_hook(Box::new(|_| {}));
    let path = match std::env::args().nth(1) {
        Some(p) => p,
        None => {
            eprintln!("usage: c19nr <corpus.json>");
            std::process::exit(2);
        }
    };
    let txt = match std::fs::read_to_string(&path) {
        Ok(t) => t,
        Err(e) => {
            eprintln!("c19nr: cannot read {path}: {e}");
            std::process::exit(2);
        }
    };
    let docs: Vec<String> = match serde_json::from_str(&txt) {
        Ok(d) => d,
        Err(e) => {
            eprintln!("c19nr: bad corpus file: {e}");
            std::process::exit(2);
        }
    };
    let out = std::io::stdout();
    let mut out = std::io::BufWriter::new(out.lock());
    let _ = writeln!(out, "PROBE {}", dump::dump_f64(dump::FEATURE_PROBE, true));
    for (i, d) in docs.iter().enumerate() {
        let _ = writeln!(out, "{i}\toff\t{}", dump::dump_doc(d, false));
        let _ = writeln!(out, "{i}\ton\t{}", dump::dump_doc(d, true));
    }
    let _ = writeln!(out, "END {}", docs.len());
    let _ = out.flush();
}
