//! Shared between `c19nr` (serde-saphyr built WITHOUT the `robotics` feature) and
//! `c19` (built with it; included there with `#[path]`). Only serde + serde_saphyr.
//!
//! `dump_doc(doc, on)` runs one YAML document through the three float-relevant
//! entry paths (`f32`, `f64`, and an untyped `deserialize_any` probe) with
//! `angle_conversions = on` and renders the outcome as one canonical text line.

use serde::de::{self, Deserialize, Deserializer, IgnoredAny, MapAccess, SeqAccess, Visitor};
use std::fmt;

pub fn opts(on: bool) -> serde_saphyr::Options {
    let mut o = serde_saphyr::Options::default();
    #[allow(deprecated)]
    {
        o.angle_conversions = on;
    }
    o
}

/// What `deserialize_any` delivered (type + value), as text.
pub struct Any(pub String);

impl<'de> Deserialize<'de> for Any {
    fn deserialize<D: Deserializer<'de>>(d: D) -> Result<Self, D::Error> {
        struct V;
        impl<'de> Visitor<'de> for V {
            type Value = Any;
            fn expecting(&self, f: &mut fmt::Formatter) -> fmt::Result {
                f.write_str("anything")
            }
            fn visit_bool<E: de::Error>(self, v: bool) -> Result<Any, E> {
                Ok(Any(format!("bool:{v}")))
            }
            fn visit_i64<E: de::Error>(self, v: i64) -> Result<Any, E> {
                Ok(Any(format!("i64:{v}")))
            }
            fn visit_u64<E: de::Error>(self, v: u64) -> Result<Any, E> {
                Ok(Any(format!("u64:{v}")))
            }
            fn visit_i128<E: de::Error>(self, v: i128) -> Result<Any, E> {
                Ok(Any(format!("i128:{v}")))
            }
            fn visit_u128<E: de::Error>(self, v: u128) -> Result<Any, E> {
                Ok(Any(format!("u128:{v}")))
            }
            fn visit_f32<E: de::Error>(self, v: f32) -> Result<Any, E> {
                Ok(Any(format!("f32:{}", f32s(v))))
            }
            fn visit_f64<E: de::Error>(self, v: f64) -> Result<Any, E> {
                Ok(Any(format!("f64:{}", f64s(v))))
            }
            fn visit_str<E: de::Error>(self, v: &str) -> Result<Any, E> {
                Ok(Any(format!("str:{}", esc(v))))
            }
            fn visit_bytes<E: de::Error>(self, v: &[u8]) -> Result<Any, E> {
                Ok(Any(format!("bytes:{v:?}")))
            }
            fn visit_unit<E: de::Error>(self) -> Result<Any, E> {
                Ok(Any("unit".into()))
            }
            fn visit_none<E: de::Error>(self) -> Result<Any, E> {
                Ok(Any("none".into()))
            }
            fn visit_some<D: Deserializer<'de>>(self, d: D) -> Result<Any, D::Error> {
                Any::deserialize(d).map(|a| Any(format!("some({})", a.0)))
            }
            fn visit_seq<A: SeqAccess<'de>>(self, mut a: A) -> Result<Any, A::Error> {
                let mut n = 0;
                while a.next_element::<IgnoredAny>()?.is_some() {
                    n += 1;
                }
                Ok(Any(format!("seq:{n}")))
            }
            fn visit_map<A: MapAccess<'de>>(self, mut a: A) -> Result<Any, A::Error> {
                let mut n = 0;
                while a.next_entry::<IgnoredAny, IgnoredAny>()?.is_some() {
                    n += 1;
                }
                Ok(Any(format!("map:{n}")))
            }
        }
        d.deserialize_any(V)
    }
}

pub fn esc(s: &str) -> String {
    let mut o = String::new();
    for c in s.chars() {
        match c {
            '\\' => o.push_str("\\\\"),
            '\n' => o.push_str("\\n"),
            '\r' => o.push_str("\\r"),
            '\t' => o.push_str("\\t"),
            c if (c as u32) < 0x20 || c == '\u{7f}' || c == '\u{85}' || c == '\u{2028}' || c == '\u{2029}' => {
                o.push_str(&format!("\\u{{{:x}}}", c as u32))
            }
            c => o.push(c),
        }
    }
    o
}

/// NaN is one value (payload/sign are not part of "the value it has").
pub fn f32s(v: f32) -> String {
    if v.is_nan() { "nan".into() } else { format!("{:08x}", v.to_bits()) }
}
pub fn f64s(v: f64) -> String {
    if v.is_nan() { "nan".into() } else { format!("{:016x}", v.to_bits()) }
}

fn guarded<T>(f: impl FnOnce() -> Result<T, serde_saphyr::Error>, show: impl FnOnce(T) -> String) -> String {
    match std::panic::catch_unwind(std::panic::AssertUnwindSafe(f)) {
        Ok(Ok(v)) => format!("ok:{}", show(v)),
        Ok(Err(e)) => format!("err:{}", esc(&e.to_string())),
        Err(_) => "PANIC".into(),
    }
}

pub fn dump_f32(doc: &str, on: bool) -> String {
    guarded(|| serde_saphyr::from_str_with_options::<f32>(doc, opts(on)), f32s)
}
pub fn dump_f64(doc: &str, on: bool) -> String {
    guarded(|| serde_saphyr::from_str_with_options::<f64>(doc, opts(on)), f64s)
}
pub fn dump_any(doc: &str, on: bool) -> String {
    guarded(|| serde_saphyr::from_str_with_options::<Any>(doc, opts(on)), |a| a.0)
}

/// One line per (document, option): the three outcomes separated by TABs.
pub fn dump_doc(doc: &str, on: bool) -> String {
    format!("{}\t{}\t{}", dump_f32(doc, on), dump_f64(doc, on), dump_any(doc, on))
}

/// The expression that tells whether the evaluator is compiled in and reachable.
#[allow(dead_code)]
pub const FEATURE_PROBE: &str = "2*pi";
