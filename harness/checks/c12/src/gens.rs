//! Workload generators for C12: alphabets, exhaustive enumeration by index, look-alikes,
//! padded long strings, random strings, numeric boundary sets.

use vcore::rng::Rng;

/// The 32-symbol adversarial alphabet of DESIGN §5 C12.
pub const ADV: [char; 32] = [
    'a', '0', ' ', '\n', '\t', '\r', ':', '#', '-', '?', '\'', '"', '\\', '%', '@', '&', '*', '!', '|', '>', '{', '[', ',',
    '~', '.', '<', '=', '\u{FEFF}', '\u{0085}', '\u{2028}', '\u{007F}', 'é',
];

/// Alphabet for number look-alikes (digits, underscore, sign, dot, exponent, radix letters, inf/nan letters, colon).
pub const NUM: [char; 18] = ['0', '1', '8', '9', '_', '.', '+', '-', 'e', 'E', 'x', 'o', 'b', 'a', 'f', 'n', 'i', ':'];

/// Number of strings of length <= max_len over an alphabet of n symbols.
pub fn count_upto(n: usize, max_len: usize) -> usize {
    (0..=max_len).map(|k| n.pow(k as u32)).sum()
}

/// idx-th string in length-then-lexicographic order.
pub fn nth_string(alpha: &[char], mut idx: usize) -> String {
    let n = alpha.len();
    let mut len = 0usize;
    loop {
        let c = n.pow(len as u32);
        if idx < c {
            break;
        }
        idx -= c;
        len += 1;
    }
    let mut out = vec![' '; len];
    for i in (0..len).rev() {
        out[i] = alpha[idx % n];
        idx /= n;
    }
    out.into_iter().collect()
}

/// All ASCII-case variants of a word.
fn case_variants(w: &str) -> Vec<String> {
    let chars: Vec<char> = w.chars().collect();
    let letters: Vec<usize> = chars.iter().enumerate().filter(|(_, c)| c.is_ascii_alphabetic()).map(|(i, _)| i).collect();
    let mut out = Vec::new();
    for mask in 0..(1usize << letters.len()) {
        let mut v = chars.clone();
        for (b, &i) in letters.iter().enumerate() {
            if mask >> b & 1 == 1 {
                v[i] = v[i].to_ascii_uppercase();
            }
        }
        out.push(v.into_iter().collect());
    }
    out
}

/// Look-alikes of null / bool / number / special floats / merge key / document markers, with
/// prefixes and suffixes (DESIGN: `null yes 0x1f 1_0 .inf << --- ...` with prefixes/suffixes).
pub fn lookalikes() -> Vec<String> {
    let words = [
        "null", "true", "false", "yes", "no", "on", "off", "y", "n", "nan", "inf", ".nan", ".inf", "infinity", "~",
    ];
    let fixed = [
        "0x1f", "0X1F", "0x_1f", "0x1f_", "0o17", "0O17", "0o_7", "0b101", "0B1", "0b_1", "1_0", "1__0", "_1", "_1_", "1_", "0_",
        "_", "__", "_0x1", "0x_", "0o8", "0b2", "007", "08", "1.", ".5", "._5", "1._5", "1.5_", "1e3", "1E3", "1e+3", "1e-3",
        "1.0e3", "1_0e3", "1e3_", "1e_3", ".e3", "e3", "1e", "+1", "-1", "+1.5", "-.5", "+.5", "-0", "+0", "0", "00", "0.0", "-0.0",
        "1:20", "1:20:30", "190:20:30.15", "2001-01-01", "2001-01-01T00:00:00Z", "12:30", "1,000", "1 000", "0x", "0o", "0b",
        "0xg", "0xG", "- 1", "-  1", "+ 1", "1 ", " 1", "1\t", "\t1", "<<", "<<<", "<", "< <", "<<:", "<< ", " <<", "---", "...", "--- ", "... ",
        "--- a", "... a", "---a", "...a", "----", "....", "--", "..", "-", ".", "-- ", ".. ", "---\ta", "---\n", "...\n", "a\n---", "a\n...",
        "a\n---\nb", "a\n...\nb", "a\n--- b", "\n---", "\n...", "---\n---", "=", "==", "= ", "!", "!!", "!!str a", "!a", "&a", "*a", "&", "*",
        "? a", "?", "?a", ": a", ":", ":a", "a:", "a: ", "a :", "a :b", "a: b", "a:b", "a #b", "a# b", "#a", "# a", "a#", "a #",
        "[a]", "{a}", "[", "]", "{", "}", "a,b", "a, b", ",", ",a", "a,", "|", ">", "|-", ">+", "| a", "> a", "%", "%YAML", "%YAML 1.2", "%a",
        "@a", "`a", "'", "''", "'a'", "\"", "\"\"", "\"a\"", "a'b", "a\"b", "\\", "\\n", "a\\", "\\x41", "\\u0041", "~a", "a~", "~ ",
        "null ", " null", "null\n", "\nnull", "true\n", "nul", "nulll", "NULL", "Null", "nULL", "tru", "truee",
    ];
    let pre = ["", " ", "-", "+", ".", "_", "0", "a", "~", "<", "\u{FEFF}", "\t", "\n", "- ", "? ", "--- ", "... ", "!", "0x", ":"];
    let suf = ["", " ", ":", "#", " #", ": ", ",", "_", ".", "0", "a", "\n", "\t", "\u{FEFF}", "~", "]", "}"];
    let mut out: Vec<String> = Vec::new();
    for w in words {
        for v in case_variants(w) {
            for p in pre {
                for s in suf {
                    out.push(format!("{p}{v}{s}"));
                }
            }
        }
    }
    for f in fixed {
        for p in pre {
            for s in suf {
                out.push(format!("{p}{f}{s}"));
            }
        }
    }
    out.sort();
    out.dedup();
    out
}

/// Templates that push a short adversarial piece into the long-string code paths (length above
/// folded_wrap_chars = 80 or 8; multi-line and single-line).
pub fn padded(piece: &str) -> Vec<String> {
    let w = "xxxxxxxxx ".repeat(9); // 90 chars, wrappable
    let solid = "y".repeat(90); // 90 chars, no blank
    vec![
        format!("{piece}\n{solid}"),
        format!("{solid}\n{piece}"),
        format!("{solid}\n{piece}\n"),
        format!("{solid}\n{piece}\n\n"),
        format!("l1\n{piece}\n{solid}\n"),
        format!("{piece} {w}"),
        format!("{w}{piece}"),
        format!("{w}{piece} {w}"),
        format!("{piece}{solid}"),
        format!("{solid}{piece}"),
        format!("ab cd {piece} ef gh"), // > 8 chars, wrappable at 8
        format!("ab\n{piece}\ncd ef gh ij"),
    ]
}

const WORDS: [&str; 24] = [
    "a", "ab", "key", "value", "null", "true", "1", "1.5", "-", "--", "---", "...", "#", ":", "x:", ":x", "é", "日本語", "\u{1F600}", "<<",
    "~", "0x1f", "'", "\"",
];

/// Random string up to `max` chars: a mixture of families (adversarial symbols, words and
/// blanks, line structured text, arbitrary Unicode, long words).
pub fn random_string(rng: &mut Rng, max: usize) -> String {
    let len_class = rng.below(10);
    let target = match len_class {
        0..=3 => rng.range(1, 12),
        4..=6 => rng.range(13, 200),
        7..=8 => rng.range(200, 1200.min(max)),
        _ => rng.range(1200.min(max), max),
    };
    let family = rng.below(6);
    let mut s = String::new();
    let mut n = 0usize;
    while n < target {
        match family {
            0 => {
                s.push(*rng.pick(&ADV));
                n += 1;
            }
            1 => {
                // words separated by runs of blanks
                let w = *rng.pick(&WORDS);
                s.push_str(w);
                n += w.chars().count();
                let sep = match rng.below(12) {
                    0 => "  ",
                    1 => "   ",
                    2 => "\n",
                    3 => "\t",
                    4 => "\n\n",
                    5 => " \n",
                    6 => "\n ",
                    _ => " ",
                };
                s.push_str(sep);
                n += sep.len();
            }
            2 => {
                // lines with leading/trailing blanks and blank lines
                let lead = rng.below(4);
                for _ in 0..lead {
                    s.push(if rng.chance(1, 6) { '\t' } else { ' ' });
                }
                let l = rng.range(0, 100);
                for _ in 0..l {
                    let c = if rng.chance(1, 7) { ' ' } else { *rng.pick(&['a', 'b', 'z', '0', ':', '#', '-', 'é', ',', '.']) };
                    s.push(c);
                }
                if rng.chance(1, 5) {
                    s.push(' ');
                }
                let nl = if rng.chance(1, 12) { "\r\n" } else if rng.chance(1, 6) { "\n\n" } else { "\n" };
                s.push_str(nl);
                n += lead + l + 2;
            }
            3 => {
                // arbitrary Unicode scalar values, biased to interesting ranges
                let c = match rng.below(8) {
                    0 => char::from_u32(rng.below(0x20) as u32),
                    1 => char::from_u32(0x7f + rng.below(0x22) as u32),
                    2 => char::from_u32(0x2000 + rng.below(0x70) as u32),
                    3 => char::from_u32(0xFFF0 + rng.below(0x10) as u32),
                    4 => char::from_u32(0x10000 + rng.below(0x100000) as u32),
                    5 => char::from_u32(0x300 + rng.below(0x70) as u32),
                    _ => char::from_u32(0x20 + rng.below(0x5f) as u32),
                };
                s.push(c.unwrap_or('\u{FFFD}'));
                n += 1;
            }
            4 => {
                // very long words, rarely a blank
                let l = rng.range(1, 150);
                let ch = *rng.pick(&['w', 'é', '語', '-', '.']);
                for _ in 0..l {
                    s.push(ch);
                }
                s.push(if rng.chance(1, 10) { '\n' } else { ' ' });
                n += l + 1;
            }
            _ => {
                // ASCII printable
                s.push(char::from_u32(0x20 + rng.below(0x5f) as u32).unwrap());
                n += 1;
            }
        }
    }
    // trim to target chars (never splits a char)
    let out: String = s.chars().take(target.max(1)).collect();
    // sometimes strip/append boundary decorations
    match rng.below(10) {
        0 => format!("{out} "),
        1 => format!(" {out}"),
        2 => format!("{out}\n"),
        3 => format!("{out}\n\n"),
        4 => out.trim().to_string(),
        _ => out,
    }
}

/// f64 boundary values: zeros, subnormal edges, powers of two and ten with neighbours, the
/// integer/exponent formatting thresholds, extremes, non-finite.
pub fn f64_boundaries() -> Vec<f64> {
    let mut v: Vec<f64> = vec![
        0.0,
        -0.0,
        f64::MIN_POSITIVE,
        f64::MAX,
        f64::MIN,
        f64::EPSILON,
        f64::INFINITY,
        f64::NEG_INFINITY,
        f64::NAN,
        -f64::NAN,
        f64::from_bits(1),
        f64::from_bits(0x000f_ffff_ffff_ffff),
        f64::from_bits(0x7ff0_0000_0000_0001),
        f64::from_bits(0xfff8_0000_0000_0001),
        0.1,
        0.2,
        0.3,
        1.0 / 3.0,
        9007199254740992.0,
        9007199254740993.0,
        1e15,
        1e16,
        1e17,
        1e21,
        1e22,
        1e23,
        1e-5,
        1e-6,
        1e-7,
        123456789.0,
        4e-6,
        5e-324,
        2.2250738585072011e-308,
        1.7976931348623157e308,
    ];
    for e in -330..=310 {
        let s = format!("1e{e}");
        if let Ok(x) = s.parse::<f64>() {
            v.push(x);
            v.push(-x);
            v.push(f64::from_bits(x.to_bits().wrapping_add(1)));
            v.push(f64::from_bits(x.to_bits().wrapping_sub(1)));
            v.push(x * 9.999999);
        }
    }
    for e in 0..=2046u64 {
        let b = e << 52;
        v.push(f64::from_bits(b));
        v.push(f64::from_bits(b | 0x000f_ffff_ffff_ffff));
        v.push(f64::from_bits(b | 0x8000_0000_0000_0000));
    }
    for i in 0..64u32 {
        v.push((1u64 << i) as f64);
        v.push(((1u64 << i) as f64) - 1.0);
        v.push(((1u64 << i) as f64) + 1.0);
    }
    v
}

pub fn f32_boundaries() -> Vec<f32> {
    let mut v: Vec<f32> = vec![
        0.0,
        -0.0,
        f32::MIN_POSITIVE,
        f32::MAX,
        f32::MIN,
        f32::EPSILON,
        f32::INFINITY,
        f32::NEG_INFINITY,
        f32::NAN,
        -f32::NAN,
        f32::from_bits(1),
        f32::from_bits(0x007f_ffff),
        0.1,
        16777216.0,
        16777217.0,
        1e10,
        1e-7,
        3.4028235e38,
    ];
    for e in -50..=39 {
        if let Ok(x) = format!("1e{e}").parse::<f32>() {
            v.push(x);
            v.push(-x);
            v.push(f32::from_bits(x.to_bits().wrapping_add(1)));
            v.push(f32::from_bits(x.to_bits().wrapping_sub(1)));
        }
    }
    for e in 0..=254u32 {
        v.push(f32::from_bits(e << 23));
        v.push(f32::from_bits((e << 23) | 0x007f_ffff));
    }
    v
}

/// Integer boundary values as i128 / u128 candidates: 0, ±1, ±2^k, ±2^k ± 1, 10^k, 10^k - 1.
pub fn int_boundaries() -> (Vec<i128>, Vec<u128>) {
    let mut s: Vec<i128> = vec![0, 1, -1, i128::MIN, i128::MAX];
    let mut u: Vec<u128> = vec![0, 1, u128::MAX];
    for k in 0..127u32 {
        let p = 1i128 << k;
        s.extend([p, p - 1, p.wrapping_add(1), -p, -p + 1, -p - 1]);
    }
    for k in 0..128u32 {
        let p = 1u128 << k;
        u.extend([p, p - 1, p.wrapping_add(1)]);
    }
    let mut t: i128 = 1;
    for _ in 0..38 {
        t *= 10;
        s.extend([t, t - 1, -t, -t + 1]);
        u.extend([t as u128, (t - 1) as u128]);
    }
    s.sort();
    s.dedup();
    u.sort();
    u.dedup();
    (s, u)
}

/// The 16 most hostile symbols of `ADV` (used for the length-4 space in the quick tier).
pub const HOSTILE16: [char; 16] = ['a', '0', ' ', '\n', '\t', '\r', ':', '#', '-', '.', '\'', '"', '\\', '<', '\u{FEFF}', ','];
/// The 12 most hostile symbols (used for the length-5 space in the thorough tier).
pub const HOSTILE12: [char; 12] = ['a', '0', ' ', '\n', '\t', '\r', ':', '#', '-', '.', '\'', '"'];

/// idx-th string of exactly `len` symbols.
pub fn nth_of_len(alpha: &[char], len: usize, mut idx: usize) -> String {
    let n = alpha.len();
    let mut out = vec![' '; len];
    for i in (0..len).rev() {
        out[i] = alpha[idx % n];
        idx /= n;
    }
    out.into_iter().collect()
}

/// C0 / C1 controls, DEL and the other code points the quantifier names (BOM, U+2028/9,
/// non-characters, Unicode blanks) inside short and long templates.
pub fn control_char_strings() -> Vec<String> {
    let mut cps: Vec<u32> = (0u32..=0xA0).collect();
    cps.extend([0xAD, 0x1680, 0x180E, 0x2000, 0x2007, 0x200A, 0x200B, 0x200E, 0x2028, 0x2029, 0x202F, 0x205F, 0x2060, 0x3000, 0xFEFF, 0xFFF9, 0xFFFD, 0xFFFE, 0xFFFF, 0x1FFFE, 0x10FFFF, 0xE000, 0xD7FF]);
    let solid = "y".repeat(90);
    let mut out = Vec::new();
    for cp in cps {
        let Some(c) = char::from_u32(cp) else { continue };
        for t in [
            format!("{c}"),
            format!("a{c}"),
            format!("{c}a"),
            format!("a{c}b"),
            format!("{c}{c}"),
            format!("{c}\nb"),
            format!("a\n{c}"),
            format!("a\n{c}b\n"),
            format!("  {c}"),
            format!("{c} "),
            format!("a {c} b"),
            format!("{c}: a"),
            format!("- {c}"),
            format!("{c}{solid}"),
            format!("{solid}{c}"),
            format!("{solid}\n{c}"),
            format!("{c}\n{solid}"),
            format!("l1\na{c}b\n{solid}\n"),
        ] {
            out.push(t);
        }
    }
    out
}

/// Strings whose length sits on the thresholds of the emitter: folded_wrap_chars (8, 80) and the
/// 1024-character limit of implicit keys; with blanks, multi-byte characters and line breaks at
/// and around the threshold column.
pub fn threshold_strings() -> Vec<String> {
    let mut out = Vec::new();
    let lens: Vec<usize> = (5..=11).chain(76..=84).chain(1019..=1029).collect();
    for &l in &lens {
        let t = if l < 20 { 8usize } else if l < 200 { 80 } else { 1024 };
        let take = |s: String| -> String { s.chars().take(l).collect() };
        let solid = "a".repeat(l);
        let words = take("xxxxxxxxx ".repeat(l / 10 + 2));
        let words4 = take("xyz ".repeat(l / 4 + 2));
        out.push(solid.clone());
        out.push(words.trim_end().to_string());
        out.push(words.clone());
        out.push(words4.trim_end().to_string());
        for ch in ['é', '語', '\u{1F600}', ' ', ':', '#', '\t', '\u{2028}', '\u{FEFF}', '-'] {
            for at in [t.saturating_sub(2), t.saturating_sub(1), t, t + 1] {
                if at >= l {
                    continue;
                }
                for base in [&solid, &words, &words4] {
                    let mut v: Vec<char> = base.chars().collect();
                    v[at] = ch;
                    let s: String = v.into_iter().collect();
                    if !s.ends_with(' ') || ch == ' ' {
                        out.push(s);
                    }
                }
            }
        }
        // double blanks across the threshold, blank just before the end, line break inside
        for at in [t.saturating_sub(1), t] {
            if at + 1 < l {
                let mut v: Vec<char> = solid.chars().collect();
                v[at] = ' ';
                v[at + 1] = ' ';
                out.push(v.iter().collect());
                let mut v: Vec<char> = words4.chars().collect();
                v[at] = '\n';
                out.push(v.iter().collect::<String>().trim_end().to_string());
            }
        }
        let mut v: Vec<char> = solid.chars().collect();
        v[l / 2] = '\n';
        out.push(v.iter().collect());
        v[0] = ' ';
        out.push(v.iter().collect());
        out.push(format!("{} ", &solid[..l - 1]));
        out.push(format!(" {}", &solid[..l - 1]));
        out.push(format!("{}:", &solid[..l - 1]));
        out.push(format!("{}: b", &solid[..l.saturating_sub(3).max(1)]));
        out.push(format!("'{}", &solid[..l - 1]));
        out.push("é".repeat(l));
        out.push("語".repeat(l));
    }
    out.sort();
    out.dedup();
    out
}
