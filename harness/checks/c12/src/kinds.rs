//! The scalar kinds of C12 behind one trait, so every kind can be put into every position.

use serde::de::DeserializeOwned;
use serde::{Deserialize, Serialize};
use serde_json::{Value as J, json};
use std::fmt::Debug;
use vcore::val::Val;

pub trait Scalar: Serialize + DeserializeOwned + PartialEq + Debug + Clone + 'static {
    const KIND: &'static str;
    const FLOAT: bool = false;
    const KEYABLE: bool = true;
    /// What an untyped (`deserialize_any`) reader must see; `None` = no untyped verdict.
    fn val(&self) -> Option<Val>;
    fn to_json(&self) -> J;
    fn from_json(j: &J) -> Option<Self>;
    /// A value whose emitted token (one of the candidates, whichever the options select) is known
    /// and unique in the document; used to find where the scalar starts in the emitted text. String
    /// placeholders are chosen so that they are always quoted (never plain, never a block scalar).
    fn placeholder() -> (Self, &'static [&'static str]);
    fn as_str(&self) -> Option<String> {
        None
    }
    /// Some(counter name) when the statement and the option's documentation do not determine the
    /// outcome for this value under these options (no verdict is given).
    fn unspecified_under(&self, _ov: &crate::shapes::Ov) -> Option<&'static str> {
        None
    }
    /// Two values with the same identity are the same mapping key (all NaNs are one key).
    fn key_identity(&self) -> String {
        self.to_json().to_string()
    }
    /// DESIGN §3.6 rule for C12: the value needs a decision by the emitter.
    fn nontrivial(&self) -> bool;
    fn stable_hash(&self) -> u64 {
        vcore::rng::fnv_parts(&[Self::KIND.as_bytes(), self.to_json().to_string().as_bytes()])
    }
}

pub fn str_needs_decision(s: &str) -> bool {
    if s.is_empty() || !s.chars().all(|c| c.is_ascii_alphabetic()) {
        return true;
    }
    let l = s.to_ascii_lowercase();
    matches!(
        l.as_str(),
        "null" | "true" | "false" | "yes" | "no" | "on" | "off" | "y" | "n" | "nan" | "inf" | "infinity"
    )
}

impl Scalar for String {
    const KIND: &'static str = "string";
    fn val(&self) -> Option<Val> {
        Some(Val::Str(self.clone()))
    }
    fn to_json(&self) -> J {
        json!(self)
    }
    fn from_json(j: &J) -> Option<Self> {
        j.as_str().map(|s| s.to_string())
    }
    fn placeholder() -> (Self, &'static [&'static str]) {
        ("Xq9Z:".to_string(), &["\"Xq9Z:\"", "'Xq9Z:'"])
    }
    fn as_str(&self) -> Option<String> {
        Some(self.clone())
    }
    fn nontrivial(&self) -> bool {
        str_needs_decision(self)
    }
}

impl Scalar for char {
    const KIND: &'static str = "char";
    fn val(&self) -> Option<Val> {
        Some(Val::Str(self.to_string()))
    }
    fn to_json(&self) -> J {
        json!(*self as u32)
    }
    fn from_json(j: &J) -> Option<Self> {
        j.as_u64().and_then(|u| char::from_u32(u as u32))
    }
    fn placeholder() -> (Self, &'static [&'static str]) {
        (':', &["\":\"", "':'"])
    }
    fn as_str(&self) -> Option<String> {
        Some(self.to_string())
    }
    fn nontrivial(&self) -> bool {
        !self.is_ascii_alphabetic() || matches!(self, 'y' | 'n' | 'Y' | 'N')
    }
}

/// `Option<String>`: `Some("null")` must not come back as `None`.
#[derive(Clone, Debug, PartialEq, Serialize, Deserialize)]
#[serde(transparent)]
pub struct OptStr(pub Option<String>);

impl Scalar for OptStr {
    const KIND: &'static str = "option-string";
    const KEYABLE: bool = false;
    fn val(&self) -> Option<Val> {
        Some(match &self.0 {
            Some(s) => Val::Str(s.clone()),
            None => Val::Null,
        })
    }
    fn to_json(&self) -> J {
        json!(self.0)
    }
    fn from_json(j: &J) -> Option<Self> {
        if j.is_null() { Some(OptStr(None)) } else { j.as_str().map(|s| OptStr(Some(s.to_string()))) }
    }
    fn placeholder() -> (Self, &'static [&'static str]) {
        (OptStr(Some("Xq9Z:".to_string())), &["\"Xq9Z:\"", "'Xq9Z:'"])
    }
    fn as_str(&self) -> Option<String> {
        self.0.clone()
    }
    fn nontrivial(&self) -> bool {
        self.0.as_deref().map(str_needs_decision).unwrap_or(true)
    }
}

/// f64 compared bit for bit, all NaNs equal.
#[derive(Clone, Copy, Debug, Serialize, Deserialize)]
#[serde(transparent)]
pub struct F64(pub f64);
impl PartialEq for F64 {
    fn eq(&self, o: &Self) -> bool {
        (self.0.is_nan() && o.0.is_nan()) || self.0.to_bits() == o.0.to_bits()
    }
}
impl Scalar for F64 {
    const KIND: &'static str = "f64";
    const FLOAT: bool = true;
    fn val(&self) -> Option<Val> {
        // Non-finite values: the untyped reader's answer is not fixed by the statement (C06's
        // ground); only the typed identity and the grammar are checked for them.
        if self.0.is_finite() { Some(Val::f(self.0)) } else { None }
    }
    fn to_json(&self) -> J {
        json!(format!("{:016x}", self.0.to_bits()))
    }
    fn from_json(j: &J) -> Option<Self> {
        j.as_str().and_then(|s| u64::from_str_radix(s, 16).ok()).map(|b| F64(f64::from_bits(b)))
    }
    fn placeholder() -> (Self, &'static [&'static str]) {
        (F64(7.25), &["7.25"])
    }
    fn key_identity(&self) -> String {
        if self.0.is_nan() { "nan".into() } else { format!("{:016x}", self.0.to_bits()) }
    }
    fn nontrivial(&self) -> bool {
        true
    }
}

#[derive(Clone, Copy, Debug, Serialize, Deserialize)]
#[serde(transparent)]
pub struct F32(pub f32);
impl PartialEq for F32 {
    fn eq(&self, o: &Self) -> bool {
        (self.0.is_nan() && o.0.is_nan()) || self.0.to_bits() == o.0.to_bits()
    }
}
/// Marker the untyped comparison understands: "any float".
pub const ANY_FLOAT_MARK: u64 = 0x7ff8_dead_beef_0001;
impl Scalar for F32 {
    const KIND: &'static str = "f32";
    const FLOAT: bool = true;
    fn val(&self) -> Option<Val> {
        // the shortest f32 text read as f64 is some other double: only the *kind* is checked
        if self.0.is_finite() { Some(Val::F(ANY_FLOAT_MARK)) } else { None }
    }
    fn to_json(&self) -> J {
        json!(format!("{:08x}", self.0.to_bits()))
    }
    fn from_json(j: &J) -> Option<Self> {
        j.as_str().and_then(|s| u32::from_str_radix(s, 16).ok()).map(|b| F32(f32::from_bits(b)))
    }
    fn placeholder() -> (Self, &'static [&'static str]) {
        (F32(7.25), &["7.25"])
    }
    fn key_identity(&self) -> String {
        if self.0.is_nan() { "nan".into() } else { format!("{:08x}", self.0.to_bits()) }
    }
    fn nontrivial(&self) -> bool {
        true
    }
}

impl Scalar for bool {
    const KIND: &'static str = "bool";
    fn val(&self) -> Option<Val> {
        Some(Val::Bool(*self))
    }
    fn to_json(&self) -> J {
        json!(self)
    }
    fn from_json(j: &J) -> Option<Self> {
        j.as_bool()
    }
    fn placeholder() -> (Self, &'static [&'static str]) {
        (true, &["true"])
    }
    fn nontrivial(&self) -> bool {
        false
    }
}

macro_rules! int_kind {
    ($t:ty, $name:expr) => {
        impl Scalar for $t {
            const KIND: &'static str = $name;
            fn val(&self) -> Option<Val> {
                // outside i64/u64 the callback an untyped reader gets is not fixed by the statement
                match i128::try_from(*self) {
                    Ok(v) if v >= i64::MIN as i128 && v <= u64::MAX as i128 => Some(Val::Int(v)),
                    _ => None,
                }
            }
            fn to_json(&self) -> J {
                json!(self.to_string())
            }
            fn from_json(j: &J) -> Option<Self> {
                j.as_str().and_then(|s| s.parse::<$t>().ok())
            }
            fn placeholder() -> (Self, &'static [&'static str]) {
                (77, &["77"])
            }
            fn nontrivial(&self) -> bool {
                false
            }
        }
    };
}
int_kind!(i8, "i8");
int_kind!(i16, "i16");
int_kind!(i32, "i32");
int_kind!(i64, "i64");
int_kind!(i128, "i128");
int_kind!(u8, "u8");
int_kind!(u16, "u16");
int_kind!(u32, "u32");
int_kind!(u64, "u64");
int_kind!(u128, "u128");

/// unit / None
#[derive(Clone, Copy, Debug, PartialEq, Serialize, Deserialize)]
#[serde(transparent)]
pub struct Unit(pub ());
impl Scalar for Unit {
    const KIND: &'static str = "unit";
    const KEYABLE: bool = false;
    fn val(&self) -> Option<Val> {
        Some(Val::Null)
    }
    fn to_json(&self) -> J {
        J::Null
    }
    fn from_json(_: &J) -> Option<Self> {
        Some(Unit(()))
    }
    fn placeholder() -> (Self, &'static [&'static str]) {
        (Unit(()), &["null"])
    }
    fn nontrivial(&self) -> bool {
        false
    }
}

/// byte array through `serde_bytes` (serialize_bytes / deserialize_byte_buf)
#[derive(Clone, Debug, PartialEq, Serialize, Deserialize)]
#[serde(transparent)]
pub struct Bytes(pub serde_bytes::ByteBuf);
impl Scalar for Bytes {
    const KIND: &'static str = "bytes";
    const KEYABLE: bool = false;
    fn val(&self) -> Option<Val> {
        None
    }
    fn to_json(&self) -> J {
        json!(self.0.as_ref())
    }
    fn from_json(j: &J) -> Option<Self> {
        j.as_array().map(|a| Bytes(serde_bytes::ByteBuf::from(a.iter().filter_map(|x| x.as_u64()).map(|x| x as u8).collect::<Vec<u8>>())))
    }
    fn placeholder() -> (Self, &'static [&'static str]) {
        (Bytes(serde_bytes::ByteBuf::from(vec![0xFFu8, 0xEE, 0xDD])), &["!!binary"])
    }
    fn unspecified_under(&self, ov: &crate::shapes::Ov) -> Option<&'static str> {
        // `empty_as_braces: false` is documented as giving up the distinction between an empty
        // collection and null ("allows to tell empty from null" is what the default buys)
        if self.0.is_empty() && !ov.braces { Some("unspecified/empty-byte-array-with-empty_as_braces-off") } else { None }
    }
    fn nontrivial(&self) -> bool {
        true
    }
}
