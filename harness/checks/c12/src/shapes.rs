//! Option vectors, positions and the typed containers that put a scalar into each position.

use serde::de::{Deserialize, DeserializeOwned, Deserializer, MapAccess, Visitor};
use serde::ser::{Serialize, SerializeMap, Serializer};
use serde_json::{Value as J, json};
use std::fmt::{self, Debug};
use std::marker::PhantomData;
use vcore::rng::Rng;

// ------------------------------------------------------------------ options

/// One serializer option vector (only values `SerializerOptions::consistent` accepts: indent_step > 0).
#[derive(Clone, Copy, Debug, PartialEq, Eq, Hash)]
pub struct Ov {
    pub indent: usize,
    pub quote_all: bool,
    pub yaml_12: bool,
    pub prefer_block: bool,
    pub wrap: usize,
    pub min_fold: usize,
    pub compact: bool,
    pub braces: bool,
}

pub const DEFAULT_OV: Ov = Ov {
    indent: 2,
    quote_all: false,
    yaml_12: false,
    prefer_block: true,
    wrap: 80,
    min_fold: 32,
    compact: false,
    braces: true,
};

const fn ov(indent: usize, quote_all: bool, yaml_12: bool, prefer_block: bool, wrap: usize, min_fold: usize, compact: bool, braces: bool) -> Ov {
    Ov { indent, quote_all, yaml_12, prefer_block, wrap, min_fold, compact, braces }
}

/// Curated vectors used for the exhaustive parts: every option of DESIGN §5 C12 takes every listed
/// value in at least one vector, and the combinations that select different emitter paths
/// (auto-fold with wrap 0, indentation indicator > 9 with indent 8, quoting only, YAML 1.2
/// heuristics) are all present.
pub const CURATED: [Ov; 13] = [
    DEFAULT_OV,
    ov(1, false, false, true, 80, 32, false, true),
    ov(4, false, false, true, 80, 32, false, true),
    ov(8, false, false, true, 80, 32, false, true),
    ov(2, true, false, true, 80, 32, false, true),
    ov(2, false, true, true, 80, 32, false, true),
    ov(2, false, false, false, 80, 32, false, true),
    ov(2, false, false, true, 0, 32, false, true),
    ov(8, false, false, true, 0, 0, false, false),
    ov(4, false, false, true, 8, 32, true, true),
    ov(1, false, true, true, 0, 0, true, true),
    ov(8, true, true, false, 8, 0, true, false),
    ov(3, false, false, true, 0, 32, true, true),
];

impl Ov {
    pub fn opts(&self) -> serde_saphyr::SerializerOptions {
        let mut o = serde_saphyr::SerializerOptions::default();
        #[allow(deprecated)]
        {
            o.indent_step = self.indent;
            o.quote_all = self.quote_all;
            o.yaml_12 = self.yaml_12;
            o.prefer_block_scalars = self.prefer_block;
            o.folded_wrap_chars = self.wrap;
            o.min_fold_chars = self.min_fold;
            o.compact_list_indent = self.compact;
            o.empty_as_braces = self.braces;
        }
        o
    }
    pub fn json(&self) -> J {
        json!({"indent_step": self.indent, "quote_all": self.quote_all, "yaml_12": self.yaml_12,
               "prefer_block_scalars": self.prefer_block, "folded_wrap_chars": self.wrap,
               "min_fold_chars": self.min_fold, "compact_list_indent": self.compact, "empty_as_braces": self.braces})
    }
    pub fn from_json(j: &J) -> Ov {
        let u = |k: &str, d: usize| j.get(k).and_then(|x| x.as_u64()).map(|x| x as usize).unwrap_or(d);
        let b = |k: &str, d: bool| j.get(k).and_then(|x| x.as_bool()).unwrap_or(d);
        Ov {
            indent: u("indent_step", 2).max(1),
            quote_all: b("quote_all", false),
            yaml_12: b("yaml_12", false),
            prefer_block: b("prefer_block_scalars", true),
            wrap: u("folded_wrap_chars", 80),
            min_fold: u("min_fold_chars", 32),
            compact: b("compact_list_indent", false),
            braces: b("empty_as_braces", true),
        }
    }
    /// Number of vectors in the full grid: indent_step {1,2,3,4,8} x quote_all x yaml_12 x
    /// prefer_block_scalars x folded_wrap_chars {0,8,80} x min_fold_chars {0,32} x
    /// compact_list_indent x empty_as_braces = 5*2*2*2*3*2*2*2 = 960.
    pub const GRID: usize = 960;
    /// i-th vector of the full grid.
    pub fn grid(mut i: usize) -> Ov {
        let mut take = |n: usize| {
            let r = i % n;
            i /= n;
            r
        };
        Ov {
            indent: [1usize, 2, 3, 4, 8][take(5)],
            quote_all: take(2) == 1,
            yaml_12: take(2) == 1,
            prefer_block: take(2) == 0,
            wrap: [80usize, 0, 8][take(3)],
            min_fold: [32usize, 0][take(2)],
            compact: take(2) == 1,
            braces: take(2) == 0,
        }
    }
    /// Uniform draw from the full grid.
    pub fn random(rng: &mut Rng) -> Ov {
        Ov {
            indent: *rng.pick(&[1usize, 2, 3, 4, 8]),
            quote_all: rng.chance(1, 5),
            yaml_12: rng.chance(1, 4),
            prefer_block: !rng.chance(1, 4),
            wrap: *rng.pick(&[0usize, 8, 80]),
            min_fold: *rng.pick(&[0usize, 32]),
            compact: rng.bool(),
            braces: !rng.chance(1, 4),
        }
    }
    pub fn label(&self) -> String {
        format!(
            "i{}{}{}{}w{}m{}{}{}",
            self.indent,
            if self.quote_all { "Q" } else { "" },
            if self.yaml_12 { "Y" } else { "" },
            if self.prefer_block { "" } else { "p" },
            self.wrap,
            self.min_fold,
            if self.compact { "C" } else { "" },
            if self.braces { "" } else { "b" }
        )
    }
}

// ------------------------------------------------------------------ positions

#[derive(Clone, Copy, PartialEq, Eq, Debug, Hash, PartialOrd, Ord)]
pub enum Pos {
    Root,
    SeqItem,
    MapValue,
    MapKey,
    DashFirstKey,
    NestedMapInSeqValue,
    FlowSeq,
    FlowMapValue,
    FlowMapKey,
    VariantRoot,
    VariantInSeq,
    VariantInMap,
    StructVariantField,
    TupleVariantField,
    TupleStructField,
    SeqUnderMapKey,
    FlowNested,
    SeqInSeqFirst,
    SeqInSeqItem,
    SeqInSeqInMap,
    ComplexKeyValue,
    ComplexKeyMember,
    ComplexMapKeyValue,
    TupleStructInMap,
    TupleStructInSeq,
    TupleVariantInSeq,
    TupleVariantInMap,
    StructVariantInSeq,
    StructVariantInMap,
    VariantInVariant,
    VariantInFlow,
    TupleVariantInFlow,
    StructVariantInFlow,
    FlowSeqInBlock,
    NestedMapKey,
    NestedMapKeyInSeq,
    DashSecondKey,
    MapSecondKey,
}

impl Pos {
    pub const ALL: [Pos; 38] = [
        Pos::Root,
        Pos::SeqItem,
        Pos::MapValue,
        Pos::MapKey,
        Pos::DashFirstKey,
        Pos::NestedMapInSeqValue,
        Pos::FlowSeq,
        Pos::FlowMapValue,
        Pos::FlowMapKey,
        Pos::VariantRoot,
        Pos::VariantInSeq,
        Pos::VariantInMap,
        Pos::StructVariantField,
        Pos::TupleVariantField,
        Pos::TupleStructField,
        Pos::SeqUnderMapKey,
        Pos::FlowNested,
        Pos::SeqInSeqFirst,
        Pos::SeqInSeqItem,
        Pos::SeqInSeqInMap,
        Pos::ComplexKeyValue,
        Pos::ComplexKeyMember,
        Pos::ComplexMapKeyValue,
        Pos::TupleStructInMap,
        Pos::TupleStructInSeq,
        Pos::TupleVariantInSeq,
        Pos::TupleVariantInMap,
        Pos::StructVariantInSeq,
        Pos::StructVariantInMap,
        Pos::VariantInVariant,
        Pos::VariantInFlow,
        Pos::TupleVariantInFlow,
        Pos::StructVariantInFlow,
        Pos::FlowSeqInBlock,
        Pos::NestedMapKey,
        Pos::NestedMapKeyInSeq,
        Pos::DashSecondKey,
        Pos::MapSecondKey,
    ];
    /// The eight positions named in DESIGN §5 C12 (+ flow key, which DESIGN folds into "inside FlowMap").
    pub const CORE: [Pos; 9] = [
        Pos::Root,
        Pos::SeqItem,
        Pos::MapValue,
        Pos::MapKey,
        Pos::DashFirstKey,
        Pos::NestedMapInSeqValue,
        Pos::FlowSeq,
        Pos::FlowMapValue,
        Pos::VariantRoot,
    ];
    /// The 17 positions of the first version of this check (kept as a cheaper set for the widest
    /// string spaces).
    pub const BASE: [Pos; 17] = [
        Pos::Root,
        Pos::SeqItem,
        Pos::MapValue,
        Pos::MapKey,
        Pos::DashFirstKey,
        Pos::NestedMapInSeqValue,
        Pos::FlowSeq,
        Pos::FlowMapValue,
        Pos::FlowMapKey,
        Pos::VariantRoot,
        Pos::VariantInSeq,
        Pos::VariantInMap,
        Pos::StructVariantField,
        Pos::TupleVariantField,
        Pos::TupleStructField,
        Pos::SeqUnderMapKey,
        Pos::FlowNested,
    ];
    /// Positions that exist because of the layout code (columns, dashes, `? ` keys, nesting).
    pub const LAYOUT: [Pos; 21] = [
        Pos::SeqInSeqFirst,
        Pos::SeqInSeqItem,
        Pos::SeqInSeqInMap,
        Pos::ComplexKeyValue,
        Pos::ComplexKeyMember,
        Pos::ComplexMapKeyValue,
        Pos::TupleStructInMap,
        Pos::TupleStructInSeq,
        Pos::TupleVariantInSeq,
        Pos::TupleVariantInMap,
        Pos::StructVariantInSeq,
        Pos::StructVariantInMap,
        Pos::VariantInVariant,
        Pos::VariantInFlow,
        Pos::TupleVariantInFlow,
        Pos::StructVariantInFlow,
        Pos::FlowSeqInBlock,
        Pos::NestedMapKey,
        Pos::NestedMapKeyInSeq,
        Pos::DashSecondKey,
        Pos::MapSecondKey,
    ];
    pub fn name(self) -> &'static str {
        match self {
            Pos::Root => "root",
            Pos::SeqItem => "seq-item",
            Pos::MapValue => "map-value",
            Pos::MapKey => "map-key",
            Pos::DashFirstKey => "first-key-after-dash",
            Pos::NestedMapInSeqValue => "nested-map-in-seq-value",
            Pos::FlowSeq => "flow-seq-item",
            Pos::FlowMapValue => "flow-map-value",
            Pos::FlowMapKey => "flow-map-key",
            Pos::VariantRoot => "newtype-variant-root",
            Pos::VariantInSeq => "newtype-variant-in-seq",
            Pos::VariantInMap => "newtype-variant-in-map",
            Pos::StructVariantField => "struct-variant-field",
            Pos::TupleVariantField => "tuple-variant-field",
            Pos::TupleStructField => "tuple-struct-field",
            Pos::SeqUnderMapKey => "seq-under-map-key",
            Pos::FlowNested => "flow-map-in-flow-seq-value",
            Pos::SeqInSeqFirst => "first-item-of-seq-in-seq",
            Pos::SeqInSeqItem => "item-of-seq-in-seq",
            Pos::SeqInSeqInMap => "item-of-seq-in-seq-under-map-key",
            Pos::ComplexKeyValue => "value-under-complex-seq-key",
            Pos::ComplexKeyMember => "item-inside-complex-seq-key",
            Pos::ComplexMapKeyValue => "value-under-complex-map-key",
            Pos::TupleStructInMap => "tuple-struct-field-under-map-key",
            Pos::TupleStructInSeq => "tuple-struct-field-in-seq",
            Pos::TupleVariantInSeq => "tuple-variant-field-in-seq",
            Pos::TupleVariantInMap => "tuple-variant-field-under-map-key",
            Pos::StructVariantInSeq => "struct-variant-field-in-seq",
            Pos::StructVariantInMap => "struct-variant-field-under-map-key",
            Pos::VariantInVariant => "newtype-variant-in-newtype-variant",
            Pos::VariantInFlow => "newtype-variant-in-flow-seq",
            Pos::TupleVariantInFlow => "tuple-variant-field-in-flow-seq",
            Pos::StructVariantInFlow => "struct-variant-field-in-flow-map",
            Pos::FlowSeqInBlock => "flow-seq-item-under-key-of-map-in-block-seq",
            Pos::NestedMapKey => "key-of-nested-map",
            Pos::NestedMapKeyInSeq => "first-key-after-dash-under-map-key",
            Pos::DashSecondKey => "second-key-of-map-after-dash",
            Pos::MapSecondKey => "second-key-of-root-map",

        }
    }
    pub fn from_name(s: &str) -> Option<Pos> {
        Pos::ALL.iter().copied().find(|p| p.name() == s)
    }
    pub fn is_key(self) -> bool {
        matches!(
            self,
            Pos::MapKey | Pos::DashFirstKey | Pos::FlowMapKey | Pos::NestedMapKey | Pos::NestedMapKeyInSeq | Pos::DashSecondKey | Pos::MapSecondKey
        )
    }
    pub fn is_flow(self) -> bool {
        matches!(
            self,
            Pos::FlowSeq
                | Pos::FlowMapValue
                | Pos::FlowMapKey
                | Pos::FlowNested
                | Pos::VariantInFlow
                | Pos::TupleVariantInFlow
                | Pos::StructVariantInFlow
                | Pos::FlowSeqInBlock
        )
    }
    /// coarse position class used in fallback signatures
    pub fn kind(self) -> &'static str {
        match (self.is_key(), self.is_flow()) {
            (true, true) => "flow-key",
            (true, false) => "block-key",
            (false, true) => "flow-value",
            (false, false) => "block-value",
        }
    }
}

// ------------------------------------------------------------------ containers

/// Ordered map: serializes as a mapping with known length, deserializes keeping delivery order.
#[derive(Clone, PartialEq)]
pub struct Om<K, V>(pub Vec<(K, V)>);

impl<K: Debug, V: Debug> Debug for Om<K, V> {
    fn fmt(&self, f: &mut fmt::Formatter<'_>) -> fmt::Result {
        f.debug_map().entries(self.0.iter().map(|(k, v)| (k, v))).finish()
    }
}
impl<K: Serialize, V: Serialize> Serialize for Om<K, V> {
    fn serialize<S: Serializer>(&self, s: S) -> Result<S::Ok, S::Error> {
        let mut m = s.serialize_map(Some(self.0.len()))?;
        for (k, v) in &self.0 {
            m.serialize_entry(k, v)?;
        }
        m.end()
    }
}
struct OmVisitor<K, V>(PhantomData<(K, V)>);
impl<'de, K: Deserialize<'de>, V: Deserialize<'de>> Visitor<'de> for OmVisitor<K, V> {
    type Value = Om<K, V>;
    fn expecting(&self, f: &mut fmt::Formatter) -> fmt::Result {
        f.write_str("a mapping")
    }
    fn visit_map<A: MapAccess<'de>>(self, mut a: A) -> Result<Om<K, V>, A::Error> {
        let mut v = Vec::new();
        while let Some(k) = a.next_key::<K>()? {
            let x = a.next_value::<V>()?;
            v.push((k, x));
        }
        Ok(Om(v))
    }
}
impl<'de, K: Deserialize<'de>, V: Deserialize<'de>> Deserialize<'de> for Om<K, V> {
    fn deserialize<D: Deserializer<'de>>(d: D) -> Result<Self, D::Error> {
        d.deserialize_map(OmVisitor(PhantomData))
    }
}

#[derive(Clone, Debug, PartialEq, serde::Serialize, serde::Deserialize)]
#[serde(bound(deserialize = "T: DeserializeOwned"))]
pub struct MapVal<T> {
    pub k: T,
    pub z: u8,
}

#[derive(Clone, Debug, PartialEq, serde::Serialize, serde::Deserialize)]
#[serde(bound(deserialize = "T: DeserializeOwned"))]
pub enum En<T> {
    V(T),
    S { f: T, g: u8 },
    T(T, u8),
}

#[derive(Clone, Debug, PartialEq, serde::Serialize, serde::Deserialize)]
#[serde(bound(deserialize = "T: DeserializeOwned"))]
pub struct Ts<T>(pub T, pub u8);

#[derive(Clone, Debug, PartialEq, serde::Serialize, serde::Deserialize)]
#[serde(bound(deserialize = "T: DeserializeOwned"))]
pub struct Outer<T> {
    pub o: Vec<MapVal<T>>,
    pub t: u8,
}

/// The mapping `{gk: 5, <T>: 6}`: puts a scalar into the position of a *second* key (a key that
/// starts a line of its own, aligned under the first one).
pub const GUARD_KEY: &str = "gk";
#[derive(Clone, Debug, PartialEq)]
pub struct KeyAfter<T>(pub T);
impl<T: Serialize> Serialize for KeyAfter<T> {
    fn serialize<S: Serializer>(&self, s: S) -> Result<S::Ok, S::Error> {
        let mut m = s.serialize_map(Some(2))?;
        m.serialize_entry(GUARD_KEY, &5u8)?;
        m.serialize_entry(&self.0, &6u8)?;
        m.end()
    }
}
struct KeyAfterVisitor<T>(PhantomData<T>);
impl<'de, T: Deserialize<'de>> Visitor<'de> for KeyAfterVisitor<T> {
    type Value = KeyAfter<T>;
    fn expecting(&self, f: &mut fmt::Formatter) -> fmt::Result {
        f.write_str("a mapping {gk: 5, <key>: 6}")
    }
    fn visit_map<A: MapAccess<'de>>(self, mut a: A) -> Result<KeyAfter<T>, A::Error> {
        use serde::de::Error;
        match a.next_key::<String>()? {
            Some(k) if k == GUARD_KEY => {}
            other => return Err(A::Error::custom(format!("first key is {other:?}, expected gk"))),
        }
        if a.next_value::<u8>()? != 5 {
            return Err(A::Error::custom("value of gk is not 5"));
        }
        let Some(k) = a.next_key::<T>()? else { return Err(A::Error::custom("second key missing")) };
        if a.next_value::<u8>()? != 6 {
            return Err(A::Error::custom("value of the second key is not 6"));
        }
        if a.next_key::<serde::de::IgnoredAny>()?.is_some() {
            return Err(A::Error::custom("surplus key"));
        }
        Ok(KeyAfter(k))
    }
}
impl<'de, T: Deserialize<'de>> Deserialize<'de> for KeyAfter<T> {
    fn deserialize<D: Deserializer<'de>>(d: D) -> Result<Self, D::Error> {
        d.deserialize_map(KeyAfterVisitor(PhantomData))
    }
}
