//! C12 — every scalar value survives serialization and deserialization unchanged.
//!
//! Oracle (on every execution): for a scalar v of kind T put into position P and serialized with
//! option vector o,
//!   1. `to_string_with_options` succeeds and does not panic;
//!   2. `from_str::<Container<T>>(text) == container(v)` — strings char for char, floats bit for
//!      bit (all NaNs equal);
//!   3. `from_str::<Val>(text)` (untyped reader) equals the expected untyped tree: a string comes
//!      back as `Val::Str(s)` (never null / number / bool), a string key as a `Val::Str` key (no
//!      merge, no document end), the surrounding guard scalars are untouched;
//!   4. an emitted float token matches `-?[0-9]+\.[0-9]+(e[+-][0-9]+)?|-?\.inf|\.nan`.
//! The only reference is the value itself; nothing of the emitter's decision logic is re-implemented
//! for the verdict (style detection is used only to name the failing class in the signature).

mod gens;
mod kinds;
mod shapes;

use kinds::*;
use serde::Serialize;
use serde::de::DeserializeOwned;
use serde_json::{Value as J, json};
use serde_saphyr::{FlowMap, FlowSeq};
use shapes::*;
use std::cell::RefCell;
use std::collections::{BTreeMap, BTreeSet, HashMap};
use std::fmt::Debug;
use std::sync::Mutex;
use vcore::rng::{Rng, fnv_parts};
use vcore::run::{Finish, Run, Tier, par_range};
use vcore::val::Val;

// ------------------------------------------------------------------ per-worker context

struct Cx<'a> {
    run: &'a Run,
    local: BTreeMap<&'static str, u64>,
    contexts: BTreeSet<(&'static str, &'static str)>,
    emit_only: bool,
    emitted: Option<String>,
    evals: u64,
    sig_local: HashMap<String, u64>,
    sig_pos_local: HashMap<String, u64>,
}

/// How many cases of one signature are handed to `Run::violation` (the rest are only counted):
/// `Run::violation` keeps every distinct case key, which is quadratic for classes with millions of members.
const REPORT_PER_SIGNATURE: u64 = 6;
static SIG_COUNTS: Mutex<BTreeMap<String, u64>> = Mutex::new(BTreeMap::new());
static SIG_POS_COUNTS: Mutex<BTreeMap<String, u64>> = Mutex::new(BTreeMap::new());
static SHOW: std::sync::OnceLock<bool> = std::sync::OnceLock::new();
static SIG_REPORTED: Mutex<BTreeMap<String, u64>> = Mutex::new(BTreeMap::new());
thread_local! {
    static SIG_DONE: RefCell<std::collections::HashSet<String>> = RefCell::new(std::collections::HashSet::new());
}

impl<'a> Cx<'a> {
    fn new(run: &'a Run) -> Self {
        Cx { run, local: BTreeMap::new(), contexts: BTreeSet::new(), emit_only: false, emitted: None, evals: 0, sig_local: HashMap::new(), sig_pos_local: HashMap::new() }
    }
    #[inline]
    fn bump(&mut self, k: &'static str) {
        *self.local.entry(k).or_insert(0) += 1;
    }
    fn flush(&mut self) {
        self.run.evals(self.evals);
        self.evals = 0;
        self.run.count_map(&self.local);
        self.local.clear();
        for c in std::mem::take(&mut self.contexts) {
            self.run.observe("emitter_contexts(position-kind:style)", &format!("{}:{}", c.0, c.1));
        }
        if !self.sig_pos_local.is_empty() {
            let mut m = SIG_POS_COUNTS.lock().unwrap();
            for (k, n) in self.sig_pos_local.drain() {
                *m.entry(k).or_insert(0) += n;
            }
        }
        if !self.sig_local.is_empty() {
            let mut m = SIG_COUNTS.lock().unwrap();
            for (k, n) in self.sig_local.drain() {
                *m.entry(k).or_insert(0) += n;
            }
        }
    }
    fn violation(&mut self, sig: &str, case: impl FnOnce() -> J, detail: impl FnOnce() -> String) {
        match self.sig_local.get_mut(sig) {
            Some(n) => *n += 1,
            None => {
                self.sig_local.insert(sig.to_string(), 1);
            }
        }
        if SIG_DONE.with(|d| d.borrow().contains(sig)) {
            return;
        }
        let n = {
            let mut m = SIG_REPORTED.lock().unwrap();
            let e = m.entry(sig.to_string()).or_insert(0);
            *e += 1;
            *e
        };
        if n <= REPORT_PER_SIGNATURE {
            let d = detail();
            if std::env::var_os("C12_DUMP").is_some() {
                eprintln!("[c12] {sig}\n      {d}");
            }
            self.run.violation(sig, case(), d);
        } else {
            SIG_DONE.with(|d| d.borrow_mut().insert(sig.to_string()));
        }
    }
    fn failures_so_far(&self) -> u64 {
        self.sig_local.values().sum()
    }
}
impl Drop for Cx<'_> {
    fn drop(&mut self) {
        self.flush();
    }
}

// ------------------------------------------------------------------ untyped comparison

fn val_matches(exp: &Val, got: &Val) -> bool {
    match (exp, got) {
        (Val::F(m), Val::F(_)) if *m == ANY_FLOAT_MARK => true,
        (Val::Seq(a), Val::Seq(b)) => a.len() == b.len() && a.iter().zip(b).all(|(x, y)| val_matches(x, y)),
        (Val::Map(a), Val::Map(b)) => {
            a.len() == b.len() && a.iter().zip(b).all(|((k1, v1), (k2, v2))| val_matches(k1, k2) && val_matches(v1, v2))
        }
        _ => exp == got,
    }
}

/// Name what the untyped reader made of the first node that differs.
fn untyped_symptom(exp: &Val, got: &Val) -> &'static str {
    match (exp, got) {
        (Val::Seq(a), Val::Seq(b)) if a.len() == b.len() => {
            for (x, y) in a.iter().zip(b) {
                if !val_matches(x, y) {
                    return untyped_symptom(x, y);
                }
            }
            "untyped-structure"
        }
        (Val::Map(a), Val::Map(b)) if a.len() == b.len() => {
            for ((k1, v1), (k2, v2)) in a.iter().zip(b) {
                if !val_matches(k1, k2) {
                    return untyped_symptom(k1, k2);
                }
                if !val_matches(v1, v2) {
                    return untyped_symptom(v1, v2);
                }
            }
            "untyped-structure"
        }
        (Val::Seq(_), _) | (Val::Map(_), _) | (_, Val::Seq(_)) | (_, Val::Map(_)) => "untyped-structure",
        (_, Val::Null) => "reads-as-null",
        (Val::Str(_), Val::Bool(_)) => "reads-as-bool",
        (Val::Str(_), Val::Int(_)) | (Val::Str(_), Val::F(_)) => "reads-as-number",
        (Val::Str(_), Val::Str(b)) if matches!(b.as_str(), ".nan" | ".inf" | "-.inf") => "reads-as-special-float",
        (Val::Str(_), Val::Str(_)) => "reads-as-other-string",
        (Val::F(_), Val::Int(_)) => "float-reads-as-int",
        (Val::F(_), Val::Str(_)) => "float-reads-as-string",
        _ => "untyped-differs",
    }
}

// ------------------------------------------------------------------ float grammar

/// `-?[0-9]+\.[0-9]+(e[+-][0-9]+)?|-?\.inf|\.nan`
fn float_grammar(tok: &str) -> bool {
    if tok == ".nan" || tok == ".inf" || tok == "-.inf" {
        return true;
    }
    let b = tok.as_bytes();
    let mut i = 0;
    if i < b.len() && b[i] == b'-' {
        i += 1;
    }
    let d0 = i;
    while i < b.len() && b[i].is_ascii_digit() {
        i += 1;
    }
    if i == d0 || i >= b.len() || b[i] != b'.' {
        return false;
    }
    i += 1;
    let d1 = i;
    while i < b.len() && b[i].is_ascii_digit() {
        i += 1;
    }
    if i == d1 {
        return false;
    }
    if i == b.len() {
        return true;
    }
    if b[i] != b'e' {
        return false;
    }
    i += 1;
    if i >= b.len() || !(b[i] == b'+' || b[i] == b'-') {
        return false;
    }
    i += 1;
    let d2 = i;
    while i < b.len() && b[i].is_ascii_digit() {
        i += 1;
    }
    i > d2 && i == b.len()
}

// ------------------------------------------------------------------ where the scalar starts

thread_local! {
    static PREFIX: RefCell<HashMap<(&'static str, Pos, Ov), Option<usize>>> = RefCell::new(HashMap::new());
}

/// Byte offset at which the scalar's token starts in the emitted text for (kind, position, options):
/// found by emitting a placeholder value of the same kind. Everything before the scalar is written
/// before the emitter has seen the value, so the offset is the same for every value.
fn prefix_offset<T: Scalar>(run: &Run, pos: Pos, ov: Ov) -> Option<usize> {
    if let Some(x) = PREFIX.with(|p| p.borrow().get(&(T::KIND, pos, ov)).copied()) {
        return x;
    }
    let (pv, toks) = T::placeholder();
    let mut cx = Cx::new(run);
    cx.emit_only = true;
    check_pos(&mut cx, &pv, pos, ov);
    let off = cx.emitted.take().and_then(|t| toks.iter().filter_map(|tok| t.find(tok)).min());
    cx.local.clear();
    cx.evals = 0;
    drop(cx);
    PREFIX.with(|p| p.borrow_mut().insert((T::KIND, pos, ov), off));
    off
}

#[derive(Clone, Copy, PartialEq, Eq, Debug)]
enum Style {
    Plain,
    Single,
    Double,
    Literal,
    Folded,
    Unknown,
}
impl Style {
    fn name(self) -> &'static str {
        match self {
            Style::Plain => "plain",
            Style::Single => "single-quoted",
            Style::Double => "double-quoted",
            Style::Literal => "literal",
            Style::Folded => "folded",
            Style::Unknown => "unknown-style",
        }
    }
}
fn style_at(text: &str, off: Option<usize>) -> Style {
    let Some(off) = off else { return Style::Unknown };
    match text.as_bytes().get(off) {
        Some(b'"') => Style::Double,
        Some(b'\'') => Style::Single,
        Some(b'|') => Style::Literal,
        Some(b'>') => Style::Folded,
        Some(_) => Style::Plain,
        None => Style::Unknown,
    }
}

// ------------------------------------------------------------------ the round trip

struct Fail {
    symptom: &'static str,
    detail: String,
}

const YAML12_DIRECTIVE: &str = "%YAML 1.2\n";

fn is_yaml11_only_bool(s: &str) -> bool {
    let l = s.trim().to_ascii_lowercase();
    matches!(l.as_str(), "yes" | "no" | "on" | "off" | "y" | "n")
}

fn clip(s: &str) -> String {
    if s.chars().count() <= 300 {
        format!("{s:?}")
    } else {
        let head: String = s.chars().take(200).collect();
        let tail: String = s.chars().rev().take(60).collect::<Vec<_>>().into_iter().rev().collect();
        format!("{head:?}…{tail:?} ({} chars)", s.chars().count())
    }
}

fn rt<T: Scalar, C: Serialize + DeserializeOwned + PartialEq + Debug>(cx: &mut Cx, v: &T, pos: Pos, ov: Ov, c: &C, expect: Option<Val>) {
    let case = || json!({"kind": T::KIND, "value": v.to_json(), "pos": pos.name(), "ov": ov.json()});
    // ---- 1. serialize
    let ser = vcore::obs::catch(|| serde_saphyr::to_string_with_options(c, ov.opts()));
    if cx.emit_only {
        cx.emitted = ser.ok().and_then(|r| r.ok());
        return;
    }
    cx.evals += 1;
    let mut text = match ser {
        Err(p) => {
            cx.violation(&format!("C12:panic:{}", vcore::obs::panic_site(&p)), case, || format!("serializer panicked: {p}"));
            return;
        }
        Ok(Err(e)) => {
            let msg = e.to_string();
            let class: String = msg.chars().take(48).map(|c| if c.is_ascii_alphanumeric() { c.to_ascii_lowercase() } else { '-' }).collect();
            cx.violation(&format!("C12:{}:serialize-error:{class}", T::KIND), case, || format!("to_string_with_options failed: {msg}"));
            return;
        }
        Ok(Ok(t)) => t,
    };
    if *SHOW.get_or_init(|| std::env::var_os("C12_SHOW").is_some()) {
        eprintln!("[show] {} {} {}:\n{}", T::KIND, pos.name(), ov.label(), text);
    }
    // style of the emitted scalar (for the evidence and for naming the failing class)
    let mut scalar_off: Option<usize> = None;
    let style = if T::KIND == "string" || T::KIND == "char" || T::KIND == "option-string" {
        scalar_off = prefix_offset::<T>(cx.run, pos, ov);
        let st = style_at(&text, scalar_off);
        cx.contexts.insert((pos.kind(), st.name()));
        cx.bump(match st {
            Style::Plain => "style/plain",
            Style::Single => "style/single-quoted",
            Style::Double => "style/double-quoted",
            Style::Literal => "style/literal-block",
            Style::Folded => "style/folded-block",
            Style::Unknown => "style/unknown",
        });
        st
    } else {
        Style::Unknown
    };
    // ---- 4. float grammar (on the text as emitted)
    let mut fail: Option<Fail> = None;
    if T::FLOAT {
        match prefix_offset::<T>(cx.run, pos, ov) {
            Some(off) if off <= text.len() && text.is_char_boundary(off) => {
                let rest = &text[off..];
                let end = rest.find([' ', '\n', ',', ']', '}', ':']).unwrap_or(rest.len());
                let tok = &rest[..end];
                cx.bump("float_tokens_checked_against_grammar");
                if !float_grammar(tok) {
                    fail = Some(Fail {
                        symptom: "float-grammar",
                        detail: format!("emitted float token {tok:?} does not match -?[0-9]+\\.[0-9]+(e[+-][0-9]+)?|-?\\.inf|\\.nan"),
                    });
                }
            }
            _ => cx.run.inconclusive("float token not located in emitted text"),
        }
    }
    // ---- yaml_12: a directive must be followed by an explicit document start
    if text.starts_with(YAML12_DIRECTIVE) && text[YAML12_DIRECTIVE.len()..].lines().next() != Some("---") {
        let t0 = text.clone();
        cx.violation("C12:yaml12:directive-without-document-start", case, || {
            let r = serde_saphyr::from_str::<Val>(&t0).map_err(|e| e.without_snippet().to_string());
            format!(
                "yaml_12 output {} starts with a %YAML directive but no '---' follows; reading it back gives {:?}",
                clip(&t0),
                r.map(|v| v.to_string())
            )
        });
        cx.bump("yaml12_directive_without_document_start");
        // Continue with the document the directive was meant to introduce, so that the other
        // oracles still see what yaml_12 does to scalars.
        text.insert_str(YAML12_DIRECTIVE.len(), "---\n");
        scalar_off = scalar_off.map(|o| o + 4);
    }
    // ---- 2. typed read-back
    if fail.is_none() {
        match vcore::obs::catch(|| serde_saphyr::from_str::<C>(&text)) {
            Err(p) => {
                cx.violation(&format!("C12:panic:{}", vcore::obs::panic_site(&p)), case, || format!("deserializer panicked on {}: {p}", clip(&text)));
                return;
            }
            Ok(Err(e)) => {
                fail = Some(Fail {
                    symptom: "typed-error",
                    detail: format!(
                        "typed read-back failed: {} ({})",
                        vcore::errs::kind(&e),
                        e.without_snippet().to_string().lines().next().unwrap_or("")
                    ),
                })
            }
            Ok(Ok(back)) => {
                if &back != c {
                    let shown = format!("{back:?}");
                    fail = Some(Fail { symptom: "typed-differs", detail: format!("typed read-back differs: got {}", clip(&shown)) });
                } else {
                    cx.bump("typed_roundtrips_ok");
                }
            }
        }
    }
    // ---- 3. untyped read-back
    if fail.is_none() {
        if let Some(exp) = &expect {
            // (quote_all does not change this for keys: keys are never quoted by quote_all)
            let unspecified = ov.yaml_12 && v.as_str().map(|s| is_yaml11_only_bool(&s)).unwrap_or(false);
            if unspecified {
                // yaml_12 documents that YAML 1.1 bool spellings stay unquoted; what an untyped reader
                // makes of them is not pinned down by the statement.
                cx.bump("unspecified/yaml12-yaml11-bool-spelling-untyped");
            } else {
                match vcore::obs::catch(|| serde_saphyr::from_str::<Val>(&text)) {
                    Err(p) => {
                        cx.violation(&format!("C12:panic:{}", vcore::obs::panic_site(&p)), case, || {
                            format!("deserializer panicked on {}: {p}", clip(&text))
                        });
                        return;
                    }
                    Ok(Err(e)) => {
                        fail = Some(Fail { symptom: "untyped-error", detail: format!("untyped read-back failed: {}", vcore::errs::kind(&e)) })
                    }
                    Ok(Ok(got)) => {
                        if !val_matches(exp, &got) {
                            let g = got.to_string();
                            fail = Some(Fail {
                                symptom: untyped_symptom(exp, &got),
                                detail: format!("untyped read-back differs: expected {} got {}", clip(&exp.to_string()), clip(&g)),
                            });
                        } else {
                            cx.bump("untyped_roundtrips_ok");
                        }
                    }
                }
            }
        } else {
            cx.bump("unspecified/untyped-reading-of-this-kind");
        }
    }
    if let Some(f) = fail {
        let sig = signature(v, pos, style, scalar_off, &text, &f);
        *cx.sig_pos_local.entry(format!("{sig} @ {}", pos.name())).or_insert(0) += 1;
        cx.violation(&sig, case, || {
            format!("{} | value {} at {} with {} emitted as {}", f.detail, clip(&format!("{v:?}")), pos.name(), ov.label(), clip(&text))
        });
    }
}

/// For a block scalar whose header (`|`/`>`) is at byte `off`: is the first non-empty body line
/// indented no deeper than the innermost collection entry (`- ` dash or `key:`) that the header line
/// opens? Then the parser cannot attach the body to the header (layout defect, not a content one).
fn block_body_under_indented(s: &str, text: &str, off: usize) -> bool {
    let Some(parent) = header_parent_column(text, off) else { return false };
    // When the header carries an indentation indicator the emitter wrote the body's absolute
    // column into it (the body lines themselves start with the content's own blanks).
    if let Some(d) = text.as_bytes().get(off + 1)
        && d.is_ascii_digit()
    {
        return ((d - b'0') as usize) <= parent;
    }
    if s.split('\n').all(|l| l.trim_matches(' ').is_empty()) {
        return false; // no non-blank body line to measure
    }
    let after = match text[off..].find('\n') {
        Some(i) => &text[off + i + 1..],
        None => return false,
    };
    for l in after.split('\n') {
        if l.trim_matches(' ').is_empty() {
            continue;
        }
        let ind = l.len() - l.trim_start_matches(' ').len();
        return ind <= parent;
    }
    false
}

/// Column of the innermost collection entry (`- ` dash or `key:`) opened on the line that carries the
/// block scalar header at byte `off`; None for a root scalar.
fn header_parent_column(text: &str, off: usize) -> Option<usize> {
    let line_start = text[..off].rfind('\n').map(|i| i + 1).unwrap_or(0);
    let head = &text[line_start..off];
    let mut col = head.len() - head.trim_start_matches(' ').len();
    let mut parent: Option<usize> = None;
    let mut rest = &head[col..];
    while let Some(r) = rest.strip_prefix("- ") {
        parent = Some(col);
        col += 2;
        rest = r;
    }
    if rest.contains(':') || rest.starts_with("? ") {
        parent = Some(col);
    }
    parent
}

/// The header carries an explicit indentation indicator although the parent entry is not at
/// column 0: YAML counts the indicator from the parent's indentation, the emitter writes the
/// absolute column of the body.
fn indicator_on_nested_block_scalar(text: &str, off: usize) -> bool {
    let digit = text.as_bytes().get(off + 1).map(|b| b.is_ascii_digit()).unwrap_or(false);
    digit && header_parent_column(text, off).map(|c| c > 0).unwrap_or(false)
}

fn is_document_marker(s: &str) -> bool {
    (s.starts_with("---") || s.starts_with("...")) && (s.len() == 3 || s[3..].starts_with(' '))
}

/// Deterministic classifier: the failing *class*, not the case.
fn signature<T: Scalar>(v: &T, pos: Pos, style: Style, off: Option<usize>, text: &str, f: &Fail) -> String {
    let Some(s) = v.as_str() else {
        return format!("C12:{}:{}:{}", T::KIND, pos.kind(), f.symptom);
    };
    if pos.is_key() && text.lines().any(|l| l.chars().count() > 1024) {
        // YAML limits an implicit ("simple") key to 1024 characters on one line
        return "C12:string:key-longer-than-1024".into();
    }
    match style {
        Style::Plain => {
            if is_document_marker(&s) && matches!(pos, Pos::Root | Pos::MapKey) {
                // only at column 0 of the document
                "C12:string:document-marker".into()
            } else if s == "<<" && pos.is_key() {
                "C12:string:merge-key".into()
            } else if s.starts_with('\u{FEFF}') && matches!(pos, Pos::Root | Pos::MapKey) {
                // only at the very start of the document is a BOM taken for a byte order mark
                "C12:string:leading-bom".into()
            } else if s.ends_with(' ') {
                "C12:string:trailing-space".into()
            } else if matches!(f.symptom, "reads-as-null" | "reads-as-bool" | "reads-as-number" | "reads-as-special-float") {
                if s.trim() != s {
                    // Unicode white space (U+0085, U+00A0, U+2028, …) that the reader trims before
                    // interpreting the token
                    format!("C12:string:plain:unicode-whitespace-padding:{}", f.symptom)
                } else {
                    format!("C12:string:plain:{}", f.symptom)
                }
            } else if pos.is_flow() && !pos.is_key() && s.ends_with(" -") {
                "C12:string:plain:flow-value:ends-with-space-dash".into()
            } else {
                format!("C12:string:plain:{}:{}", pos.kind(), f.symptom)
            }
        }
        Style::Literal | Style::Folded => {
            if let Some(off) = off {
                if block_body_under_indented(&s, text, off) {
                    return format!("C12:string:block-scalar-body-under-indented:{}", pos.name());
                }
                if indicator_on_nested_block_scalar(text, off) {
                    return "C12:string:block-scalar-indentation-indicator-on-nested-node".into();
                }
            }
            let feature = if s.chars().all(|c| c == '\n') {
                "only-line-breaks"
            } else if s.chars().any(|c| c.is_control() && c != '\n' && c != '\t') {
                // CR, NEL, C0/C1 controls, DEL: not representable inside a block scalar
                "control-char"
            } else if s.contains('\u{FEFF}') {
                "bom"
            } else if s.contains('\t') {
                "tab"
            } else if s.split('\n').any(|l| l.starts_with(' ')) {
                "line-with-leading-space"
            } else if s.split('\n').any(|l| l.ends_with(' ')) {
                "line-with-trailing-space"
            } else {
                "other"
            };
            format!("C12:string:{}:{}", style.name(), feature)
        }
        Style::Double | Style::Single | Style::Unknown => {
            format!("C12:string:{}:{}:{}", style.name(), pos.kind(), f.symptom)
        }
    }
}

fn check_pos<T: Scalar>(cx: &mut Cx, v: &T, pos: Pos, ov: Ov) {
    if pos.is_key() && !T::KEYABLE {
        return;
    }
    if let Some(why) = v.unspecified_under(&ov) {
        if !cx.emit_only {
            cx.bump(why);
        }
        return;
    }
    // Guards around the scalar are integers (no style decision is ever taken for them), so the
    // only scalar whose emission can go wrong is the one under test; struct field names and
    // variant names are fixed ASCII letters.
    let e = v.val();
    let vs = |s: &str| Val::Str(s.to_string());
    let vi = |i: i128| Val::Int(i);
    let mv = |e: Val, z: i128| Val::Map(vec![(vs("k"), e), (vs("z"), vi(z))]);
    match pos {
        Pos::Root => rt(cx, v, pos, ov, &v.clone(), e),
        Pos::SeqItem => rt(cx, v, pos, ov, &(5u8, v.clone(), 6u8), e.map(|e| Val::Seq(vec![vi(5), e, vi(6)]))),
        Pos::MapValue => rt(cx, v, pos, ov, &MapVal { k: v.clone(), z: 6 }, e.map(|e| mv(e, 6))),
        Pos::MapKey => rt(cx, v, pos, ov, &Om(vec![(v.clone(), 6u8)]), e.map(|e| Val::Map(vec![(e, vi(6))]))),
        Pos::DashFirstKey => {
            rt(cx, v, pos, ov, &(Om(vec![(v.clone(), 5u8)]), 6u8), e.map(|e| Val::Seq(vec![Val::Map(vec![(e, vi(5))]), vi(6)])))
        }
        Pos::NestedMapInSeqValue => rt(
            cx,
            v,
            pos,
            ov,
            &Outer { o: vec![MapVal { k: v.clone(), z: 5 }], t: 6 },
            e.map(|e| Val::Map(vec![(vs("o"), Val::Seq(vec![mv(e, 5)])), (vs("t"), vi(6))])),
        ),
        Pos::FlowSeq => rt(cx, v, pos, ov, &FlowSeq((5u8, v.clone(), 6u8)), e.map(|e| Val::Seq(vec![vi(5), e, vi(6)]))),
        Pos::FlowMapValue => rt(cx, v, pos, ov, &FlowMap(MapVal { k: v.clone(), z: 6 }), e.map(|e| mv(e, 6))),
        Pos::FlowMapKey => rt(cx, v, pos, ov, &FlowMap(Om(vec![(v.clone(), 6u8)])), e.map(|e| Val::Map(vec![(e, vi(6))]))),
        Pos::VariantRoot => rt(cx, v, pos, ov, &En::V(v.clone()), e.map(|e| Val::Map(vec![(vs("V"), e)]))),
        Pos::VariantInSeq => {
            rt(cx, v, pos, ov, &(En::V(v.clone()), 6u8), e.map(|e| Val::Seq(vec![Val::Map(vec![(vs("V"), e)]), vi(6)])))
        }
        Pos::VariantInMap => {
            rt(cx, v, pos, ov, &MapVal { k: En::V(v.clone()), z: 6 }, e.map(|e| mv(Val::Map(vec![(vs("V"), e)]), 6)))
        }
        Pos::StructVariantField => rt(
            cx,
            v,
            pos,
            ov,
            &En::S { f: v.clone(), g: 6 },
            e.map(|e| Val::Map(vec![(vs("S"), Val::Map(vec![(vs("f"), e), (vs("g"), vi(6))]))])),
        ),
        Pos::TupleVariantField => {
            rt(cx, v, pos, ov, &En::T(v.clone(), 6), e.map(|e| Val::Map(vec![(vs("T"), Val::Seq(vec![e, vi(6)]))])))
        }
        Pos::TupleStructField => rt(cx, v, pos, ov, &Ts(v.clone(), 6), e.map(|e| Val::Seq(vec![e, vi(6)]))),
        Pos::SeqUnderMapKey => rt(cx, v, pos, ov, &MapVal { k: (v.clone(), 5u8), z: 6 }, e.map(|e| mv(Val::Seq(vec![e, vi(5)]), 6))),
        Pos::FlowNested => rt(cx, v, pos, ov, &FlowSeq(vec![MapVal { k: v.clone(), z: 5 }]), e.map(|e| Val::Seq(vec![mv(e, 5)]))),
        // ---- positions produced by the layout code
        Pos::SeqInSeqFirst => rt(cx, v, pos, ov, &((v.clone(), 5u8), 6u8), e.map(|e| Val::Seq(vec![Val::Seq(vec![e, vi(5)]), vi(6)]))),
        Pos::SeqInSeqItem => {
            rt(cx, v, pos, ov, &((5u8, v.clone(), 6u8), 6u8), e.map(|e| Val::Seq(vec![Val::Seq(vec![vi(5), e, vi(6)]), vi(6)])))
        }
        Pos::SeqInSeqInMap => rt(
            cx,
            v,
            pos,
            ov,
            &MapVal { k: vec![(5u8, v.clone())], z: 6 },
            e.map(|e| mv(Val::Seq(vec![Val::Seq(vec![vi(5), e])]), 6)),
        ),
        Pos::ComplexKeyValue => rt(
            cx,
            v,
            pos,
            ov,
            &Om(vec![((1u8, 2u8), v.clone())]),
            e.map(|e| Val::Map(vec![(Val::Seq(vec![vi(1), vi(2)]), e)])),
        ),
        Pos::ComplexKeyMember => rt(
            cx,
            v,
            pos,
            ov,
            &Om(vec![((v.clone(), 5u8), 6u8)]),
            e.map(|e| Val::Map(vec![(Val::Seq(vec![e, vi(5)]), vi(6))])),
        ),
        Pos::ComplexMapKeyValue => rt(
            cx,
            v,
            pos,
            ov,
            &Om(vec![(MapVal { k: 1u8, z: 2 }, v.clone())]),
            e.map(|e| Val::Map(vec![(mv(vi(1), 2), e)])),
        ),
        Pos::TupleStructInMap => rt(cx, v, pos, ov, &MapVal { k: Ts(v.clone(), 5), z: 6 }, e.map(|e| mv(Val::Seq(vec![e, vi(5)]), 6))),
        Pos::TupleStructInSeq => {
            rt(cx, v, pos, ov, &(Ts(v.clone(), 5), 6u8), e.map(|e| Val::Seq(vec![Val::Seq(vec![e, vi(5)]), vi(6)])))
        }
        Pos::TupleVariantInSeq => rt(
            cx,
            v,
            pos,
            ov,
            &(En::T(v.clone(), 5), 6u8),
            e.map(|e| Val::Seq(vec![Val::Map(vec![(vs("T"), Val::Seq(vec![e, vi(5)]))]), vi(6)])),
        ),
        Pos::TupleVariantInMap => rt(
            cx,
            v,
            pos,
            ov,
            &MapVal { k: En::T(v.clone(), 5), z: 6 },
            e.map(|e| mv(Val::Map(vec![(vs("T"), Val::Seq(vec![e, vi(5)]))]), 6)),
        ),
        Pos::StructVariantInSeq => rt(
            cx,
            v,
            pos,
            ov,
            &(En::S { f: v.clone(), g: 5 }, 6u8),
            e.map(|e| Val::Seq(vec![Val::Map(vec![(vs("S"), Val::Map(vec![(vs("f"), e), (vs("g"), vi(5))]))]), vi(6)])),
        ),
        Pos::StructVariantInMap => rt(
            cx,
            v,
            pos,
            ov,
            &MapVal { k: En::S { f: v.clone(), g: 5 }, z: 6 },
            e.map(|e| mv(Val::Map(vec![(vs("S"), Val::Map(vec![(vs("f"), e), (vs("g"), vi(5))]))]), 6)),
        ),
        Pos::VariantInVariant => rt(
            cx,
            v,
            pos,
            ov,
            &En::V(En::V(v.clone())),
            e.map(|e| Val::Map(vec![(vs("V"), Val::Map(vec![(vs("V"), e)]))])),
        ),
        Pos::VariantInFlow => {
            rt(cx, v, pos, ov, &FlowSeq((En::V(v.clone()), 6u8)), e.map(|e| Val::Seq(vec![Val::Map(vec![(vs("V"), e)]), vi(6)])))
        }
        Pos::TupleVariantInFlow => rt(
            cx,
            v,
            pos,
            ov,
            &FlowSeq((En::T(v.clone(), 5), 6u8)),
            e.map(|e| Val::Seq(vec![Val::Map(vec![(vs("T"), Val::Seq(vec![e, vi(5)]))]), vi(6)])),
        ),
        Pos::StructVariantInFlow => rt(
            cx,
            v,
            pos,
            ov,
            &FlowMap(MapVal { k: En::S { f: v.clone(), g: 5 }, z: 6 }),
            e.map(|e| mv(Val::Map(vec![(vs("S"), Val::Map(vec![(vs("f"), e), (vs("g"), vi(5))]))]), 6)),
        ),
        Pos::FlowSeqInBlock => rt(
            cx,
            v,
            pos,
            ov,
            &vec![MapVal { k: FlowSeq((5u8, v.clone(), 6u8)), z: 6 }],
            e.map(|e| Val::Seq(vec![mv(Val::Seq(vec![vi(5), e, vi(6)]), 6)])),
        ),
        Pos::NestedMapKey => rt(cx, v, pos, ov, &MapVal { k: Om(vec![(v.clone(), 5u8)]), z: 6 }, e.map(|e| mv(Val::Map(vec![(e, vi(5))]), 6))),
        Pos::NestedMapKeyInSeq => rt(
            cx,
            v,
            pos,
            ov,
            &MapVal { k: vec![Om(vec![(v.clone(), 5u8)])], z: 6 },
            e.map(|e| mv(Val::Seq(vec![Val::Map(vec![(e, vi(5))])]), 6)),
        ),
        Pos::DashSecondKey | Pos::MapSecondKey => {
            if v.as_str().as_deref() == Some(GUARD_KEY) {
                return; // would be a duplicate of the guard key
            }
            let m = |e: Val| Val::Map(vec![(vs(GUARD_KEY), vi(5)), (e, vi(6))]);
            if pos == Pos::MapSecondKey {
                rt(cx, v, pos, ov, &KeyAfter(v.clone()), e.map(m))
            } else {
                rt(cx, v, pos, ov, &(KeyAfter(v.clone()), 6u8), e.map(|e| Val::Seq(vec![m(e), vi(6)])))
            }
        }
    }
}

/// Check one value in a set of positions under a set of option vectors; count it once as a
/// distinct non-trivial case if it needs a decision.
fn check_value<T: Scalar>(cx: &mut Cx, v: &T, positions: &[Pos], ovs: &[Ov]) {
    for &p in positions {
        for &o in ovs {
            check_pos(cx, v, p, o);
        }
    }
    if v.nontrivial() {
        cx.run.nontrivial(v.stable_hash());
    }
}

// ------------------------------------------------------------------ batches of floats

/// A block sequence of many floats: one serialize + one parse for the whole batch, every emitted
/// line checked against the grammar, every element compared bit for bit.
fn check_float_batch<T: Scalar + Copy>(cx: &mut Cx, vals: &[T], batch_case: impl Fn() -> J) {
    cx.evals += 1;
    let v: Vec<T> = vals.to_vec();
    let text = match vcore::obs::catch(|| serde_saphyr::to_string(&v)) {
        Ok(Ok(t)) => t,
        Ok(Err(e)) => {
            cx.violation(&format!("C12:{}:serialize-error:batch", T::KIND), &batch_case, || e.to_string());
            return;
        }
        Err(p) => {
            cx.violation(&format!("C12:panic:{}", vcore::obs::panic_site(&p)), &batch_case, || p.clone());
            return;
        }
    };
    let mut n = 0usize;
    let mut bad: Option<usize> = None;
    for (i, line) in text.lines().enumerate() {
        n += 1;
        let ok = line.strip_prefix("- ").map(float_grammar).unwrap_or(false);
        if !ok && bad.is_none() {
            bad = Some(i);
        }
    }
    if n != v.len() && bad.is_none() {
        bad = Some(n.min(v.len().saturating_sub(1)));
    }
    let back = vcore::obs::catch(|| serde_saphyr::from_str::<Vec<T>>(&text));
    if bad.is_none() {
        match &back {
            Ok(Ok(b)) => {
                if b.len() != v.len() {
                    bad = Some(0);
                } else {
                    bad = b.iter().zip(&v).position(|(x, y)| x != y);
                }
            }
            _ => bad = Some(0),
        }
    }
    *cx.local.entry("float_batch_elements_roundtripped").or_insert(0) += v.len() as u64;
    if let Some(i) = bad {
        // reduce to the single value (its own replayable case); if that holds, report the batch
        let before = cx.failures_so_far();
        let i = i.min(v.len() - 1);
        check_value(cx, &v[i], &[Pos::Root, Pos::SeqItem], &[DEFAULT_OV]);
        let after = cx.failures_so_far();
        if after == before {
            cx.violation(&format!("C12:{}:batch-only", T::KIND), &batch_case, || {
                format!(
                    "batch of {} floats does not round-trip (first bad element #{i} = {:?}) although the element alone does; read-back: {}",
                    v.len(),
                    v[i],
                    match &back {
                        Ok(Ok(_)) => "Ok(different)".to_string(),
                        Ok(Err(e)) => vcore::errs::kind(e),
                        Err(p) => p.clone(),
                    }
                )
            });
        }
    }
}

/// A block mapping whose KEYS are many distinct floats (values are the integer 6): key text goes
/// through the key sink (`push_float_string`), and is read back through the key path of the reader.
fn check_float_key_batch<T: Scalar + Copy>(cx: &mut Cx, vals: &[T], batch_case: impl Fn() -> J) {
    // distinct keys only (all NaNs are one key)
    let mut seen = std::collections::HashSet::new();
    let keys: Vec<T> = vals.iter().copied().filter(|v| seen.insert(v.key_identity())).collect();
    if keys.is_empty() {
        return;
    }
    cx.evals += 1;
    let m = Om(keys.iter().map(|k| (*k, 6u8)).collect::<Vec<_>>());
    let text = match vcore::obs::catch(|| serde_saphyr::to_string(&m)) {
        Ok(Ok(t)) => t,
        Ok(Err(e)) => {
            cx.violation(&format!("C12:{}:serialize-error:key-batch", T::KIND), &batch_case, || e.to_string());
            return;
        }
        Err(p) => {
            cx.violation(&format!("C12:panic:{}", vcore::obs::panic_site(&p)), &batch_case, || p.clone());
            return;
        }
    };
    let mut bad: Option<usize> = None;
    let mut n = 0usize;
    for (i, line) in text.lines().enumerate() {
        n += 1;
        let ok = line.strip_suffix(": 6").map(float_grammar).unwrap_or(false);
        if !ok && bad.is_none() {
            bad = Some(i);
        }
    }
    if n != keys.len() && bad.is_none() {
        bad = Some(n.min(keys.len() - 1));
    }
    let back = vcore::obs::catch(|| serde_saphyr::from_str::<Om<T, u8>>(&text));
    if bad.is_none() {
        match &back {
            Ok(Ok(b)) if b.0.len() == m.0.len() => bad = b.0.iter().zip(&m.0).position(|(x, y)| x != y),
            _ => bad = Some(0),
        }
    }
    *cx.local.entry("float_key_batch_elements_roundtripped").or_insert(0) += keys.len() as u64;
    if let Some(i) = bad {
        let before = cx.failures_so_far();
        let i = i.min(keys.len() - 1);
        check_value(cx, &keys[i], &[Pos::MapKey, Pos::MapSecondKey], &[DEFAULT_OV]);
        if cx.failures_so_far() == before {
            cx.violation(&format!("C12:{}:key-batch-only", T::KIND), &batch_case, || {
                format!(
                    "mapping with {} float keys does not round-trip (first bad key #{i} = {:?}) although that key alone does; read-back: {}",
                    keys.len(),
                    keys[i],
                    match &back {
                        Ok(Ok(_)) => "Ok(different)".to_string(),
                        Ok(Err(e)) => format!("{} ({})", vcore::errs::kind(e), e.without_snippet().to_string().lines().next().unwrap_or("")),
                        Err(p) => p.clone(),
                    }
                )
            });
        }
    }
}

// ------------------------------------------------------------------ replay

fn replay(run: &Run, case: &J) {
    let mut cx = Cx::new(run);
    let kind = case["kind"].as_str().unwrap_or("");
    let pos = case["pos"].as_str().and_then(Pos::from_name).unwrap_or(Pos::Root);
    let ov = Ov::from_json(&case["ov"]);
    let val = &case["value"];
    macro_rules! go {
        ($t:ty) => {
            match <$t as Scalar>::from_json(val) {
                Some(v) => check_pos(&mut cx, &v, pos, ov),
                None => {
                    eprintln!("harness error: replay value not readable as {}", kind);
                    std::process::exit(2)
                }
            }
        };
    }
    match kind {
        "string" => go!(String),
        "char" => go!(char),
        "option-string" => go!(OptStr),
        "f64" => go!(F64),
        "f32" => go!(F32),
        "bool" => go!(bool),
        "i8" => go!(i8),
        "i16" => go!(i16),
        "i32" => go!(i32),
        "i64" => go!(i64),
        "i128" => go!(i128),
        "u8" => go!(u8),
        "u16" => go!(u16),
        "u32" => go!(u32),
        "u64" => go!(u64),
        "u128" => go!(u128),
        "unit" => go!(Unit),
        "bytes" => go!(Bytes),
        "f32-batch" => {
            let base = case["base"].as_u64().unwrap_or(0) as u32;
            let n = case["count"].as_u64().unwrap_or(0) as u32;
            let v: Vec<F32> = (0..n).map(|i| F32(f32::from_bits(base.wrapping_add(i)))).collect();
            check_float_batch(&mut cx, &v, || case.clone());
        }
        "f64-key-batch" => {
            let v: Vec<F64> = case["bits"].as_array().map(|a| a.iter().filter_map(F64::from_json).collect()).unwrap_or_default();
            check_float_key_batch(&mut cx, &v, || case.clone());
        }
        "f32-key-batch" => {
            let v: Vec<F32> = case["bits"].as_array().map(|a| a.iter().filter_map(F32::from_json).collect()).unwrap_or_default();
            check_float_key_batch(&mut cx, &v, || case.clone());
        }
        "f64-batch" => {
            let v: Vec<F64> = case["bits"].as_array().map(|a| a.iter().filter_map(F64::from_json).collect()).unwrap_or_default();
            check_float_batch(&mut cx, &v, || case.clone());
        }
        other => {
            eprintln!("harness error: unknown replay kind {other:?}");
            std::process::exit(2)
        }
    }
}

// ------------------------------------------------------------------ main

const BYTES_POS: [Pos; 9] = [
    Pos::Root,
    Pos::SeqItem,
    Pos::MapValue,
    Pos::NestedMapInSeqValue,
    Pos::FlowSeq,
    Pos::FlowMapValue,
    Pos::VariantRoot,
    Pos::VariantInMap,
    Pos::StructVariantField,
];

fn main() {
    let run = Run::from_args("C12");
    if let Some(rep) = run.is_replay() {
        replay(&run, &rep["case"]);
        run.finish(Finish::new("replay"));
    }
    // debugging aid: C12_STR='"json string"' runs one string through every position and curated vector
    if let Ok(js) = std::env::var("C12_STR") {
        let s: String = serde_json::from_str(&js).expect("C12_STR must be a JSON string literal");
        let mut cx = Cx::new(&run);
        check_value(&mut cx, &s, &Pos::ALL, &CURATED);
        drop(cx);
        run.finish(Finish::new("single string (debug)"));
    }
    let tier = run.tier;
    let thorough = tier == Tier::Thorough;
    let seed = run.seed;
    let only: Option<String> = std::env::var("C12_ONLY").ok();
    let want = |part: &str| only.as_deref().map(|o| o.contains(part)).unwrap_or(true);
    let t0 = std::time::Instant::now();
    let lap = |name: &str| {
        if std::env::var_os("C12_TIMING").is_some() {
            eprintln!("[c12] {name} done at {:.1}s", t0.elapsed().as_secs_f64());
        }
    };

    // ---- A. exhaustive strings over the 32-symbol adversarial alphabet
    //      length <= 3: every position x every curated vector; length 4 (thorough): every position x
    //      the 6 most different vectors, and the 17 base positions x 3 more vectors
    let max_len = tier.pick(3, 4);
    let total = gens::count_upto(gens::ADV.len(), max_len);
    let upto3 = gens::count_upto(gens::ADV.len(), 3);
    let six: [Ov; 6] = [CURATED[0], CURATED[1], CURATED[4], CURATED[8], CURATED[9], CURATED[10]];
    let other3: [Ov; 3] = [CURATED[3], CURATED[5], CURATED[7]];
    const PER: usize = 16;
    if want("A") {
        par_range(total.div_ceil(PER), |ci| {
            let mut cx = Cx::new(&run);
            for idx in (ci * PER)..((ci + 1) * PER).min(total) {
                let s = gens::nth_string(&gens::ADV, idx);
                if idx < upto3 {
                    check_value(&mut cx, &s, &Pos::ALL, &CURATED);
                } else {
                    check_value(&mut cx, &s, &Pos::ALL, &six);
                    check_value(&mut cx, &s, &Pos::BASE, &other3);
                }
                cx.bump("strings_adversarial_exhaustive");
                if idx % 20011 == 0 {
                    run.sample(|| json!({"kind": "string", "value": s, "positions": "all 38", "option_vectors": "13 curated"}));
                }
            }
        });
        lap("A exhaustive adversarial strings");
    }

    // ---- A4 / A5. one symbol more over the most hostile sub-alphabets
    //      quick: all 16^4 strings of length 4 over HOSTILE16 x every position x 6 vectors
    //      (thorough covers them in A); thorough: all 12^5 strings of length 5 over HOSTILE12 x
    //      every position x 13 vectors
    let (sub_alpha, sub_len): (&[char], usize) = if thorough { (&gens::HOSTILE12, 5) } else { (&gens::HOSTILE16, 4) };
    let sub_total = sub_alpha.len().pow(sub_len as u32);
    if want("S") {
        par_range(sub_total.div_ceil(PER), |ci| {
            let mut cx = Cx::new(&run);
            for idx in (ci * PER)..((ci + 1) * PER).min(sub_total) {
                let s = gens::nth_of_len(sub_alpha, sub_len, idx);
                if thorough {
                    check_value(&mut cx, &s, &Pos::ALL, &CURATED);
                } else {
                    check_value(&mut cx, &s, &Pos::ALL, &six);
                }
                cx.bump("strings_hostile_subalphabet_exhaustive");
                if idx % 30011 == 0 {
                    run.sample(|| json!({"kind": "string", "value": s, "family": "hostile sub-alphabet, one symbol longer"}));
                }
            }
        });
        lap("S hostile sub-alphabet");
    }

    // ---- O. the full option grid (960 vectors) on every string of length <= 2
    let grid_pos: Vec<Pos> = if thorough { Pos::ALL.to_vec() } else { Pos::CORE.iter().chain(Pos::LAYOUT.iter()).copied().collect() };
    let n_short = gens::count_upto(gens::ADV.len(), 2);
    if want("O") {
        par_range(n_short * 16, |j| {
            let mut cx = Cx::new(&run);
            let (si, part) = (j / 16, j % 16);
            let s = gens::nth_string(&gens::ADV, si);
            for g in (part * Ov::GRID / 16)..((part + 1) * Ov::GRID / 16) {
                let ov = Ov::grid(g);
                for &p in &grid_pos {
                    check_pos(&mut cx, &s, p, ov);
                }
            }
            cx.bump("string_x_full_option_grid_sixteenths");
        });
        lap("O full option grid");
    }

    // ---- B. exhaustive number look-alikes
    let num_len = tier.pick(4, 5);
    let total_num = gens::count_upto(gens::NUM.len(), num_len);
    let num_pos = [Pos::Root, Pos::MapValue, Pos::MapKey, Pos::FlowSeq, Pos::FlowMapKey];
    let num_ovs = [CURATED[0], CURATED[5]];
    if want("B") {
        par_range(total_num.div_ceil(64), |ci| {
            let mut cx = Cx::new(&run);
            for idx in (ci * 64)..((ci + 1) * 64).min(total_num) {
                let s = gens::nth_string(&gens::NUM, idx);
                check_value(&mut cx, &s, &num_pos, &num_ovs);
                check_value(&mut cx, &OptStr(Some(s.clone())), &[Pos::Root, Pos::MapValue], &[DEFAULT_OV]);
                cx.bump("strings_number_lookalike_exhaustive");
                if idx % 50021 == 0 {
                    run.sample(|| json!({"kind": "string", "value": s, "family": "number look-alike"}));
                }
            }
        });
        lap("B number look-alikes");
    }

    // ---- C. word look-alikes with prefixes / suffixes
    if want("C") {
        let looks = gens::lookalikes();
        let look_ovs = [CURATED[0], CURATED[4], CURATED[5], CURATED[7]];
        let look_pos: Vec<Pos> = Pos::CORE
            .iter()
            .copied()
            .chain([Pos::MapSecondKey, Pos::NestedMapKey, Pos::ComplexKeyValue, Pos::SeqInSeqItem, Pos::VariantInFlow])
            .collect();
        par_range(looks.len().div_ceil(32), |ci| {
            let mut cx = Cx::new(&run);
            for s in &looks[(ci * 32)..((ci + 1) * 32).min(looks.len())] {
                check_value(&mut cx, s, &look_pos, &look_ovs);
                check_value(&mut cx, &OptStr(Some(s.clone())), &[Pos::Root, Pos::MapValue, Pos::FlowSeq], &[DEFAULT_OV]);
                cx.bump("strings_lookalike");
            }
        });
        let mut cx = Cx::new(&run);
        check_value(&mut cx, &OptStr(None), &Pos::ALL, &CURATED);
        lap("C word look-alikes");
    }

    // ---- D. short adversarial pieces pushed into the long-string paths
    if want("D") {
        let n_pieces = gens::count_upto(gens::ADV.len(), 2);
        let pad_pos = [
            Pos::Root,
            Pos::SeqItem,
            Pos::MapValue,
            Pos::MapKey,
            Pos::NestedMapInSeqValue,
            Pos::VariantInMap,
            Pos::FlowSeq,
            Pos::TupleStructField,
            Pos::SeqInSeqItem,
            Pos::SeqInSeqInMap,
            Pos::ComplexKeyValue,
            Pos::TupleVariantInMap,
            Pos::StructVariantInSeq,
            Pos::NestedMapKey,
        ];
        let pad_ovs = [CURATED[0], CURATED[3], CURATED[6], CURATED[9], CURATED[12]];
        par_range(n_pieces, |i| {
            let mut cx = Cx::new(&run);
            let piece = gens::nth_string(&gens::ADV, i);
            for s in gens::padded(&piece) {
                check_value(&mut cx, &s, &pad_pos, &pad_ovs);
                cx.bump("strings_padded_long");
            }
        });
        lap("D padded long strings");
    }

    // ---- E. random strings up to 4 KiB, random position, random option vector from the full grid
    if want("E") {
        let n_random = tier.pick(100_000, 2_000_000);
        par_range(n_random, |i| {
            let mut cx = Cx::new(&run);
            let mut rng = Rng::stream(seed, i as u64);
            let s = gens::random_string(&mut rng, 4096);
            for _ in 0..3 {
                let pos = *rng.pick(&Pos::ALL);
                let ov = Ov::random(&mut rng);
                check_pos(&mut cx, &s, pos, ov);
            }
            if s.nontrivial() {
                run.nontrivial(s.stable_hash());
            }
            cx.bump("strings_random");
            if i % 64 == 0 {
                cx.run.max("longest_random_string_chars", s.chars().count() as u64);
            }
            if i % 9973 == 0 {
                run.sample(|| json!({"kind": "string", "value": s.chars().take(120).collect::<String>(), "chars": s.chars().count(), "family": "random"}));
            }
        });
        lap("E random strings");
    }

    // ---- L. C0 / C1 controls, DEL, BOM, U+2028/9, non-characters and Unicode blanks in templates
    if want("L") {
        let ctl = gens::control_char_strings();
        let ctl_ovs = [CURATED[0], CURATED[4], CURATED[7], CURATED[9], CURATED[12]];
        par_range(ctl.len(), |i| {
            let mut cx = Cx::new(&run);
            check_value(&mut cx, &ctl[i], &Pos::ALL, &ctl_ovs);
            cx.bump("strings_control_char_templates");
        });
        lap("L control characters");
    }

    // ---- T. lengths on the emitter's thresholds (folded_wrap_chars 8 / 80, 1024-character keys)
    if want("T") {
        let thr = gens::threshold_strings();
        let thr_pos = [
            Pos::Root,
            Pos::SeqItem,
            Pos::MapValue,
            Pos::NestedMapInSeqValue,
            Pos::SeqInSeqItem,
            Pos::TupleVariantInMap,
            Pos::ComplexKeyValue,
            Pos::FlowSeq,
            Pos::MapKey,
            Pos::DashFirstKey,
            Pos::NestedMapKey,
            Pos::NestedMapKeyInSeq,
            Pos::MapSecondKey,
            Pos::DashSecondKey,
            Pos::FlowMapKey,
            Pos::ComplexKeyMember,
        ];
        par_range(thr.len(), |i| {
            let mut cx = Cx::new(&run);
            check_value(&mut cx, &thr[i], &thr_pos, &CURATED);
            cx.bump("strings_on_length_thresholds");
            if i % 997 == 0 {
                run.sample(|| json!({"kind": "string", "chars": thr[i].chars().count(), "head": thr[i].chars().take(24).collect::<String>(), "family": "length threshold"}));
            }
        });
        lap("T thresholds");
    }

    // ---- F. chars
    if want("F") {
        let char_ovs = [CURATED[0], CURATED[4], CURATED[7]];
        let n_cp = 0x110000usize;
        par_range(n_cp.div_ceil(256), |ci| {
            let mut cx = Cx::new(&run);
            for cp in (ci * 256)..((ci + 1) * 256).min(n_cp) {
                let Some(c) = char::from_u32(cp as u32) else { continue };
                let special =
                    cp < 0x3100 || (0xD700..0xE100).contains(&cp) || (0xFE00..0x10100).contains(&cp) || cp >= 0x10FF00 || cp % 0x10000 >= 0xFFF0;
                if !(thorough || special || (cp as u64 + seed) % 61 == 0) {
                    continue;
                }
                check_value(&mut cx, &c, &[Pos::Root], &char_ovs);
                if thorough || special {
                    check_value(&mut cx, &c, &[Pos::MapKey, Pos::FlowSeq, Pos::MapValue], &[DEFAULT_OV]);
                }
                cx.bump("chars_checked");
            }
        });
        lap("F chars");
    }

    // ---- G. f32: all bit patterns (thorough) / strided batches (quick), in batches of 4096
    if want("G") {
        const FB: usize = 4096;
        let n_batches = (1usize << 32) / FB;
        let stride = tier.pick(127usize, 1);
        let n_sel = n_batches.div_ceil(stride);
        par_range(n_sel, |j| {
            let mut cx = Cx::new(&run);
            let b = (j * stride + (seed as usize % stride)) % n_batches;
            let base = (b * FB) as u32;
            let v: Vec<F32> = (0..FB as u32).map(|i| F32(f32::from_bits(base + i))).collect();
            check_float_batch(&mut cx, &v, || json!({"kind": "f32-batch", "base": base, "count": FB}));
            run.nontrivial(fnv_parts(&[b"f32-batch", &base.to_le_bytes()]));
            *cx.local.entry("f32_bit_patterns_roundtripped").or_insert(0) += FB as u64;
        });
        // f32 singly in every position
        let mut f32s = gens::f32_boundaries();
        {
            let mut rng = Rng::stream(seed, 0xF32);
            for _ in 0..tier.pick(3_000, 60_000) {
                f32s.push(f32::from_bits(rng.next_u64() as u32));
            }
        }
        par_range(f32s.len(), |i| {
            let mut cx = Cx::new(&run);
            let ovs: &[Ov] = if i % 8 == 0 { &CURATED } else { &CURATED[..2] };
            check_value(&mut cx, &F32(f32s[i]), &Pos::ALL, ovs);
            cx.bump("f32_single_values");
        });
        lap("G f32");
    }

    // ---- H. f64: boundaries in every position; random bit patterns in batches
    if want("H") {
        let f64b = gens::f64_boundaries();
        par_range(f64b.len(), |i| {
            let mut cx = Cx::new(&run);
            let ovs: &[Ov] = if i % 8 == 0 { &CURATED } else { &CURATED[..2] };
            check_value(&mut cx, &F64(f64b[i]), &Pos::ALL, ovs);
            cx.bump("f64_boundary_values");
        });
        let n_f64_batches = tier.pick(300, 10_000);
        par_range(n_f64_batches, |i| {
            let mut cx = Cx::new(&run);
            let mut rng = Rng::stream(seed, 0xF64_0000 + i as u64);
            let v: Vec<F64> = (0..1024)
                .map(|_| {
                    let bits = rng.next_u64();
                    // half uniform bit patterns, half "decimal-looking" doubles
                    if rng.bool() {
                        F64(f64::from_bits(bits))
                    } else {
                        F64(((bits % 2_000_000_000) as f64 - 1e9) / [1.0, 10.0, 100.0, 1e3, 1e6, 1e9][(bits >> 40) as usize % 6])
                    }
                })
                .collect();
            check_float_batch(&mut cx, &v, || json!({"kind": "f64-batch", "bits": v.iter().map(|x| x.to_json()).collect::<Vec<_>>()}));
            *cx.local.entry("f64_random_roundtripped").or_insert(0) += v.len() as u64;
            run.nontrivial(fnv_parts(&[b"f64-batch", &(i as u64).to_le_bytes(), &seed.to_le_bytes()]));
            // a few of them singly, random position and options
            for k in 0..8 {
                let pos = *rng.pick(&Pos::ALL);
                let ov = Ov::random(&mut rng);
                check_pos(&mut cx, &v[k * 100], pos, ov);
                run.nontrivial(v[k * 100].stable_hash());
            }
        });
        lap("H f64");
    }

    // ---- X. every f64 exponent (2048) x k random mantissas and signs, as sequence items and as KEYS;
    //      f32: every exponent (256) x k as keys
    if want("X") {
        let k64 = tier.pick(64usize, 1024);
        par_range(2048, |exp| {
            let mut cx = Cx::new(&run);
            let mut rng = Rng::stream(seed, 0xE64_0000 + exp as u64);
            let mut vals: Vec<F64> = Vec::with_capacity(k64 + 2);
            vals.push(F64(f64::from_bits((exp as u64) << 52)));
            vals.push(F64(f64::from_bits(((exp as u64) << 52) | 0x000f_ffff_ffff_ffff)));
            for _ in 0..k64 {
                let r = rng.next_u64();
                vals.push(F64(f64::from_bits((r & 0x800f_ffff_ffff_ffff) | ((exp as u64) << 52))));
            }
            for chunk in vals.chunks(1024) {
                check_float_batch(&mut cx, chunk, || json!({"kind": "f64-batch", "bits": chunk.iter().map(|x| x.to_json()).collect::<Vec<_>>()}));
            }
            for chunk in vals.chunks(256) {
                check_float_key_batch(&mut cx, chunk, || json!({"kind": "f64-key-batch", "bits": chunk.iter().map(|x| x.to_json()).collect::<Vec<_>>()}));
            }
            run.nontrivial(fnv_parts(&[b"f64-exponent", &(exp as u64).to_le_bytes(), &seed.to_le_bytes()]));
            *cx.local.entry("f64_exponent_sweep_values").or_insert(0) += vals.len() as u64;
        });
        let k32 = tier.pick(256usize, 4096);
        par_range(256, |exp| {
            let mut cx = Cx::new(&run);
            let mut rng = Rng::stream(seed, 0xE32_0000 + exp as u64);
            let mut vals: Vec<F32> = vec![F32(f32::from_bits((exp as u32) << 23)), F32(f32::from_bits(((exp as u32) << 23) | 0x007f_ffff))];
            for _ in 0..k32 {
                let r = rng.next_u64() as u32;
                vals.push(F32(f32::from_bits((r & 0x807f_ffff) | ((exp as u32) << 23))));
            }
            for chunk in vals.chunks(256) {
                check_float_key_batch(&mut cx, chunk, || json!({"kind": "f32-key-batch", "bits": chunk.iter().map(|x| x.to_json()).collect::<Vec<_>>()}));
            }
            run.nontrivial(fnv_parts(&[b"f32-exponent-keys", &(exp as u64).to_le_bytes(), &seed.to_le_bytes()]));
            *cx.local.entry("f32_exponent_sweep_key_values").or_insert(0) += vals.len() as u64;
        });
        lap("X float exponent sweep, float keys");
    }

    // ---- I. integers of every width, bool, unit
    if want("I") {
        let (sints, uints) = gens::int_boundaries();
        let int_ovs = [CURATED[0], CURATED[1], CURATED[4], CURATED[5], CURATED[11]];
        par_range(sints.len(), |i| {
            let mut cx = Cx::new(&run);
            let x = sints[i];
            check_value(&mut cx, &x, &Pos::ALL, &int_ovs);
            macro_rules! narrow {
                ($($t:ty),*) => {$(
                    if let Ok(y) = <$t>::try_from(x) { check_value(&mut cx, &y, &Pos::ALL, &int_ovs[..2]); }
                )*};
            }
            narrow!(i8, i16, i32, i64);
            cx.bump("signed_int_boundary_values");
        });
        par_range(uints.len(), |i| {
            let mut cx = Cx::new(&run);
            let x = uints[i];
            check_value(&mut cx, &x, &Pos::ALL, &int_ovs);
            macro_rules! narrow {
                ($($t:ty),*) => {$(
                    if let Ok(y) = <$t>::try_from(x) { check_value(&mut cx, &y, &Pos::ALL, &int_ovs[..2]); }
                )*};
            }
            narrow!(u8, u16, u32, u64);
            cx.bump("unsigned_int_boundary_values");
        });
        let mut cx = Cx::new(&run);
        for b in [true, false] {
            check_value(&mut cx, &b, &Pos::ALL, &CURATED);
        }
        check_value(&mut cx, &Unit(()), &Pos::ALL, &CURATED);
        for w in i8::MIN..=i8::MAX {
            check_value(&mut cx, &w, &[Pos::Root, Pos::MapKey, Pos::FlowSeq], &[DEFAULT_OV]);
        }
        for w in u8::MIN..=u8::MAX {
            check_value(&mut cx, &w, &[Pos::Root, Pos::MapKey, Pos::FlowSeq], &[DEFAULT_OV]);
        }
        lap("I ints, bool, unit");
    }

    // ---- K. byte arrays: all of length <= 2, random longer
    if want("K") {
        let n_small: usize = 1 + 256 + 65536;
        let bytes_ovs = [CURATED[0], CURATED[8]];
        par_range(n_small.div_ceil(64), |ci| {
            let mut cx = Cx::new(&run);
            for idx in (ci * 64)..((ci + 1) * 64).min(n_small) {
                let b: Vec<u8> = if idx == 0 {
                    vec![]
                } else if idx <= 256 {
                    vec![(idx - 1) as u8]
                } else {
                    let x = idx - 257;
                    vec![(x >> 8) as u8, x as u8]
                };
                check_value(&mut cx, &Bytes(serde_bytes::ByteBuf::from(b)), &BYTES_POS, &bytes_ovs);
                cx.bump("byte_arrays_exhaustive");
            }
        });
        let n_rb = tier.pick(2_000, 60_000);
        par_range(n_rb, |i| {
            let mut cx = Cx::new(&run);
            let mut rng = Rng::stream(seed, 0xB17E5_0000 + i as u64);
            let len = if rng.chance(1, 8) { rng.range(256, 4096) } else { rng.range(3, 64) };
            let b: Vec<u8> = (0..len).map(|_| rng.next_u64() as u8).collect();
            let pos = *rng.pick(&BYTES_POS);
            let ov = Ov::random(&mut rng);
            let v = Bytes(serde_bytes::ByteBuf::from(b));
            check_pos(&mut cx, &v, pos, ov);
            run.nontrivial(v.stable_hash());
            cx.bump("byte_arrays_random");
        });
        lap("K bytes");
    }

    // ---- evidence
    {
        let m = SIG_COUNTS.lock().unwrap();
        for (sig, n) in m.iter() {
            run.count(&format!("failing_cases_by_signature/{sig}"), *n);
        }
    }
    {
        let m = SIG_POS_COUNTS.lock().unwrap();
        for (k, n) in m.iter() {
            run.count(&format!("failing_cases_by_signature_and_position/{k}"), *n);
        }
    }
    for o in CURATED {
        run.observe("option_vectors_curated", &o.label());
    }
    for p in Pos::ALL {
        run.observe("positions", p.name());
    }
    let scope = format!(
        "strings: all {upto3} strings of length <= 3 over the 32-symbol adversarial alphabet x 38 positions x 13 curated option vectors{}; {}; all 1057 strings of length <= 2 x the full grid of 960 option vectors (indent_step 1/2/3/4/8 x quote_all x yaml_12 x prefer_block_scalars x folded_wrap_chars 0/8/80 x min_fold_chars 0/32 x compact_list_indent x empty_as_braces) x {} positions; all {total_num} strings of length <= {num_len} over the 18-symbol number look-alike alphabet x 5 positions x {{default, yaml_12}}; chars: {}; f32: {}; f64/f32: every exponent value (2048 / 256) with its two extreme mantissas; byte arrays: all 65 793 arrays of length <= 2 x 9 positions x 2 option vectors; i8/u8: all values at root, map key, flow item",
        if thorough { format!(", all {} strings of length 4 x 38 positions x 6 vectors and x 17 base positions x 3 more vectors", total - upto3) } else { String::new() },
        if thorough {
            format!("all {sub_total} strings of length 5 over the 12-symbol sub-alphabet (a 0 SP LF TAB CR : # - . ' \") x 38 positions x 13 vectors")
        } else {
            format!("all {sub_total} strings of length 4 over the 16-symbol sub-alphabet (a 0 SP LF TAB CR : # - . ' \" \\ < U+FEFF ,) x 38 positions x 6 vectors")
        },
        grid_pos.len(),
        if thorough {
            "all 1 112 064 scalar values at root x 3 option vectors and as map key / map value / flow item"
        } else {
            "all scalar values below U+3100 and around the surrogate gap, U+FE00..U+100FF, plane ends (others sampled 1/61)"
        },
        if thorough {
            "all 2^32 bit patterns (batched block sequences of 4096)"
        } else {
            "1/127 of the 2^32 bit patterns in whole batches of 4096 consecutive patterns (not exhaustive)"
        },
    );
    let fin = Finish::new(
        "a value counts as non-trivial when the emitter has to take a decision for it: a string/char that is empty, contains a non-letter or is a reserved word (null/true/yes/…); any float; any byte array; (integers, bool, unit are executed but not counted). Distinct by hash(kind, value); each distinct value is executed in up to 38 positions x 13 curated option vectors (strings of length <= 2: x all 960 vectors of the option grid). Float batches count once per batch (4096 / 1024 sequence items, 256 mapping keys) and once per exponent of the exponent sweep.",
    )
    .exhaustive(scope)
    .assume("reading is done with serde_saphyr::from_str and default Options (the statement's 'deserializes back')")
    .assume("yaml_12 output is additionally read with '---' inserted after the %YAML directive (the missing marker itself is reported under C12:yaml12:directive-without-document-start), so the scalar oracles keep watching yaml_12 emission")
    .assume("untyped reading of non-finite floats, of integers outside i64/u64, of !!binary scalars, and of YAML 1.1 bool spellings emitted under yaml_12 is unspecified by the statement (typed identity is still checked)")
    .min_nontrivial(if only.is_some() { 2 } else { tier.pick(100_000, 1_000_000) });
    run.finish(fin);
}
