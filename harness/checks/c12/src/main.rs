use vcore::val::Val;
fn main() {
    for t in ["y\n", "yes\n", "On\n", "%YAML 1.2\n---\ny\n", "- y\n", "y: 1\n", "0o7\n", "0x1f\n", "1_0\n", "+.inf\n", ".NaN\n", "~\n", "Null\n", "TRUE\n", "0b1\n", "1e3\n", "007\n", "+1\n", "1.\n", ".5\n", "0x_\n", "-0x1\n", "1__0\n", "_1\n", "1:20\n", "1_000.5\n", "=\n", "2001-01-01\n", "NULL\n", "nULL\n", "oN\n", "0.\n", "-.5e3\n", "1e+3\n", ".e3\n", "+.5\n", "1E3\n", "infinity\n", "-Infinity\n", "NaN\n", "nan\n", "Inf\n", ".Inf\n", ".INF\n", "+.INF\n", "0o8\n", "0_\n"] {
        println!("{t:?} -> {:?}", serde_saphyr::from_str::<Val>(t).map_err(|e| vcore::errs::kind(&e)));
    }
}
