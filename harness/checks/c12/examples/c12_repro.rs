//! Minimal public-API reproductions of the C12 findings (one per signature).
//! Run: cd /verif/harness && cargo run --release -p c12 --example c12_repro
use serde::{Deserialize, Serialize};
use std::collections::BTreeMap;

#[derive(Serialize, Deserialize, PartialEq, Debug)]
struct Ts(String, u8);
#[derive(Serialize, Deserialize, PartialEq, Debug)]
enum En {
    V(String),
    T(String, u8),
    S { f: String, g: u8 },
}
#[derive(Serialize, Deserialize, PartialEq, Debug)]
struct Item {
    k: String,
    z: u8,
}
#[derive(Serialize, Deserialize, PartialEq, Debug)]
struct Outer {
    o: Vec<Item>,
}

fn show<T: Serialize + for<'a> Deserialize<'a> + PartialEq + std::fmt::Debug>(label: &str, v: &T, o: serde_saphyr::SerializerOptions) {
    let text = serde_saphyr::to_string_with_options(v, o).unwrap();
    let back = serde_saphyr::from_str::<T>(&text);
    let ok = matches!(&back, Ok(b) if b == v);
    println!(
        "[{}] {label}\n    value   {}\n    emitted {}\n    back    {}",
        if ok { "ok  " } else { "FAIL" },
        clip(&format!("{v:?}")),
        clip(&format!("{text:?}")),
        clip(&format!("{:?}", back.map_err(|e| e.without_snippet().to_string())))
    );
}
fn clip(s: &str) -> String {
    if s.chars().count() <= 160 { s.to_string() } else { format!("{}… ({} chars)", s.chars().take(120).collect::<String>(), s.chars().count()) }
}
fn untyped(label: &str, s: &str) {
    let text = serde_saphyr::to_string(&s.to_string()).unwrap();
    let back = serde_saphyr::from_str::<serde_json::Value>(&text);
    let ok = matches!(&back, Ok(serde_json::Value::String(b)) if b == s);
    println!("[{}] {label}\n    value   {s:?}\n    emitted {text:?}\n    untyped {:?}", if ok { "ok  " } else { "FAIL" }, back.map_err(|e| e.without_snippet().to_string()));
}

fn main() {
    let d = serde_saphyr::SerializerOptions::default();
    // C12:string:trailing-space
    show("trailing-space", &"a ".to_string(), d);
    // C12:string:leading-bom
    show("leading-bom", &"\u{FEFF}a".to_string(), d);
    // C12:string:document-marker
    show("document-marker ---", &"---".to_string(), d);
    show("document-marker ...", &"...".to_string(), d);
    show("document-marker '--- a'", &"--- a".to_string(), d);
    show("document-marker as root key", &BTreeMap::from([("--- a".to_string(), 1u8)]), d);
    // C12:string:merge-key
    show("merge-key", &BTreeMap::from([("<<".to_string(), 1u8)]), d);
    // C12:string:plain:flow-value:ends-with-space-dash
    show("flow ends-with-space-dash", &serde_saphyr::FlowSeq(vec!["a -".to_string()]), d);
    // C12:string:plain:reads-as-number / reads-as-special-float / unicode-whitespace-padding
    untyped("reads-as-number _1", "_1");
    untyped("reads-as-number 0X1F", "0X1F");
    untyped("reads-as-special-float +nan", "+nan");
    untyped("reads-as-special-float Infinity", "Infinity");
    untyped("unicode-whitespace-padding", "\u{2028}0");
    // C12:yaml12:directive-without-document-start
    show("yaml_12 directive", &"a".to_string(), serde_saphyr::ser_options! { yaml_12: true });
    show("yaml_12 directive (map)", &BTreeMap::from([("k".to_string(), 1u8)]), serde_saphyr::ser_options! { yaml_12: true });
    // C12:string:block-scalar-body-under-indented:*
    show("under-indented tuple struct", &Ts("a\nb".into(), 6), d);
    show("under-indented tuple variant", &En::T("a\nb".into(), 6), d);
    show("under-indented map after dash, indent_step 1", &Outer { o: vec![Item { k: "a\nb".into(), z: 5 }] }, serde_saphyr::ser_options! { indent_step: 1 });
    show("under-indented newtype variant in seq, indent_step 1", &vec![En::V("a\nb".into())], serde_saphyr::ser_options! { indent_step: 1 });
    // C12:string:block-scalar-indentation-indicator-on-nested-node
    let lead = format!(" a\nb {}", "x".repeat(90));
    show("indentation indicator nested (struct variant field)", &En::S { f: lead.clone(), g: 6 }, d);
    show("indentation indicator nested (seq of maps)", &Outer { o: vec![Item { k: lead.clone(), z: 5 }] }, d);
    show("indentation indicator at column 0 (fine)", &Item { k: lead, z: 5 }, d);
    // C12:string:literal:control-char
    show("literal with CR (long multi-line)", &format!("a\rb\n{}", "x".repeat(81)), d);
    show("literal with NUL (long multi-line)", &format!("a\0b\n{}", "x".repeat(81)), d);
    // C12:string:literal:only-line-breaks
    show("only line breaks", &"\n".repeat(81), d);
    show("only line breaks (wrap 0)", &Item { k: "\n".to_string(), z: 5 }, serde_saphyr::ser_options! { folded_wrap_chars: 0 });
    // C12:string:key-longer-than-1024
    show("long key", &BTreeMap::from([("k".repeat(1025), 1u8)]), d);
}
