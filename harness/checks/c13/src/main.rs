//! C13 — every data-model shape round-trips as one well-formed YAML document.
//!
//! Oracle (differential on the real code, `vcore::tygen::roundtrip`): for a value `v` of a run-time
//! type `ty` and a valid serializer option vector `o`
//!   1. `to_string_with_options(&TSer(ty, v), o)` is `Ok` (no panic),
//!   2. the raw parser accepts the text and sees exactly one document,
//!   3. `from_multiple::<IgnoredAny>` yields one item,
//!   4. `SchemaSeed(ty)` over `with_deserializer_from_str` gives `v` back (floats bitwise, `Map`
//!      types compared as unordered pair sets).
//! Workload: (A) all types of the shape grammar with <= 4 (quick) / <= 5 (thorough) type nodes x
//! small values x the option cube; (B) the same small trees with block-scalar / long / CR leaves;
//! (C) the `anchor_generator` option judged on shared `RcAnchor` pairs (names only may change);
//! (E) the small trees serialized without announced lengths; (D) random trees to depth 6.
//! Failing cases are shrunk by a deterministic typed shrinker (`tygen::Shrinker`) to a locally
//! minimal case; the signature is the class of that minimal case (`classes.rs`).
//! `yaml_12` emits a `%YAML 1.2` directive without `---` (reported under its own signature); the
//! rest of such a document is still judged with the missing `---` line inserted.

mod classes;

use serde::Serialize;
use serde_json::{Value, json};
use std::cell::RefCell;
use std::collections::{BTreeMap, HashMap};
use std::rc::Rc;
use vcore::rng::{Rng, fnv};
use vcore::run::{Finish, Run, par_range};
use vcore::ty::{self, TSer, TVal, Ty, TyCfg, TyGrammar};
use vcore::tygen::{self, Opt, Rt, Shrinker, Stage};

fn fails(ty: &Ty, v: &TVal, o: &Opt) -> bool {
    tygen::roundtrip(ty, v, o).fail.is_some()
}

/// Fails only when sequence / map lengths are not announced to the serializer.
fn fails_nolen_only(ty: &Ty, v: &TVal, o: &Opt) -> bool {
    if !o.empty_as_braces && tygen::has_empty_collection(ty, v) {
        return false;
    }
    let Ok(text) = tygen::emit(&tygen::NoLen(TSer(ty, v)), o) else { return !fails(ty, v, o) };
    let mut skipped = false;
    let t = if tygen::directive_without_doc_start(&text) { tygen::insert_doc_start(&text) } else { text };
    tygen::check_text(ty, v, &t, &mut skipped).is_some() && !fails(ty, v, o)
}

thread_local! {
    static SHRINKER_NOLEN: RefCell<Shrinker> = RefCell::new(Shrinker::new(fails_nolen_only));
    static SHRINKER: RefCell<Shrinker> = RefCell::new(Shrinker::new(fails));
    /// per-thread number of full violation reports per signature (the rest is only counted)
    static REPORTED: RefCell<HashMap<String, u64>> = RefCell::new(HashMap::new());
    static LOCAL: RefCell<BTreeMap<String, u64>> = const { RefCell::new(BTreeMap::new()) };
}

fn lcount(key: &str, n: u64) {
    LOCAL.with(|l| *l.borrow_mut().entry(key.to_string()).or_insert(0) += n);
}

fn flush_local(run: &Run) {
    LOCAL.with(|l| {
        let mut l = l.borrow_mut();
        for (k, v) in l.iter() {
            run.count(k, *v);
        }
        l.clear();
    });
}

fn case_json(ty: &Ty, v: &TVal, o: &Opt, text: Option<&str>, part: &str) -> Value {
    json!({
        "part": part,
        "ty": ty.to_json(),
        "ty_text": ty.to_string(),
        "v": serde_json::to_string(v).unwrap_or_default(),
        "opt": o.to_json(),
        "emitted": text,
    })
}

fn report(run: &Run, sig: &str, mk_case: impl FnOnce() -> Value, mk_detail: impl FnOnce() -> String) {
    let n = REPORTED.with(|r| {
        let mut r = r.borrow_mut();
        let e = r.entry(sig.to_string()).or_insert(0);
        *e += 1;
        *e
    });
    lcount(&format!("failing_cases/{sig}"), 1);
    if n <= 4 {
        run.violation(sig, mk_case(), mk_detail());
    }
}

/// Verdict for one already evaluated case.
fn judge(run: &Run, ty: &Ty, v: &TVal, o: &Opt, rt: &Rt, part: &str) {
    if let Some(u) = rt.unspecified {
        lcount(&format!("unspecified/{u}"), 1);
        return;
    }
    if rt.null_doc_skipped {
        lcount("unspecified/from_multiple-skips-null-document", 1);
    }
    if rt.directive_defect {
        report(
            run,
            "C13:yaml_12:directive-without-document-start",
            || case_json(ty, v, o, rt.text.as_deref(), part),
            || "yaml_12: the text starts with `%YAML 1.2` but no `---` follows, the raw parser rejects the document".to_string(),
        );
    }
    match &rt.fail {
        None => {
            if !rt.directive_defect {
                lcount("held", 1);
            }
            if v.node_count() >= 2 {
                run.nontrivial(tygen::hash_case(ty, v, o));
            }
        }
        Some(Stage::Panic(p)) => {
            let sig = format!("C13:panic:{}", vcore::obs::panic_site(p));
            report(run, &sig, || case_json(ty, v, o, rt.text.as_deref(), part), || p.clone());
        }
        Some(stage) => {
            let min = SHRINKER.with(|s| s.borrow_mut().minimal(ty, v, o));
            let sig = classes::signature(&min);
            lcount(&format!("failure_stage/{}", stage.kind()), 1);
            report(
                run,
                &sig,
                || {
                    let mut c = case_json(ty, v, o, rt.text.as_deref(), part);
                    let mtext = tygen::emit(&TSer(&min.ty, &min.v), &min.o).ok();
                    c["minimal"] = json!({
                        "ty_text": min.ty.to_string(),
                        "v": format!("{:?}", min.v),
                        "opt_non_default": min.o.non_default(),
                        "form": tygen::form(&min.ty, &min.v),
                        "emitted": mtext,
                    });
                    c
                },
                || format!("{}: {}", stage.kind(), stage.detail()),
            );
            if std::env::var_os("VERIF_EXPLORE").is_some() {
                explore_note(&sig, &min);
            }
        }
    }
}

static EXPLORE: std::sync::Mutex<BTreeMap<String, (u64, String)>> = std::sync::Mutex::new(BTreeMap::new());

fn explore_note(sig: &str, min: &tygen::Minimal) {
    let key = format!("{sig}  <=  {} | {}", tygen::form(&min.ty, &min.v), tygen::opt_class(&min.o));
    let mut e = EXPLORE.lock().unwrap();
    let ent = e.entry(key).or_insert_with(|| {
        let rt = tygen::roundtrip(&min.ty, &min.v, &min.o);
        (
            0,
            format!(
                "{} = {:?} [{}]\n      {:?}\n      {}",
                min.ty,
                min.v,
                min.o.non_default().join(","),
                rt.text.unwrap_or_default(),
                rt.fail.map(|s| format!("{}: {}", s.kind(), s.detail())).unwrap_or_default()
            ),
        )
    });
    ent.0 += 1;
}

fn observe_contexts(run: &Run, ty: &Ty, v: &TVal) {
    tygen::contexts(ty, v, &mut |p, pos, c| run.observe("emitter_contexts(parent/position/child)", &format!("{p}/{pos}/{c}")));
}

fn check_case(run: &Run, ty: &Ty, v: &TVal, o: &Opt, part: &str) {
    run.eval();
    let rt = tygen::roundtrip(ty, v, o);
    judge(run, ty, v, o, &rt, part);
}

/// All option vectors of the exhaustive part: 2^7 booleans x indent {2, 1, 4}.
fn all_opts() -> Vec<Opt> {
    let mut v = Vec::new();
    for indent in [2usize, 1, 4] {
        for bits in 0..128u8 {
            v.push(Opt::from_bits(bits, indent));
        }
    }
    v
}

/// One (ty, v) under a list of option vectors; the text-level steps are evaluated once per
/// distinct emitted text (the oracle's steps 2-4 are a function of (ty, v, text)).
fn check_pair_all_opts(run: &Run, ty: &Ty, v: &TVal, opts: &[Opt], part: &str) {
    let mut seen: HashMap<(u64, bool), Rc<Rt>> = HashMap::new();
    let has_empty = tygen::has_empty_collection(ty, v);
    for o in opts {
        run.eval();
        let text = match tygen::emit(&TSer(ty, v), o) {
            Ok(t) => t,
            Err(stage) => {
                let rt = Rt { text: None, directive_defect: false, unspecified: None, null_doc_skipped: false, fail: Some(stage) };
                judge(run, ty, v, o, &rt, part);
                continue;
            }
        };
        let unspec = !o.empty_as_braces && has_empty;
        let key = (fnv(text.as_bytes()), unspec);
        let rt = match seen.get(&key) {
            Some(rt) => {
                lcount("text_cache_hits", 1);
                rt.clone()
            }
            None => {
                let rt = Rc::new(tygen::roundtrip(ty, v, o));
                lcount("distinct_texts_checked", 1);
                seen.insert(key, rt.clone());
                rt
            }
        };
        judge(run, ty, v, o, &rt, part);
    }
}

// ---------------------------------------------------------------- anchored pair (custom anchor names)

struct OwnedVal(Ty, TVal);
impl Serialize for OwnedVal {
    fn serialize<S: serde::Serializer>(&self, s: S) -> Result<S::Ok, S::Error> {
        TSer(&self.0, &self.1).serialize(s)
    }
}

#[derive(Serialize)]
struct SharedPair {
    f0: serde_saphyr::RcAnchor<OwnedVal>,
    f1: serde_saphyr::RcAnchor<OwnedVal>,
}

/// The same value twice behind one `Rc` (first occurrence defines the anchor, second is an alias),
/// as two struct fields and as two sequence items. The `anchor_generator` option must change the
/// anchor *names* and nothing else: same outcome, and the same text once the names are mapped back.
/// (How anchors are laid out around each shape is C14's subject; here only the option is judged.)
fn check_anchored(run: &Run, ty: &Ty, v: &TVal, o: &Opt) {
    let rc = std::rc::Rc::new(OwnedVal(ty.clone(), v.clone()));
    let pair = SharedPair { f0: serde_saphyr::RcAnchor(rc.clone()), f1: serde_saphyr::RcAnchor(rc.clone()) };
    let seq = vec![serde_saphyr::RcAnchor(rc.clone()), serde_saphyr::RcAnchor(rc)];
    let o_def = Opt { anchor_gen: false, ..*o };
    let o_gen = Opt { anchor_gen: true, ..*o };
    for (which, a, b) in [
        ("struct", tygen::emit(&pair, &o_def), tygen::emit(&pair, &o_gen)),
        ("seq", tygen::emit(&seq, &o_def), tygen::emit(&seq, &o_gen)),
    ] {
        run.evals(2);
        let case = |t: Option<&str>| {
            let mut c = case_json(ty, v, o, t, "anchored-pair");
            c["holder"] = json!(which);
            c
        };
        match (a, b) {
            (Err(Stage::Panic(p)), _) | (_, Err(Stage::Panic(p))) => {
                report(run, &format!("C13:panic:{}", vcore::obs::panic_site(&p)), || case(None), || p.clone());
            }
            (Ok(t0), Ok(t1)) => {
                let mapped = t1.replace("&anc1x", "&a1").replace("*anc1x", "*a1");
                if mapped != t0 {
                    report(
                        run,
                        "C13:anchor_generator:changes-more-than-the-names",
                        || case(Some(&t1)),
                        || format!("default names: {t0:?} | custom names: {t1:?}"),
                    );
                } else if t0.contains("&a1") && t1.contains("&anc1x") {
                    lcount("anchored/names-only-differ", 1);
                    run.nontrivial(tygen::hash_case(ty, v, o) ^ fnv(which.as_bytes()));
                    run.observe("anchor_names", "a1 <-> anc1x");
                } else {
                    lcount("anchored/no-anchor-emitted(C14's-subject)", 1);
                }
            }
            (Err(_), Err(_)) => lcount("anchored/both-serializer-errors", 1),
            (a, b) => {
                report(
                    run,
                    "C13:anchor_generator:changes-the-outcome",
                    || case(None),
                    || format!("default names: {:?} | custom names: {:?}", a.map_err(|s| s.detail()), b.map_err(|s| s.detail())),
                );
            }
        }
    }
}

// ---------------------------------------------------------------- special leaves

const LONG_WORD_LEN: usize = 1100;

fn special_strings() -> Vec<String> {
    vec![
        " lead\nx".into(),
        "  two lead\n next".into(),
        "tail\n\n".into(),
        "\nfirst-empty".into(),
        "x\n  more\ny\n".into(),
        "\n".into(),
        format!("{}\n{}", "long line ".repeat(12), "second"),
        format!("{}\rmore text after a carriage return\n", "word ".repeat(24)),
        "k".repeat(LONG_WORD_LEN),
        "plain but long enough to be folded when block scalars are preferred, more than eighty characters".into(),
        format!("  indented first line\n{}", "then a long second line ".repeat(5)),
    ]
}

/// Replace the Str leaves equal to `from` by `to`.
fn subst_str(ty: &Ty, v: &TVal, from: &str, to: &str) -> (Ty, TVal) {
    tygen::map_nodes(ty, v, &|t, x| match &x {
        TVal::Str(s) if s == from => (t, TVal::Str(to.to_string())),
        _ => (t, x),
    })
}

fn random_opt(rng: &mut Rng) -> Opt {
    let mut o = Opt::from_bits(rng.below(128) as u8, *rng.pick(&[1usize, 2, 2, 2, 3, 4, 4, 5, 8, 10]));
    if rng.chance(1, 3) {
        o.folded_wrap_chars = *rng.pick(&[8usize, 20, 40, 200]);
    }
    o
}

fn main() {
    let run = Run::from_args("C13");
    if let Some(rep) = run.is_replay() {
        let c = &rep["case"];
        let ty = Ty::from_json(&c["ty"]);
        let v: Option<TVal> = c["v"].as_str().and_then(|s| serde_json::from_str(s).ok());
        let (Some(ty), Some(v)) = (ty, v) else {
            eprintln!("harness error: replay file has no usable ty/v");
            std::process::exit(2);
        };
        let o = Opt::from_json(&c["opt"]);
        if c["part"].as_str() == Some("anchored-pair") {
            check_anchored(&run, &ty, &v, &o);
        } else if c["part"].as_str() == Some("unknown-length") {
            run.eval();
            if fails_nolen_only(&ty, &v, &o) {
                let min = SHRINKER_NOLEN.with(|s| s.borrow_mut().minimal(&ty, &v, &o));
                let sig = classes::signature(&min).replacen("C13:", "C13:unknown-length:", 1);
                report(&run, &sig, || case_json(&ty, &v, &o, None, "unknown-length"), || "fails only without announced lengths".into());
            }
        } else {
            check_case(&run, &ty, &v, &o, "replay");
        }
        flush_local(&run);
        run.finish(Finish::new("replay"));
    }

    let tier = run.tier;
    let max_nodes: usize = std::env::var("C13_MAX_NODES").ok().and_then(|s| s.parse().ok()).unwrap_or(tier.pick(4, 5));
    let cap: usize = std::env::var("C13_CAP").ok().and_then(|s| s.parse().ok()).unwrap_or(tier.pick(8, 8));
    let g = TyGrammar::full();
    let by_size = ty::small_tys_by_size(max_nodes, &g);
    let opts = all_opts();
    // thinner option set for the largest size class of each tier: 16 rows of the boolean cube
    // (default, all toggled, each single toggle, 7 mixed rows) x indent_step {2, 1, 4}
    let opts_reduced: Vec<Opt> = {
        let mut v: Vec<Opt> = Vec::new();
        for indent in [2usize, 1, 4] {
            for b in [0u8, 0x7f, 0x55, 0x2a, 0x33, 0x4c, 0x0f, 0x70, 0x01, 0x02, 0x04, 0x08, 0x10, 0x20, 0x40, 0x3f] {
                v.push(Opt::from_bits(b, indent));
            }
        }
        v
    };
    // ---- part A: exhaustive small trees
    let mut scope_parts = Vec::new();
    for (n, tys) in by_size.iter().enumerate() {
        if tys.is_empty() {
            continue;
        }
        let reduced = n >= 4 && n == max_nodes;
        let use_opts: &[Opt] = if reduced { &opts_reduced } else { &opts };
        run.count(&format!("exhaustive/types_with_{n}_nodes"), tys.len() as u64);
        let incomplete = std::sync::atomic::AtomicU64::new(0);
        let pairs = std::sync::atomic::AtomicU64::new(0);
        let cap = if n >= 5 { cap.min(4) } else { cap };
        par_range(tys.len(), |i| {
            let t = &tys[i];
            let (vals, complete) = ty::small_vals(t, cap);
            if !complete {
                incomplete.fetch_add(1, std::sync::atomic::Ordering::Relaxed);
            }
            pairs.fetch_add(vals.len() as u64, std::sync::atomic::Ordering::Relaxed);
            for (j, v) in vals.iter().enumerate() {
                observe_contexts(&run, t, v);
                check_pair_all_opts(&run, t, v, use_opts, "exhaustive");
                if (i * 131 + j) % 20011 == 0 {
                    let o = use_opts[(i + j) % use_opts.len()];
                    run.sample(|| json!({"ty": t.to_string(), "v": format!("{v:?}"), "opt": o.non_default(), "emitted": tygen::emit(&TSer(t, v), &o).ok()}));
                }
            }
            flush_local(&run);
        });
        let inc = incomplete.load(std::sync::atomic::Ordering::Relaxed);
        run.count(&format!("exhaustive/pairs_with_{n}_type_nodes"), pairs.load(std::sync::atomic::Ordering::Relaxed));
        run.count(&format!("exhaustive/types_with_{n}_nodes_value_list_capped"), inc);
        scope_parts.push(format!("{n} nodes: {} types x {} option vectors{}", tys.len(), use_opts.len(), if inc > 0 { format!(" ({inc} types with value list strided to {cap})") } else { String::new() }));
    }

    // ---- part B: block-scalar leaf variants and long leaves in every small position
    {
        let small: Vec<(Ty, TVal)> = ty::small_pairs(3.min(max_nodes), &g, cap);
        let with_ml: Vec<&(Ty, TVal)> =
            small.iter().filter(|(t, v)| tygen::any_node(t, v, &|_, x| matches!(x, TVal::Str(s) if s == "two\nlines"))).collect();
        let specials = special_strings();
        run.count("special_leaves/host_pairs", with_ml.len() as u64);
        let opts_b: Vec<Opt> = opts.iter().filter(|o| !o.anchor_gen && !o.tagged_enums).cloned().collect();
        par_range(with_ml.len(), |i| {
            let (t, v) = with_ml[i];
            for (k, sp) in specials.iter().enumerate() {
                // long leaves only under a thinner option set (they are expensive and C12's business as content)
                let use_opts: Vec<Opt> = if sp.len() > 400 { opts_b.iter().step_by(5).cloned().collect() } else { opts_b.clone() };
                let (t2, v2) = subst_str(t, v, "two\nlines", sp);
                check_pair_all_opts(&run, &t2, &v2, &use_opts, "special-leaves");
                if (i + k) % 997 == 0 {
                    run.sample(|| json!({"ty": t2.to_string(), "v": format!("{v2:?}").chars().take(300).collect::<String>(), "part": "special-leaves"}));
                }
            }
            flush_local(&run);
        });
    }

    // ---- part B2: unit variants whose name is longer than `folded_wrap_chars` (they become folded
    // block scalars): every small tree with a unit variant under folded_wrap_chars = 1
    {
        let small: Vec<(Ty, TVal)> = ty::small_pairs(3.min(max_nodes), &g, cap);
        let hosts: Vec<&(Ty, TVal)> = small.iter().filter(|(t, v)| tygen::any_node(t, v, &|t, x| tygen::kind(t, x) == "unit-variant")).collect();
        run.count("folded_unit_variant/host_pairs", hosts.len() as u64);
        let d = Opt::default();
        let opts_w = [Opt { folded_wrap_chars: 1, ..d }, Opt { folded_wrap_chars: 1, indent: 4, compact_list_indent: true, ..d }];
        par_range(hosts.len(), |i| {
            let (t, v) = hosts[i];
            check_pair_all_opts(&run, t, v, &opts_w, "folded-unit-variant");
            flush_local(&run);
        });
    }

    // ---- part C: anchors with default and custom names around every small value
    {
        let small: Vec<(Ty, TVal)> = ty::small_pairs(tier.pick(2, 3).min(max_nodes), &g, cap);
        run.count("anchored/host_pairs", small.len() as u64);
        let opts_c: Vec<Opt> = opts.iter().filter(|o| !o.anchor_gen).cloned().collect();
        par_range(small.len(), |i| {
            let (t, v) = &small[i];
            for o in &opts_c {
                check_anchored(&run, t, v, o);
            }
            flush_local(&run);
        });
    }

    // ---- part E: the same small trees serialized without announced lengths (serialize_seq(None) /
    // serialize_map(None), as iterator-backed and flattened values do)
    {
        let small: Vec<(Ty, TVal)> = ty::small_pairs(3.min(max_nodes), &g, cap);
        run.count("unknown_length/host_pairs", small.len() as u64);
        par_range(small.len(), |i| {
            let (t, v) = &small[i];
            for o in &opts {
                if o.anchor_gen || o.yaml_12 {
                    continue;
                }
                run.eval();
                if !o.empty_as_braces && tygen::has_empty_collection(t, v) {
                    lcount("unspecified/empty-collection-without-braces", 1);
                    continue;
                }
                let a = tygen::emit(&TSer(t, v), o);
                let b = tygen::emit(&tygen::NoLen(TSer(t, v)), o);
                match (&a, &b) {
                    (Ok(x), Ok(y)) if x == y => {
                        lcount("unknown_length/same-text", 1);
                        continue;
                    }
                    _ => {}
                }
                lcount("unknown_length/different-text", 1);
                if fails_nolen_only(t, v, o) {
                    let min = SHRINKER_NOLEN.with(|s| s.borrow_mut().minimal(t, v, o));
                    let sig = classes::signature(&min).replacen("C13:", "C13:unknown-length:", 1);
                    report(
                        &run,
                        &sig,
                        || {
                            let mut c = case_json(t, v, o, b.as_ref().ok().map(|s| s.as_str()), "unknown-length");
                            c["minimal"] = json!({"ty_text": min.ty.to_string(), "v": format!("{:?}", min.v), "opt_non_default": min.o.non_default(),
                                "emitted": tygen::emit(&tygen::NoLen(TSer(&min.ty, &min.v)), &min.o).ok()});
                            c
                        },
                        || "fails only when the lengths of sequences / maps are not announced".to_string(),
                    );
                } else if b.is_ok() && !fails(t, v, o) {
                    lcount("unknown_length/held", 1);
                    run.nontrivial(tygen::hash_case(t, v, o) ^ 0x0011_e400);
                } else {
                    lcount("unknown_length/fails-with-known-length-too", 1);
                }
            }
            flush_local(&run);
        });
    }

    // ---- part D: random trees to depth 6 with sampled options
    let n_random = std::env::var("C13_RANDOM").ok().and_then(|s| s.parse().ok()).unwrap_or(tier.pick(150_000usize, 2_000_000));
    let specials = special_strings();
    par_range(n_random, |i| {
        let mut rng = Rng::stream(run.seed, i as u64);
        let depth = rng.range(2, 6);
        let cfg = TyCfg { nullable_in_option: false, defaults: false, deny_unknown: true, bytes: false, floats: true };
        let t = ty::random_ty_with(&mut rng, depth, &cfg);
        let v = ty::random_val(&mut rng, &t);
        let (t, v) = if rng.chance(1, 6) {
            let sp = rng.pick(&specials).clone();
            let pool_hit = *rng.pick(ty::STR_POOL);
            subst_str(&t, &v, pool_hit, &sp)
        } else {
            (t, v)
        };
        if !distinct_key_scalars(&t, &v) {
            lcount("random/skipped-keys-with-equal-scalars", 1);
            return;
        }
        let o = random_opt(&mut rng);
        run.observe("random_depths", &format!("{}", t.depth()));
        if i % 64 == 0 {
            observe_contexts(&run, &t, &v);
        }
        check_case(&run, &t, &v, &o, "random");
        if i % 7919 == 0 {
            run.sample(|| json!({"ty": t.to_string(), "v": format!("{v:?}").chars().take(400).collect::<String>(), "opt": o.non_default(), "part": "random"}));
        }
        if i % 512 == 0 {
            flush_local(&run);
        }
    });
    // flush what is left in the worker-local maps: run a tiny job on every worker
    par_range(vcore::run::threads() * 4, |_| flush_local(&run));
    flush_local(&run);

    if std::env::var_os("VERIF_EXPLORE").is_some() {
        let e = EXPLORE.lock().unwrap();
        for (k, (n, ex)) in e.iter() {
            eprintln!("{n:>9}  {k}\n      {ex}");
        }
        eprintln!("distinct (signature, minimal form) pairs: {}", e.len());
    }

    let fin = Finish::new(
        "a case (type, value, option vector) is non-trivial when the value tree has >= 2 nodes and the case was judged (held); distinct by hash(type, value, options)",
    )
    .exhaustive(format!(
        "all types of the C13 shape grammar (vcore::ty::TyGrammar::full: 8 leaf types, 6 key types incl. tuple and struct keys, option/newtype/seq/map/struct/newtype-variant/struct-variant/tuple/tuple-struct/tuple-variant constructors) with <= {max_nodes} type nodes x small values (leaf pools incl. empty, multi-line, quote-needing and null-like strings, negative ints; seqs/maps of length 0..2) x option vectors [all 2^7 booleans x indent_step {{2,1,4}} = 384; the largest size class: 16 rows of the boolean cube (default, all toggled, each single toggle, 7 mixed) x 3 indent steps = 48]: {}",
        scope_parts.join("; ")
    ))
    .assume("raw saphyr-parser event stream is the ground truth for well-formedness and the number of documents")
    .assume("empty collections under empty_as_braces=false are documented as indistinguishable from null: no verdict (counted as unspecified)")
    .assume("from_multiple documents that empty (null) documents are ignored: 0 items for a null root is no verdict")
    .min_nontrivial(tier.pick(100_000, 1_000_000));
    run.finish(fin);
}

/// Excluded from the grammar: maps whose distinct keys serialize to the same scalar.
fn distinct_key_scalars(ty: &Ty, v: &TVal) -> bool {
    !tygen::any_node(ty, v, &|t, x| match (t, x) {
        (Ty::Map(k, _), TVal::Map(ps)) => {
            let mut seen = std::collections::HashSet::new();
            ps.iter().any(|(a, _)| {
                let txt = serde_saphyr::to_string(&TSer(k, a)).unwrap_or_default();
                !seen.insert(txt)
            })
        }
        _ => false,
    })
}
