//! C13 — every data-model shape round-trips as one well-formed YAML document.
//!
//! Oracle (differential on the real code, `vcore::tygen::roundtrip`): for a value `v` of a run-time
//! type `ty` and a valid serializer option vector `o`
//!   1. `to_string_with_options(&TSer(ty, v), o)` is `Ok` (no panic),
//!   2. the raw parser accepts the text and sees exactly one document,
//!   3. `from_multiple::<IgnoredAny>` yields one item,
//!   4. `SchemaSeed(ty)` over `with_deserializer_from_str` gives `v` back (floats bitwise, `Map`
//!      types compared as unordered pair sets).
//! Workload: (A) all types of the shape grammar with <= 4 (quick) / <= 5 (thorough) type nodes x
//! small values x the option cube; (B) the same small trees with block-scalar / long / CR leaves;
//! (C) the `anchor_generator` option judged on shared `RcAnchor` pairs (names only may change);
//! (E) the small trees serialized without announced lengths; (D) random trees to depth 6.
//! Failing cases are shrunk by a deterministic typed shrinker (`tygen::Shrinker`) to a locally
//! minimal case; the signature is the class of that minimal case (`classes.rs`).
//! `yaml_12` emits a `%YAML 1.2` directive without `---` (reported under its own signature); the
//! rest of such a document is still judged with the missing `---` line inserted.

mod classes;
mod families;

use serde::Serialize;
use serde_json::{Value, json};
use std::cell::RefCell;
use std::collections::{BTreeMap, HashMap};
use std::rc::Rc;
use vcore::rng::{Rng, fnv};
use vcore::run::{Finish, Run, Tier, par_range};
use vcore::ty::{self, TSer, TVal, Ty, TyCfg, TyGrammar};
use vcore::tygen::{self, Opt, Rt, Shrinker, Stage};

fn fails(ty: &Ty, v: &TVal, o: &Opt) -> bool {
    tygen::roundtrip(ty, v, o).fail.is_some()
}

/// Fails only when sequence / map lengths are not announced to the serializer.
fn fails_nolen_only(ty: &Ty, v: &TVal, o: &Opt) -> bool {
    if !o.empty_as_braces && tygen::has_empty_collection(ty, v) {
        return false;
    }
    let Ok(text) = tygen::emit(&tygen::NoLen(TSer(ty, v)), o) else { return !fails(ty, v, o) };
    let mut skipped = false;
    let t = if tygen::directive_without_doc_start(&text) { tygen::insert_doc_start(&text) } else { text };
    tygen::check_text(ty, v, &t, &mut skipped).is_some() && !fails(ty, v, o)
}

thread_local! {
    static SHRINKER_NOLEN: RefCell<Shrinker> = RefCell::new(Shrinker::new(fails_nolen_only));
    static SHRINKER: RefCell<Shrinker> = RefCell::new(Shrinker::new(fails));
    /// per-thread number of full violation reports per signature (the rest is only counted)
    static REPORTED: RefCell<HashMap<String, u64>> = RefCell::new(HashMap::new());
    static LOCAL: RefCell<BTreeMap<String, u64>> = const { RefCell::new(BTreeMap::new()) };
}

fn lcount(key: &str, n: u64) {
    LOCAL.with(|l| *l.borrow_mut().entry(key.to_string()).or_insert(0) += n);
}

fn flush_local(run: &Run) {
    LOCAL.with(|l| {
        let mut l = l.borrow_mut();
        for (k, v) in l.iter() {
            run.count(k, *v);
        }
        l.clear();
    });
}

fn case_json(ty: &Ty, v: &TVal, o: &Opt, text: Option<&str>, part: &str) -> Value {
    json!({
        "part": part,
        "ty": ty.to_json(),
        "ty_text": ty.to_string(),
        "v": serde_json::to_string(v).unwrap_or_default(),
        "opt": o.to_json(),
        "emitted": text,
    })
}

fn report(run: &Run, sig: &str, mk_case: impl FnOnce() -> Value, mk_detail: impl FnOnce() -> String) {
    let n = REPORTED.with(|r| {
        let mut r = r.borrow_mut();
        let e = r.entry(sig.to_string()).or_insert(0);
        *e += 1;
        *e
    });
    lcount(&format!("failing_cases/{sig}"), 1);
    if n <= 4 {
        run.violation(sig, mk_case(), mk_detail());
    }
}

/// Verdict for one already evaluated case.
fn judge(run: &Run, ty: &Ty, v: &TVal, o: &Opt, rt: &Rt, part: &str) {
    if let Some(u) = rt.unspecified {
        lcount(&format!("unspecified/{u}"), 1);
        return;
    }
    if rt.null_doc_skipped {
        lcount("unspecified/from_multiple-skips-null-document", 1);
    }
    if rt.directive_defect {
        report(
            run,
            "C13:yaml_12:directive-without-document-start",
            || case_json(ty, v, o, rt.text.as_deref(), part),
            || "yaml_12: the text starts with `%YAML 1.2` but no `---` follows, the raw parser rejects the document".to_string(),
        );
    }
    match &rt.fail {
        None => {
            if !rt.directive_defect {
                lcount("held", 1);
            }
            if v.node_count() >= 2 {
                // the hash set of distinct non-trivial cases is fed with a deterministic sample (by hash),
                // the exact count goes to a counter: hundreds of millions of hashes would not fit in memory
                lcount("nontrivial_held_cases", 1);
                let h = tygen::hash_case(ty, v, o);
                if h % NT_SAMPLE.load(std::sync::atomic::Ordering::Relaxed) == 0 {
                    run.nontrivial(h);
                }
            }
        }
        Some(Stage::Panic(p)) => {
            let sig = format!("C13:panic:{}", vcore::obs::panic_site(p));
            report(run, &sig, || case_json(ty, v, o, rt.text.as_deref(), part), || p.clone());
        }
        Some(stage) => {
            let min = SHRINKER.with(|s| s.borrow_mut().minimal(ty, v, o));
            let sig = classes::signature(&min);
            lcount(&format!("failure_stage/{}", stage.kind()), 1);
            report(
                run,
                &sig,
                || {
                    let mut c = case_json(ty, v, o, rt.text.as_deref(), part);
                    let mtext = tygen::emit(&TSer(&min.ty, &min.v), &min.o).ok();
                    c["minimal"] = json!({
                        "ty_text": min.ty.to_string(),
                        "v": format!("{:?}", min.v),
                        "opt_non_default": min.o.non_default(),
                        "form": tygen::form(&min.ty, &min.v),
                        "emitted": mtext,
                    });
                    c
                },
                || format!("{}: {}", stage.kind(), stage.detail()),
            );
            if std::env::var_os("VERIF_EXPLORE").is_some() {
                explore_note(&sig, &min);
            }
        }
    }
}

static NT_SAMPLE: std::sync::atomic::AtomicU64 = std::sync::atomic::AtomicU64::new(1);

static EXPLORE: std::sync::Mutex<BTreeMap<String, (u64, String)>> = std::sync::Mutex::new(BTreeMap::new());

fn explore_note(sig: &str, min: &tygen::Minimal) {
    let key = format!("{sig}  <=  {} | {}", tygen::form(&min.ty, &min.v), tygen::opt_class(&min.o));
    let mut e = EXPLORE.lock().unwrap();
    let ent = e.entry(key).or_insert_with(|| {
        let rt = tygen::roundtrip(&min.ty, &min.v, &min.o);
        (
            0,
            format!(
                "{} = {:?} [{}]\n      {:?}\n      {}",
                min.ty,
                min.v,
                min.o.non_default().join(","),
                rt.text.unwrap_or_default(),
                rt.fail.map(|s| format!("{}: {}", s.kind(), s.detail())).unwrap_or_default()
            ),
        )
    });
    ent.0 += 1;
}

fn observe_contexts(run: &Run, ty: &Ty, v: &TVal) {
    tygen::contexts(ty, v, &mut |p, pos, c| run.observe("emitter_contexts(parent/position/child)", &format!("{p}/{pos}/{c}")));
}

fn check_case(run: &Run, ty: &Ty, v: &TVal, o: &Opt, part: &str) {
    run.eval();
    let rt = tygen::roundtrip(ty, v, o);
    judge(run, ty, v, o, &rt, part);
}

/// All option vectors of the exhaustive part: 2^7 booleans x indent {2, 1, 4}.
fn all_opts() -> Vec<Opt> {
    let mut v = Vec::new();
    for indent in [2usize, 1, 4] {
        for bits in 0..128u8 {
            v.push(Opt::from_bits(bits, indent));
        }
    }
    v
}

/// One (ty, v) under a list of option vectors; the text-level steps are evaluated once per
/// distinct emitted text (the oracle's steps 2-4 are a function of (ty, v, text)).
fn check_pair_all_opts(run: &Run, ty: &Ty, v: &TVal, opts: &[Opt], part: &str) {
    let mut seen: HashMap<(u64, bool), Rc<Rt>> = HashMap::new();
    let has_empty = tygen::has_empty_collection(ty, v);
    for o in opts {
        run.eval();
        let text = match tygen::emit(&TSer(ty, v), o) {
            Ok(t) => t,
            Err(stage) => {
                let rt = Rt { text: None, directive_defect: false, unspecified: None, null_doc_skipped: false, fail: Some(stage) };
                judge(run, ty, v, o, &rt, part);
                continue;
            }
        };
        let unspec = !o.empty_as_braces && has_empty;
        let key = (fnv(text.as_bytes()), unspec);
        let rt = match seen.get(&key) {
            Some(rt) => {
                lcount("text_cache_hits", 1);
                rt.clone()
            }
            None => {
                let rt = Rc::new(tygen::roundtrip(ty, v, o));
                lcount("distinct_texts_checked", 1);
                seen.insert(key, rt.clone());
                rt
            }
        };
        judge(run, ty, v, o, &rt, part);
    }
}

// ---------------------------------------------------------------- anchored pair (custom anchor names)

struct OwnedVal(Ty, TVal);
impl Serialize for OwnedVal {
    fn serialize<S: serde::Serializer>(&self, s: S) -> Result<S::Ok, S::Error> {
        TSer(&self.0, &self.1).serialize(s)
    }
}

#[derive(Serialize)]
struct SharedPair {
    f0: serde_saphyr::RcAnchor<OwnedVal>,
    f1: serde_saphyr::RcAnchor<OwnedVal>,
}

/// The same value twice behind one `Rc` (first occurrence defines the anchor, second is an alias),
/// as two struct fields and as two sequence items. The `anchor_generator` option must change the
/// anchor *names* and nothing else: same outcome, and the same text once the names are mapped back.
/// (How anchors are laid out around each shape is C14's subject; here only the option is judged.)
fn check_anchored(run: &Run, ty: &Ty, v: &TVal, o: &Opt) {
    let rc = std::rc::Rc::new(OwnedVal(ty.clone(), v.clone()));
    let pair = SharedPair { f0: serde_saphyr::RcAnchor(rc.clone()), f1: serde_saphyr::RcAnchor(rc.clone()) };
    let seq = vec![serde_saphyr::RcAnchor(rc.clone()), serde_saphyr::RcAnchor(rc)];
    let o_def = Opt { anchor_gen: false, ..*o };
    let o_gen = Opt { anchor_gen: true, ..*o };
    for (which, a, b) in [
        ("struct", tygen::emit(&pair, &o_def), tygen::emit(&pair, &o_gen)),
        ("seq", tygen::emit(&seq, &o_def), tygen::emit(&seq, &o_gen)),
    ] {
        run.evals(2);
        let case = |t: Option<&str>| {
            let mut c = case_json(ty, v, o, t, "anchored-pair");
            c["holder"] = json!(which);
            c
        };
        match (a, b) {
            (Err(Stage::Panic(p)), _) | (_, Err(Stage::Panic(p))) => {
                report(run, &format!("C13:panic:{}", vcore::obs::panic_site(&p)), || case(None), || p.clone());
            }
            (Ok(t0), Ok(t1)) => {
                let mapped = t1.replace("&anc1x", "&a1").replace("*anc1x", "*a1");
                if mapped != t0 {
                    report(
                        run,
                        "C13:anchor_generator:changes-more-than-the-names",
                        || case(Some(&t1)),
                        || format!("default names: {t0:?} | custom names: {t1:?}"),
                    );
                } else if t0.contains("&a1") && t1.contains("&anc1x") {
                    lcount("anchored/names-only-differ", 1);
                    run.nontrivial(tygen::hash_case(ty, v, o) ^ fnv(which.as_bytes()));
                    run.observe("anchor_names", "a1 <-> anc1x");
                } else {
                    lcount("anchored/no-anchor-emitted(C14's-subject)", 1);
                }
            }
            (Err(_), Err(_)) => lcount("anchored/both-serializer-errors", 1),
            (a, b) => {
                report(
                    run,
                    "C13:anchor_generator:changes-the-outcome",
                    || case(None),
                    || format!("default names: {:?} | custom names: {:?}", a.map_err(|s| s.detail()), b.map_err(|s| s.detail())),
                );
            }
        }
    }
}

/// One shared value (`RcAnchor`, first occurrence defines the anchor, later ones are aliases) placed
/// inside the C13 shapes.
enum Holder {
    /// struct { f0: A, f1: A }
    Struct(SharedPair),
    /// [A, A]
    Seq(Vec<serde_saphyr::RcAnchor<OwnedVal>>),
    /// [[A, A], [A]]
    SeqInSeq(Vec<Vec<serde_saphyr::RcAnchor<OwnedVal>>>),
    /// {k0: A, k1: A}
    MapVals(Vec<(String, serde_saphyr::RcAnchor<OwnedVal>)>),
    /// [struct { f0: A, f1: A }]
    StructInSeq(Vec<SharedPair>),
    /// V1([A, A])
    Variant(Vec<serde_saphyr::RcAnchor<OwnedVal>>),
}

impl Serialize for Holder {
    fn serialize<S: serde::Serializer>(&self, s: S) -> Result<S::Ok, S::Error> {
        use serde::ser::SerializeMap;
        match self {
            Holder::Struct(p) => p.serialize(s),
            Holder::Seq(v) => v.serialize(s),
            Holder::SeqInSeq(v) => v.serialize(s),
            Holder::MapVals(ps) => {
                let mut m = s.serialize_map(Some(ps.len()))?;
                for (k, v) in ps {
                    m.serialize_entry(k, v)?;
                }
                m.end()
            }
            Holder::StructInSeq(v) => v.serialize(s),
            Holder::Variant(v) => s.serialize_newtype_variant("E1", 1, "V1", v),
        }
    }
}

/// Anchors inside shapes: the emitted text must be one document that reads back, into the plain
/// holder type, as the value repeated (an alias expands to the anchored value), and must really
/// define and use one anchor. Judged only when the same holder without anchors round-trips.
fn check_anchored_shapes(run: &Run, ty: &Ty, v: &TVal, o: &Opt) {
    use serde_saphyr::RcAnchor;
    let rc = std::rc::Rc::new(OwnedVal(ty.clone(), v.clone()));
    let a = || RcAnchor(rc.clone());
    let pair = || SharedPair { f0: a(), f1: a() };
    let st = Ty::strukt(7, vec![ty.clone(), ty.clone()], false);
    let sv = TVal::Struct(vec![v.clone(), v.clone()]);
    let holders: Vec<(&'static str, Holder, Ty, TVal)> = vec![
        ("struct", Holder::Struct(pair()), st.clone(), sv.clone()),
        ("seq", Holder::Seq(vec![a(), a()]), Ty::seq(ty.clone()), TVal::Seq(vec![v.clone(), v.clone()])),
        (
            "seq-in-seq",
            Holder::SeqInSeq(vec![vec![a(), a()], vec![a()]]),
            Ty::seq(Ty::seq(ty.clone())),
            TVal::Seq(vec![TVal::Seq(vec![v.clone(), v.clone()]), TVal::Seq(vec![v.clone()])]),
        ),
        (
            "map-values",
            Holder::MapVals(vec![("k0".into(), a()), ("k1".into(), a())]),
            Ty::map(Ty::Str, ty.clone()),
            TVal::Map(vec![(TVal::Str("k0".into()), v.clone()), (TVal::Str("k1".into()), v.clone())]),
        ),
        ("struct-in-seq", Holder::StructInSeq(vec![pair()]), Ty::seq(st.clone()), TVal::Seq(vec![sv.clone()])),
        (
            "newtype-variant",
            Holder::Variant(vec![a(), a()]),
            Ty::enumeration(1, 0, vec![ty::VariantTy::Unit, ty::VariantTy::Newtype(Ty::seq(ty.clone()))]),
            TVal::variant(1, TVal::Seq(vec![v.clone(), v.clone()])),
        ),
    ];
    let shared_text = match (tygen::kind(ty, v), v) {
        ("str" | "str-multiline", TVal::Str(sv)) => Some(sv.as_str()),
        ("str" | "str-multiline", TVal::Some(b)) => match &**b {
            TVal::Str(sv) => Some(sv.as_str()),
            _ => None,
        },
        _ => None,
    };
    if let Some(sv) = shared_text
        && (sv.contains('\n') || sv.chars().count() > o.folded_wrap_chars)
    {
        // a shared string written as a block scalar loses its anchor: C14's listed finding (C14:payload:block-scalar:*)
        lcount("anchored_shapes/skipped-block-scalar-payload(C14-finding)", 1);
        return;
    }
    for (which, h, rty, rv) in &holders {
        run.eval();
        let case = |t: Option<&str>| {
            let mut c = case_json(ty, v, o, t, "anchored-shapes");
            c["holder"] = json!(which);
            c
        };
        if !o.empty_as_braces && tygen::has_empty_collection(ty, v) {
            lcount("unspecified/empty-collection-without-braces", 1);
            continue;
        }
        if tygen::roundtrip(rty, rv, o).fail.is_some() {
            lcount("anchored_shapes/bare-holder-fails(reported-elsewhere)", 1);
            continue;
        }
        let text = match tygen::emit(h, o) {
            Ok(t) => t,
            Err(Stage::Panic(p)) => {
                report(run, &format!("C13:panic:{}", vcore::obs::panic_site(&p)), || case(None), || p.clone());
                continue;
            }
            Err(st) => {
                report(run, &format!("C13:anchored:{which}:serializer-error"), || case(None), || st.detail());
                continue;
            }
        };
        let t = if tygen::directive_without_doc_start(&text) { tygen::insert_doc_start(&text) } else { text.clone() };
        let mut skipped = false;
        let (def, alias) = if o.anchor_gen { ("&anc1x", "*anc1x") } else { ("&a1", "*a1") };
        match tygen::check_text(rty, rv, &t, &mut skipped) {
            Some(stg) => {
                let sig = format!("C13:anchored:{which}:{}", tygen::shape_trigger_or_kind(ty, v));
                report(run, &sig, || case(Some(&text)), || format!("{}: {}", stg.kind(), stg.detail()));
            }
            None => {
                if text.matches(def).count() != 1 || !text.contains(alias) {
                    report(run, &format!("C13:anchored:{which}:anchor-not-defined-once"), || case(Some(&text)), || format!("expected one {def} and >= 1 {alias}: {text:?}"));
                } else {
                    lcount("anchored_shapes/held", 1);
                    run.nontrivial(tygen::hash_case(rty, rv, o) ^ 0xa5c0);
                    run.observe("anchored_holders", which);
                }
            }
        }
    }
}

// ---------------------------------------------------------------- special leaves

const LONG_WORD_LEN: usize = 1100;

fn special_strings() -> Vec<String> {
    vec![
        " lead\nx".into(),
        "  two lead\n next".into(),
        "tail\n\n".into(),
        "\nfirst-empty".into(),
        "x\n  more\ny\n".into(),
        "\n".into(),
        format!("{}\n{}", "long line ".repeat(12), "second"),
        format!("{}\rmore text after a carriage return\n", "word ".repeat(24)),
        "k".repeat(LONG_WORD_LEN),
        "plain but long enough to be folded when block scalars are preferred, more than eighty characters".into(),
        format!("  indented first line\n{}", "then a long second line ".repeat(5)),
    ]
}

/// Replace the Str leaves equal to `from` by `to`.
fn subst_str(ty: &Ty, v: &TVal, from: &str, to: &str) -> (Ty, TVal) {
    tygen::map_nodes(ty, v, &|t, x| match &x {
        TVal::Str(s) if s == from => (t, TVal::Str(to.to_string())),
        _ => (t, x),
    })
}

fn random_opt(rng: &mut Rng) -> Opt {
    let mut o = Opt::from_bits(rng.below(128) as u8, *rng.pick(&[1usize, 2, 2, 3, 4, 4, 5, 8, 8, 10]));
    if rng.chance(1, 3) {
        o.folded_wrap_chars = *rng.pick(&[0usize, 1, 8, 20, 40, 200]);
    }
    o
}

fn main() {
    let run = Run::from_args("C13");
    if let Some(rep) = run.is_replay() {
        let c = &rep["case"];
        let ty = Ty::from_json(&c["ty"]);
        let v: Option<TVal> = c["v"].as_str().and_then(|s| serde_json::from_str(s).ok());
        let (Some(ty), Some(v)) = (ty, v) else {
            eprintln!("harness error: replay file has no usable ty/v");
            std::process::exit(2);
        };
        let o = Opt::from_json(&c["opt"]);
        if c["part"].as_str() == Some("anchored-shapes") {
            check_anchored_shapes(&run, &ty, &v, &o);
        } else if c["part"].as_str() == Some("anchored-pair") {
            check_anchored(&run, &ty, &v, &o);
        } else if c["part"].as_str() == Some("unknown-length") {
            run.eval();
            if fails_nolen_only(&ty, &v, &o) {
                let min = SHRINKER_NOLEN.with(|s| s.borrow_mut().minimal(&ty, &v, &o));
                let sig = classes::signature(&min).replacen("C13:", "C13:unknown-length:", 1);
                report(&run, &sig, || case_json(&ty, &v, &o, None, "unknown-length"), || "fails only without announced lengths".into());
            }
        } else {
            check_case(&run, &ty, &v, &o, "replay");
        }
        flush_local(&run);
        run.finish(Finish::new("replay"));
    }

    let tier = run.tier;
    NT_SAMPLE.store(tier.pick(4, 8), std::sync::atomic::Ordering::Relaxed);
    let max_nodes: usize = std::env::var("C13_MAX_NODES").ok().and_then(|s| s.parse().ok()).unwrap_or(tier.pick(5, 5));
    let cap: usize = std::env::var("C13_CAP").ok().and_then(|s| s.parse().ok()).unwrap_or(tier.pick(8, 8));
    let g = TyGrammar::full();
    let by_size = ty::small_tys_by_size(max_nodes, &g);
    let opts = all_opts();
    // thinner option set for the largest size class of each tier: 16 rows of the boolean cube
    // (default, all toggled, each single toggle, 7 mixed rows) x indent_step {2, 1, 4}
    let opts_reduced: Vec<Opt> = {
        let mut v: Vec<Opt> = Vec::new();
        for indent in [2usize, 1, 4] {
            for b in [0u8, 0x7f, 0x55, 0x2a, 0x33, 0x4c, 0x0f, 0x70, 0x01, 0x02, 0x04, 0x08, 0x10, 0x20, 0x40, 0x3f] {
                v.push(Opt::from_bits(b, indent));
            }
        }
        v
    };
    // ---- part A: exhaustive small trees
    let mut scope_parts = Vec::new();
    for (n, tys) in by_size.iter().enumerate() {
        if tys.is_empty() {
            continue;
        }
        // quick: the 5-node class under the 48-vector grid with 2 values per type; thorough: full grid
        let reduced = n >= 5 && tier == Tier::Quick;
        let use_opts: &[Opt] = if reduced { &opts_reduced[..16] } else { &opts };
        run.count(&format!("exhaustive/types_with_{n}_nodes"), tys.len() as u64);
        let incomplete = std::sync::atomic::AtomicU64::new(0);
        let pairs = std::sync::atomic::AtomicU64::new(0);
        let cap = if n >= 5 { tier.pick(2, 3) } else { cap };
        par_range(tys.len(), |i| {
            let t = &tys[i];
            let (vals, complete) = ty::small_vals(t, cap);
            if !complete {
                incomplete.fetch_add(1, std::sync::atomic::Ordering::Relaxed);
            }
            pairs.fetch_add(vals.len() as u64, std::sync::atomic::Ordering::Relaxed);
            for (j, v) in vals.iter().enumerate() {
                observe_contexts(&run, t, v);
                check_pair_all_opts(&run, t, v, use_opts, "exhaustive");
                if (i * 131 + j) % 20011 == 0 {
                    let o = use_opts[(i + j) % use_opts.len()];
                    run.sample(|| json!({"ty": t.to_string(), "v": format!("{v:?}"), "opt": o.non_default(), "emitted": tygen::emit(&TSer(t, v), &o).ok()}));
                }
            }
            flush_local(&run);
        });
        let inc = incomplete.load(std::sync::atomic::Ordering::Relaxed);
        run.count(&format!("exhaustive/pairs_with_{n}_type_nodes"), pairs.load(std::sync::atomic::Ordering::Relaxed));
        run.count(&format!("exhaustive/types_with_{n}_nodes_value_list_capped"), inc);
        scope_parts.push(format!("{n} nodes: {} types x {} option vectors{}", tys.len(), use_opts.len(), if inc > 0 { format!(" ({inc} types with value list strided to {cap})") } else { String::new() }));
    }

    // ---- part A2: indent steps {3, 5, 8} x 16 rows of the boolean cube on every pair of <= 4 type nodes
    // (thorough: <= 5), and the folded_wrap_chars corners {0, 1, 8, 20} x indent {2, 4} x compact {off, on}
    let opts_sweep: Vec<Opt> = {
        let mut v: Vec<Opt> = Vec::new();
        for indent in [3usize, 5, 8] {
            for b in [0u8, 0x7f, 0x55, 0x2a, 0x33, 0x4c, 0x0f, 0x70, 0x01, 0x02, 0x04, 0x08, 0x10, 0x20, 0x40, 0x3f] {
                v.push(Opt::from_bits(b, indent));
            }
        }
        for wrap in [0usize, 1, 8, 20] {
            for indent in [2usize, 4] {
                for compact in [false, true] {
                    v.push(Opt { folded_wrap_chars: wrap, indent, compact_list_indent: compact, ..Opt::default() });
                }
            }
        }
        v
    };
    {
        let upto = tier.pick(4usize, 5).min(max_nodes);
        for (n, tys) in by_size.iter().enumerate().filter(|(n, _)| *n <= upto) {
            let cap = if n >= 5 { 2 } else { cap };
            par_range(tys.len(), |i| {
                let t = &tys[i];
                let (vals, _) = ty::small_vals(t, cap);
                for v in &vals {
                    check_pair_all_opts(&run, t, v, &opts_sweep, "indent-and-wrap-sweep");
                }
                flush_local(&run);
            });
        }
        scope_parts.push(format!("sweep: all pairs with <= {upto} type nodes x [indent_step {{3,5,8}} x 16 boolean rows + folded_wrap_chars {{0,1,8,20}} x indent {{2,4}} x compact_list_indent {{off,on}}] = {} vectors", opts_sweep.len()));
    }

    // ---- part A3 (thorough): a strided sample of the 6-node types (every 16th 5-node type under each
    // unary constructor, every 8th (a,b) split under each binary constructor), 2 values, 48 vectors
    if tier == Tier::Thorough && max_nodes >= 5 {
        let mut six: Vec<Ty> = Vec::new();
        for t in by_size[5].iter().step_by(16) {
            if !t.absorbs_null() {
                six.push(Ty::opt(t.clone()));
            }
            six.push(Ty::newtype(0, t.clone()));
            six.push(Ty::seq(t.clone()));
            for k in &g.keys {
                six.push(Ty::map(k.clone(), t.clone()));
            }
            six.push(Ty::strukt(1, vec![t.clone()], false));
            six.push(Ty::enumeration(1, 0, vec![ty::VariantTy::Unit, ty::VariantTy::Newtype(t.clone())]));
            six.push(Ty::enumeration(2, 0, vec![ty::VariantTy::Unit, ty::VariantTy::Struct(ty::Fields::new(vec![t.clone()], false))]));
        }
        let mut k = 0usize;
        for a in 1..=4usize {
            let b = 5 - a;
            for t in &by_size[a] {
                for u in &by_size[b] {
                    k += 1;
                    if k % 8 != 0 {
                        continue;
                    }
                    let pair = vec![t.clone(), u.clone()];
                    six.push(Ty::Tuple(pair.clone()));
                    six.push(Ty::TupleStruct(2, pair.clone()));
                    six.push(Ty::strukt(3, pair.clone(), false));
                    six.push(Ty::enumeration(3, 0, vec![ty::VariantTy::Unit, ty::VariantTy::Tuple(pair)]));
                }
            }
        }
        run.count("exhaustive/sampled_types_with_6_nodes", six.len() as u64);
        par_range(six.len(), |i| {
            let t = &six[i];
            let (vals, _) = ty::small_vals(t, 2);
            for v in &vals {
                check_pair_all_opts(&run, t, v, &opts_reduced, "six-node-sample");
            }
            flush_local(&run);
        });
        scope_parts.push(format!("6 nodes (sample, not exhaustive): {} types x 2 values x 48 vectors", six.len()));
    }

    // ---- part F1: constructor chains (deep nesting): every chain of 17 constructors around 7 leaves
    {
        let leaves = families::chain_leaves();
        let all_cs: Vec<usize> = (0..families::N_CONSTRUCTORS).collect();
        // (constructor set, length, option grid)
        let mut plans: Vec<(Vec<usize>, usize, &[Opt])> = vec![(all_cs.clone(), 1, &opts), (all_cs.clone(), 2, &opts), (all_cs.clone(), 3, &opts)];
        if tier == Tier::Quick {
            plans.push((all_cs.clone(), 4, &opts_reduced[..16]));
        } else {
            plans.push((all_cs.clone(), 4, &opts));
            plans.push((families::CORE_CONSTRUCTORS.to_vec(), 5, &opts_reduced));
        }
        for (cs, len, grid) in &plans {
            let n = cs.len().pow(*len as u32);
            let made = std::sync::atomic::AtomicU64::new(0);
            par_range(n, |idx| {
                for (li, leaf) in leaves.iter().enumerate() {
                    let Some((t, v, label)) = families::chain(cs, *len, idx, leaf) else { continue };
                    if !tygen::keys_distinct(&t, &v) {
                        continue;
                    }
                    made.fetch_add(1, std::sync::atomic::Ordering::Relaxed);
                    if idx % 64 == 0 {
                        observe_contexts(&run, &t, &v);
                    }
                    check_pair_all_opts(&run, &t, &v, grid, "chains");
                    if (idx * 7 + li) % 50021 == 0 {
                        run.sample(|| json!({"part": "chains", "chain": label, "ty": t.to_string(), "emitted": tygen::emit(&TSer(&t, &v), &grid[idx % grid.len()]).ok()}));
                    }
                }
                if idx % 256 == 0 {
                    flush_local(&run);
                }
            });
            let m = made.load(std::sync::atomic::Ordering::Relaxed);
            run.count(&format!("chains/length_{len}_values"), m);
            scope_parts.push(format!("chains of length {len} over {} constructors x 7 leaves: {m} values x {} vectors", cs.len(), grid.len()));
        }
    }

    // ---- part F2: maps keyed by 15 composite key shapes over every small value, in 5 host positions
    {
        let cases = families::keyed_maps(2, tier.pick(4, 8));
        run.count("composite_keys/values", cases.len() as u64);
        let grid: &[Opt] = if tier == Tier::Quick { &opts_reduced } else { &opts };
        par_range(cases.len(), |i| {
            let (t, v, label) = &cases[i];
            if i % 16 == 0 {
                observe_contexts(&run, t, v);
            }
            check_pair_all_opts(&run, t, v, grid, "composite-keys");
            check_pair_all_opts(&run, t, v, &opts_sweep, "composite-keys");
            if i % 9973 == 0 {
                run.sample(|| json!({"part": "composite-keys", "case": label, "ty": t.to_string(), "emitted": tygen::emit(&TSer(t, v), &Opt::default()).ok()}));
            }
            flush_local(&run);
        });
        scope_parts.push(format!("composite keys: 15 key shapes x every value with <= 2 type nodes x 1..2 entries x 5 hosts = {} values x ({} + {}) vectors", cases.len(), grid.len(), opts_sweep.len()));
    }

    // ---- part F3: byte buffers in every position
    {
        let cases = families::bytes_cases();
        run.count("bytes/values", cases.len() as u64);
        par_range(cases.len(), |i| {
            let (t, v) = &cases[i];
            check_pair_all_opts(&run, t, v, &opts, "bytes");
            flush_local(&run);
        });
        scope_parts.push(format!("byte buffers: 5 payloads x 16 constructors x 4 outer constructors = {} values x 384 vectors", cases.len()));
    }

    // ---- part B: block-scalar leaf variants and long leaves in every small position
    {
        let small: Vec<(Ty, TVal)> = ty::small_pairs(3.min(max_nodes), &g, cap);
        let with_ml: Vec<&(Ty, TVal)> =
            small.iter().filter(|(t, v)| tygen::any_node(t, v, &|_, x| matches!(x, TVal::Str(s) if s == "two\nlines"))).collect();
        let specials = special_strings();
        run.count("special_leaves/host_pairs", with_ml.len() as u64);
        let opts_b: Vec<Opt> = opts.iter().filter(|o| !o.anchor_gen && !o.tagged_enums).cloned().collect();
        par_range(with_ml.len(), |i| {
            let (t, v) = with_ml[i];
            for (k, sp) in specials.iter().enumerate() {
                // long leaves only under a thinner option set (they are expensive and C12's business as content)
                let use_opts: Vec<Opt> = if sp.len() > 400 { opts_b.iter().step_by(5).cloned().collect() } else { opts_b.clone() };
                let (t2, v2) = subst_str(t, v, "two\nlines", sp);
                check_pair_all_opts(&run, &t2, &v2, &use_opts, "special-leaves");
                if sp.len() <= 400 {
                    check_pair_all_opts(&run, &t2, &v2, &opts_sweep, "special-leaves");
                }
                if (i + k) % 997 == 0 {
                    run.sample(|| json!({"ty": t2.to_string(), "v": format!("{v2:?}").chars().take(300).collect::<String>(), "part": "special-leaves"}));
                }
            }
            flush_local(&run);
        });
    }

    // ---- part B2: unit variants whose name is longer than `folded_wrap_chars` (they become folded
    // block scalars): every small tree with a unit variant under folded_wrap_chars = 1
    {
        let small: Vec<(Ty, TVal)> = ty::small_pairs(3.min(max_nodes), &g, cap);
        let hosts: Vec<&(Ty, TVal)> = small.iter().filter(|(t, v)| tygen::any_node(t, v, &|t, x| tygen::kind(t, x) == "unit-variant")).collect();
        run.count("folded_unit_variant/host_pairs", hosts.len() as u64);
        let d = Opt::default();
        let opts_w = [Opt { folded_wrap_chars: 1, ..d }, Opt { folded_wrap_chars: 1, indent: 4, compact_list_indent: true, ..d }];
        par_range(hosts.len(), |i| {
            let (t, v) = hosts[i];
            check_pair_all_opts(&run, t, v, &opts_w, "folded-unit-variant");
            flush_local(&run);
        });
    }

    // ---- part C: anchors with default and custom names around every small value
    {
        let small: Vec<(Ty, TVal)> = ty::small_pairs(tier.pick(2, 3).min(max_nodes), &g, cap);
        run.count("anchored/host_pairs", small.len() as u64);
        let opts_c: Vec<Opt> = opts.iter().filter(|o| !o.anchor_gen).cloned().collect();
        par_range(small.len(), |i| {
            let (t, v) = &small[i];
            for o in &opts_c {
                check_anchored(&run, t, v, o);
            }
            flush_local(&run);
        });
    }

    // ---- part C2: one shared RcAnchor value inside the shapes (6 holders), read back through the plain types
    {
        let small: Vec<(Ty, TVal)> = ty::small_pairs(3.min(max_nodes), &g, tier.pick(4, 8));
        run.count("anchored_shapes/host_pairs", small.len() as u64);
        let grid: Vec<Opt> = if tier == Tier::Quick { opts_reduced.clone() } else { opts.iter().filter(|o| !o.tagged_enums || o.indent == 2).cloned().collect() };
        par_range(small.len(), |i| {
            let (t, v) = &small[i];
            for o in &grid {
                check_anchored_shapes(&run, t, v, o);
            }
            flush_local(&run);
        });
        scope_parts.push(format!("anchors: every pair with <= 3 type nodes shared through RcAnchor in 6 holders x {} vectors", grid.len()));
    }

    // ---- part E: the same small trees serialized without announced lengths (serialize_seq(None) /
    // serialize_map(None), as iterator-backed and flattened values do)
    {
        let small: Vec<(Ty, TVal)> = ty::small_pairs(3.min(max_nodes), &g, cap);
        run.count("unknown_length/host_pairs", small.len() as u64);
        par_range(small.len(), |i| {
            let (t, v) = &small[i];
            for o in &opts {
                if o.anchor_gen || o.yaml_12 {
                    continue;
                }
                run.eval();
                if !o.empty_as_braces && tygen::has_empty_collection(t, v) {
                    lcount("unspecified/empty-collection-without-braces", 1);
                    continue;
                }
                let a = tygen::emit(&TSer(t, v), o);
                let b = tygen::emit(&tygen::NoLen(TSer(t, v)), o);
                match (&a, &b) {
                    (Ok(x), Ok(y)) if x == y => {
                        lcount("unknown_length/same-text", 1);
                        continue;
                    }
                    _ => {}
                }
                lcount("unknown_length/different-text", 1);
                if fails_nolen_only(t, v, o) {
                    let min = SHRINKER_NOLEN.with(|s| s.borrow_mut().minimal(t, v, o));
                    let sig = classes::signature(&min).replacen("C13:", "C13:unknown-length:", 1);
                    report(
                        &run,
                        &sig,
                        || {
                            let mut c = case_json(t, v, o, b.as_ref().ok().map(|s| s.as_str()), "unknown-length");
                            c["minimal"] = json!({"ty_text": min.ty.to_string(), "v": format!("{:?}", min.v), "opt_non_default": min.o.non_default(),
                                "emitted": tygen::emit(&tygen::NoLen(TSer(&min.ty, &min.v)), &min.o).ok()});
                            c
                        },
                        || "fails only when the lengths of sequences / maps are not announced".to_string(),
                    );
                } else if b.is_ok() && !fails(t, v, o) {
                    lcount("unknown_length/held", 1);
                    run.nontrivial(tygen::hash_case(t, v, o) ^ 0x0011_e400);
                } else {
                    lcount("unknown_length/fails-with-known-length-too", 1);
                }
            }
            flush_local(&run);
        });
    }

    // ---- part D: random trees to depth 6 with sampled options
    let n_random = std::env::var("C13_RANDOM").ok().and_then(|s| s.parse().ok()).unwrap_or(tier.pick(400_000usize, 6_000_000));
    let specials = special_strings();
    par_range(n_random, |i| {
        let mut rng = Rng::stream(run.seed, i as u64);
        let depth = rng.range(2, 7);
        let cfg = TyCfg { nullable_in_option: false, defaults: false, deny_unknown: true, bytes: true, floats: true };
        let t = ty::random_ty_with(&mut rng, depth, &cfg);
        let v = ty::random_val(&mut rng, &t);
        let (t, v) = if rng.chance(1, 6) {
            let sp = rng.pick(&specials).clone();
            let pool_hit = *rng.pick(ty::STR_POOL);
            subst_str(&t, &v, pool_hit, &sp)
        } else {
            (t, v)
        };
        if !distinct_key_scalars(&t, &v) {
            lcount("random/skipped-keys-with-equal-scalars", 1);
            return;
        }
        let o = random_opt(&mut rng);
        run.observe("random_depths", &format!("{}", t.depth()));
        if i % 64 == 0 {
            observe_contexts(&run, &t, &v);
        }
        check_case(&run, &t, &v, &o, "random");
        if i % 7919 == 0 {
            run.sample(|| json!({"ty": t.to_string(), "v": format!("{v:?}").chars().take(400).collect::<String>(), "opt": o.non_default(), "part": "random"}));
        }
        if i % 512 == 0 {
            flush_local(&run);
        }
    });
    // flush what is left in the worker-local maps: run a tiny job on every worker
    par_range(vcore::run::threads() * 4, |_| flush_local(&run));
    flush_local(&run);

    if std::env::var_os("VERIF_EXPLORE").is_some() {
        let e = EXPLORE.lock().unwrap();
        for (k, (n, ex)) in e.iter() {
            eprintln!("{n:>9}  {k}\n      {ex}");
        }
        eprintln!("distinct (signature, minimal form) pairs: {}", e.len());
    }

    let fin = Finish::new(
        "a case (type, value, option vector) is non-trivial when the value tree has >= 2 nodes and the case was judged (held); distinct by hash(type, value, options); distinct_nontrivial is the number of distinct hashes in a deterministic 1/4 (quick) / 1/8 (thorough) sample by hash value, the exact number of non-trivial judged cases is the counter nontrivial_held_cases",
    )
    .exhaustive(format!(
        "all types of the C13 shape grammar (vcore::ty::TyGrammar::full: 8 leaf types, 6 key types incl. tuple and struct keys, option/newtype/seq/map/struct/newtype-variant/struct-variant/tuple/tuple-struct/tuple-variant constructors) with <= {max_nodes} type nodes x small values (leaf pools incl. empty, multi-line, quote-needing and null-like strings, negative ints; seqs/maps of length 0..2) x option vectors [full grid = all 2^7 booleans x indent_step {{2,1,4}} = 384; reduced grids = 16 rows of the boolean cube (default, all toggled, each single toggle, 7 mixed) x indent steps {{2,1,4}} = 48, or the 16 rows at indent 2]: {}",
        scope_parts.join("; ")
    ))
    .assume("raw saphyr-parser event stream is the ground truth for well-formedness and the number of documents")
    .assume("empty collections under empty_as_braces=false are documented as indistinguishable from null: no verdict (counted as unspecified)")
    .assume("from_multiple documents that empty (null) documents are ignored: 0 items for a null root is no verdict")
    .min_nontrivial(tier.pick(100_000, 1_000_000));
    run.finish(fin);
}

/// Excluded from the grammar: maps whose distinct keys serialize to the same scalar.
fn distinct_key_scalars(ty: &Ty, v: &TVal) -> bool {
    !tygen::any_node(ty, v, &|t, x| match (t, x) {
        (Ty::Map(k, _), TVal::Map(ps)) => {
            let mut seen = std::collections::HashSet::new();
            ps.iter().any(|(a, _)| {
                let txt = serde_saphyr::to_string(&TSer(k, a)).unwrap_or_default();
                !seen.insert(txt)
            })
        }
        _ => false,
    })
}
