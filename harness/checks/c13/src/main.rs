fn main(){}
