//! Signature of a failing C13 case = class of its locally minimal form.
//!
//! The shrinker (`tygen::Shrinker`) has a reduction step for every feature named here (tuple
//! struct -> tuple, tuple variant -> newtype variant over a tuple, key type -> string, leaf ->
//! canonical leaf, option -> default, ...), so a feature that is still present in the minimal case
//! is one without which the case no longer fails. The signature names the first such feature in a
//! fixed order plus the option values that are still needed.

use vcore::ty::{TVal, Ty, VariantTy};
use vcore::tygen::{self, Minimal, Opt};

fn seq_like(k: &str) -> bool {
    matches!(k, "seq" | "tuple" | "tuple-struct")
}
fn map_like(k: &str) -> bool {
    matches!(k, "map" | "struct" | "newtype-variant" | "struct-variant" | "tuple-variant")
}

fn is_complex_key_ty(t: &Ty) -> bool {
    match t.peel_newtypes() {
        Ty::Option(inner) => is_complex_key_ty(inner),
        Ty::Enum(e) => e.variants.iter().any(|v| !matches!(v, VariantTy::Unit)),
        t => !t.is_scalar(),
    }
}

/// First structural trigger present in the minimal case (fixed priority).
pub fn trigger(ty: &Ty, v: &TVal) -> String {
    if tygen::any_node(ty, v, &|t, _| matches!(t, Ty::TupleStruct(..))) {
        return "tuple-struct".into();
    }
    if tygen::any_node(ty, v, &|t, x| tygen::kind(t, x) == "tuple-variant") {
        return "tuple-variant".into();
    }
    if tygen::any_node(ty, v, &|_, x| matches!(x, TVal::Str(s) if s.contains('\r'))) {
        return "string-with-carriage-return".into();
    }
    if tygen::any_node(ty, v, &|t, x| match (t, x) {
        (Ty::Map(..), TVal::Map(ps)) => ps.iter().any(|(k, _)| matches!(k, TVal::Str(s) if s.chars().count() > 1024)),
        _ => false,
    }) {
        return "key-longer-than-1024".into();
    }
    // complex keys
    let mut ck: Option<&'static str> = None;
    let mut note = |s: &'static str| {
        // priority inside the class: seq-value > seq-key > map-key
        let rank = |x: &str| match x {
            "complex-key:sequence-value" => 3,
            "complex-key:sequence-key" => 2,
            _ => 1,
        };
        if ck.map(|c| rank(c) < rank(s)).unwrap_or(true) {
            ck = Some(s);
        }
    };
    fn walk(ty: &Ty, v: &TVal, note: &mut dyn FnMut(&'static str)) {
        if let (Ty::Map(k, w), TVal::Map(ps)) = (ty.peel_newtypes(), v)
            && is_complex_key_ty(k)
        {
            for (a, b) in ps {
                let vk = tygen::kind(w, b);
                let kk = tygen::kind(k, a);
                if seq_like(vk) {
                    note("complex-key:sequence-value");
                } else if seq_like(kk) {
                    note("complex-key:sequence-key");
                } else {
                    note("complex-key:mapping-key");
                }
            }
        }
        match (ty, v) {
            (Ty::Newtype(_, t), x) => walk(t, x, note),
            (Ty::Option(t), TVal::Some(x)) => walk(t, x, note),
            _ => {
                for (_, t, x) in tygen::children(ty, v) {
                    walk(t, x, note);
                }
            }
        }
    }
    walk(ty, v, &mut note);
    if let Some(c) = ck {
        return c.into();
    }
    let mut empty = false;
    let mut nested_seq = false;
    let mut map_in_seq = false;
    let mut block = false;
    tygen::contexts(ty, v, &mut |p, pos, c| {
        if c == "seq-empty" || c == "map-empty" {
            empty = true;
        }
        if seq_like(p) && pos == "item" && seq_like(c) {
            nested_seq = true;
        }
        if seq_like(p) && pos == "item" && map_like(c) {
            map_in_seq = true;
        }
        if c == "str-multiline" {
            block = true;
        }
    });
    if empty {
        return "empty-collection".into();
    }
    if nested_seq {
        return "sequence-in-sequence".into();
    }
    if map_in_seq {
        return "mapping-in-sequence".into();
    }
    if block {
        return "block-scalar".into();
    }
    format!("other:{}", tygen::form(ty, v))
}

/// Option values still needed by the minimal case (indent step as `<2` / `>2`).
pub fn opt_part(o: &Opt) -> String {
    let c = tygen::opt_class(o);
    if c.is_empty() { "default-options".into() } else { c }
}

/// Deterministic: depends only on the minimal case.
pub fn signature(min: &Minimal) -> String {
    let t = trigger(&min.ty, &min.v);
    match t.as_str() {
        // classes defined by the shape alone (whatever options happen to be needed as well)
        "tuple-struct" | "tuple-variant" | "string-with-carriage-return" | "key-longer-than-1024" => format!("C13:{t}"),
        _ => format!("C13:{t}:{}", opt_part(&min.o)),
    }
}
