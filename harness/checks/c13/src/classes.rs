//! Signature of a failing C13 case = class of its locally minimal form.
//!
//! The shrinker (`tygen::Shrinker`) has a reduction step for every feature named here (tuple
//! struct -> tuple, tuple variant -> newtype variant over a tuple, key type -> string, leaf ->
//! canonical leaf, option -> default, ...), so a feature that is still present in the minimal case
//! is one without which the case no longer fails. The signature names the first such feature in a
//! fixed order plus the option values that are still needed.

use vcore::tygen::{self, Minimal, Opt};

/// The primary option value still needed by the minimal case: the indent step (as `<2` / `>2`)
/// if it is not the default, else the first boolean that differs from the default, else the name
/// of a numeric threshold that differs.
pub fn opt_part(o: &Opt) -> String {
    let c = tygen::opt_class(o);
    match c.split(',').next() {
        Some(first) if !first.is_empty() => first.to_string(),
        _ => "default-options".into(),
    }
}

/// Deterministic: depends only on the minimal case.
pub fn signature(min: &Minimal) -> String {
    let t = tygen::shape_trigger(&min.ty, &min.v);
    // byte buffers: a `!!binary` scalar whose payload is not UTF-8 cannot be read through
    // `deserialize_any` / `IgnoredAny` (it is delivered as a string)
    if tygen::any_node(&min.ty, &min.v, &|t, _| matches!(t, vcore::ty::Ty::Bytes)) {
        let rt = tygen::roundtrip(&min.ty, &min.v, &min.o);
        let empty_in_option = tygen::any_node(&min.ty, &min.v, &|t, x| {
            matches!((t, x), (vcore::ty::Ty::Option(i), vcore::ty::TVal::Some(b)) if matches!(i.peel_newtypes(), vcore::ty::Ty::Bytes) && matches!(&**b, vcore::ty::TVal::Bytes(p) if p.is_empty()))
        });
        if empty_in_option && matches!(rt.fail, Some(tygen::Stage::Mismatch(_))) {
            return "C13:bytes:empty-buffer-in-option-reads-back-as-none".into();
        }
        return match rt.fail {
            Some(tygen::Stage::MultiErr(m)) if m.contains("!!binary scalar is not valid UTF-8") => "C13:bytes:non-utf8-binary-scalar-unreadable-through-deserialize_any".into(),
            Some(st) => format!("C13:bytes:{}:{}", st.kind(), opt_part(&min.o)),
            None => format!("C13:bytes:{}", opt_part(&min.o)),
        };
    }
    // a unit variant written as a folded block scalar (name longer than folded_wrap_chars)
    if min.o.folded_wrap_chars != Opt::default().folded_wrap_chars
        && !matches!(t.as_str(), "tuple-struct" | "tuple-variant")
        && tygen::any_node(&min.ty, &min.v, &|t, x| tygen::kind(t, x) == "unit-variant")
    {
        return "C13:unit-variant:emitted-as-folded-block-scalar".into();
    }
    // a mapping used as a key whose only entry has an empty-string / null key is read back empty
    let single_empty_key_map_as_key = tygen::any_node(&min.ty, &min.v, &|_, x| match x {
        vcore::ty::TVal::Map(ps) => ps.iter().any(|(k, _)| {
            matches!(k, vcore::ty::TVal::Map(inner) if inner.len() == 1
                && matches!(&inner[0].0, vcore::ty::TVal::Str(s) if s.is_empty()) | matches!(&inner[0].0, vcore::ty::TVal::None | vcore::ty::TVal::Unit))
        }),
        _ => false,
    });
    if single_empty_key_map_as_key {
        return "C13:mapping-as-key:single-entry-with-empty-or-null-key-reads-back-empty".into();
    }
    // `Some(empty collection)` used as a mapping key
    let opt_empty_key = tygen::any_node(&min.ty, &min.v, &|_, x| match x {
        vcore::ty::TVal::Map(ps) => ps.iter().any(|(k, _)| match k {
            vcore::ty::TVal::Some(b) => matches!(&**b, vcore::ty::TVal::Map(m) if m.is_empty()) || matches!(&**b, vcore::ty::TVal::Seq(q) if q.is_empty()),
            _ => false,
        }),
        _ => false,
    });
    if opt_empty_key {
        return "C13:complex-key:optional-empty-collection-as-key-reads-back-as-none".into();
    }
    // an enum variant with a payload used as a mapping key
    let mut variant_key: Option<&'static str> = None;
    tygen::contexts(&min.ty, &min.v, &mut |_, pos, c| {
        if pos == "key" && matches!(c, "struct-variant" | "newtype-variant" | "tuple-variant") && variant_key.is_none() {
            variant_key = Some(c);
        }
    });
    if let Some(k) = variant_key {
        return format!("C13:complex-key:{k}-as-key:{}", opt_part(&min.o));
    }
    match t.as_str() {
        // classes defined by the shape alone (whatever options happen to be needed as well)
        "tuple-struct" | "tuple-variant" | "string-with-carriage-return" | "key-longer-than-1024" | "block-scalar-with-leading-space" => {
            format!("C13:{t}")
        }
        _ => format!("C13:{t}:{}", opt_part(&min.o)),
    }
}
