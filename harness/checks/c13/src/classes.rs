//! Signature of a failing C13 case = class of its locally minimal form.
//!
//! The shrinker (`tygen::Shrinker`) has a reduction step for every feature named here (tuple
//! struct -> tuple, tuple variant -> newtype variant over a tuple, key type -> string, leaf ->
//! canonical leaf, option -> default, ...), so a feature that is still present in the minimal case
//! is one without which the case no longer fails. The signature names the first such feature in a
//! fixed order plus the option values that are still needed.

use vcore::tygen::{self, Minimal, Opt};

/// The primary option value still needed by the minimal case: the indent step (as `<2` / `>2`)
/// if it is not the default, else the first boolean that differs from the default, else the name
/// of a numeric threshold that differs.
pub fn opt_part(o: &Opt) -> String {
    let c = tygen::opt_class(o);
    match c.split(',').next() {
        Some(first) if !first.is_empty() => first.to_string(),
        _ => "default-options".into(),
    }
}

/// Deterministic: depends only on the minimal case.
pub fn signature(min: &Minimal) -> String {
    let t = tygen::shape_trigger(&min.ty, &min.v);
    // a unit variant written as a folded block scalar (name longer than folded_wrap_chars)
    if min.o.folded_wrap_chars != Opt::default().folded_wrap_chars
        && !matches!(t.as_str(), "tuple-struct" | "tuple-variant")
        && tygen::any_node(&min.ty, &min.v, &|t, x| tygen::kind(t, x) == "unit-variant")
    {
        return "C13:unit-variant:emitted-as-folded-block-scalar".into();
    }
    match t.as_str() {
        // classes defined by the shape alone (whatever options happen to be needed as well)
        "tuple-struct" | "tuple-variant" | "string-with-carriage-return" | "key-longer-than-1024" | "block-scalar-with-leading-space" => {
            format!("C13:{t}")
        }
        _ => format!("C13:{t}:{}", opt_part(&min.o)),
    }
}
