use serde::Serialize;
use serde_saphyr::*;
use std::collections::BTreeMap;
use vcore::Val;

fn show<T: Serialize>(name: &str, v: &T, o: SerializerOptions) {
    match to_string_with_options(v, o) {
        Ok(s) => {
            let raw = vcore::reftree::parse_stream(&s);
            let rd = from_str::<Val>(&s);
            println!("== {name}\n{s:?}\n{s}-- raw: {} | val: {}", match &raw { Ok(d) => format!("{} docs", d.len()), Err(e) => format!("ERR {}", e.info) }, match &rd { Ok(v) => format!("{v}"), Err(e) => format!("ERR {e}").lines().next().unwrap().to_string() });
        }
        Err(e) => println!("== {name}\nSER ERR {e}"),
    }
}

#[derive(Serialize)]
struct TS(Vec<i32>, String);
#[derive(Serialize)]
enum E {
    T(Vec<i32>, String),
    N(Vec<Vec<i32>>),
}
#[derive(Serialize)]
struct W {
    a: FlowSeq<Vec<LitString>>,
}

fn main() {
    let d = SerializerOptions::default();
    show("yaml12", &1i32, ser_options! { yaml_12: true });
    show("yaml12 map", &BTreeMap::from([("a", 1)]), ser_options! { yaml_12: true });
    show("seqseq indent4", &vec![vec![1, 2], vec![3]], ser_options! { indent_step: 4 });
    show("seqseq indent1", &vec![vec![1, 2], vec![3]], ser_options! { indent_step: 1 });
    show("map seq compact", &BTreeMap::from([("a", vec![vec![1, 2]])]), ser_options! { compact_list_indent: true });
    show("tuple struct coll", &TS(vec![1, 2], "a\nb".into()), d);
    show("tuple struct in seq", &vec![TS(vec![1, 2], "a\nb".into())], d);
    show("tuple variant", &E::T(vec![1, 2], "a\nb".into()), d);
    show("tuple variant in map", &BTreeMap::from([("k", E::T(vec![1, 2], "a\nb".into()))]), d);
    show("seq key", &BTreeMap::from([(vec![1, 2], vec![3, 4])]), d);
    show("seq key indent4", &BTreeMap::from([(vec![1, 2], vec![3, 4])]), ser_options! { indent_step: 4 });
    show("lit in flow", &W { a: FlowSeq(vec![LitString("a\nb".into())]) }, d);
    show("nested leading-space lit", &BTreeMap::from([("k", BTreeMap::from([("j", vec![" x\ny".to_string()])]))]), d);
    show("fold multi", &FoldString("line one\nline two".into()), d);
    let long_key = "k".repeat(1025);
    show("long key", &BTreeMap::from([(long_key, 1)]), d);
    show("commented cr", &Commented(1, "x\ry: 1".to_string()), d);
    show("space lit", &SpaceAfter(LitString("x\n\n".into())), d);
    show("space auto lit", &SpaceAfter("x\n\n".to_string()), d);
    show("space auto lit in seq", &vec![SpaceAfter("x\n\n".to_string())], d);
    let long = format!("{}\r{}\n", "word ".repeat(30), "more ".repeat(5));
    show("long cr", &long, d);
    show("opt", &Some(vec![Some(1), None]), ser_options! { empty_as_braces: false });
    show("empty no braces", &BTreeMap::from([("a", Vec::<i32>::new())]), ser_options! { empty_as_braces: false });
    show("empty no braces root", &Vec::<i32>::new(), ser_options! { empty_as_braces: false });
    show("empty no braces in seq", &vec![Vec::<i32>::new(), vec![1]], ser_options! { empty_as_braces: false });
}
