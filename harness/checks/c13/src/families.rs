//! Additional exhaustive families of C13: constructor chains (deep nesting), composite keys of
//! every shape over values of every shape, byte buffers in every position.

use vcore::ty::{self, Fields, TVal, Ty, TyGrammar, VariantTy};

pub const N_CONSTRUCTORS: usize = 17;
/// The constructors used for the longest chains (the others only add transparent or mirrored layers).
pub const CORE_CONSTRUCTORS: [usize; 10] = [0, 2, 4, 6, 8, 9, 10, 11, 12, 13];

pub fn constructor_name(k: usize) -> &'static str {
    [
        "seq[x]",
        "seq[x,x]",
        "tuple(x,i)",
        "tuple(i,x)",
        "tuple-struct(x,i)",
        "tuple-struct(i,x)",
        "struct{x,i}",
        "struct{i,x}",
        "map{str:x,str:x}",
        "map{struct-key:x,..}",
        "map{x-as-key:i}",
        "newtype-variant(x)",
        "struct-variant{x,i}",
        "tuple-variant(x,i)",
        "tuple-variant(i,x)",
        "option(x)",
        "newtype(x)",
    ][k]
}

/// One layer around `(t, x)`.
pub fn wrap(k: usize, t: &Ty, x: &TVal) -> Option<(Ty, TVal)> {
    let i = || (Ty::I32, TVal::I(7));
    let (it, iv) = i();
    Some(match k {
        0 => (Ty::seq(t.clone()), TVal::Seq(vec![x.clone()])),
        1 => (Ty::seq(t.clone()), TVal::Seq(vec![x.clone(), x.clone()])),
        2 => (Ty::Tuple(vec![t.clone(), it]), TVal::Tuple(vec![x.clone(), iv])),
        3 => (Ty::Tuple(vec![it, t.clone()]), TVal::Tuple(vec![iv, x.clone()])),
        4 => (Ty::TupleStruct(2, vec![t.clone(), it]), TVal::Tuple(vec![x.clone(), iv])),
        5 => (Ty::TupleStruct(2, vec![it, t.clone()]), TVal::Tuple(vec![iv, x.clone()])),
        6 => (Ty::strukt(3, vec![t.clone(), it], false), TVal::Struct(vec![x.clone(), iv])),
        7 => (Ty::strukt(3, vec![it, t.clone()], false), TVal::Struct(vec![iv, x.clone()])),
        8 => (Ty::map(Ty::Str, t.clone()), TVal::Map(vec![(TVal::Str("k".into()), x.clone()), (TVal::Str("k2".into()), x.clone())])),
        9 => (
            Ty::map(Ty::strukt(5, vec![Ty::I32], false), t.clone()),
            TVal::Map(vec![(TVal::Struct(vec![TVal::I(1)]), x.clone()), (TVal::Struct(vec![TVal::I(2)]), x.clone())]),
        ),
        10 => (Ty::map(t.clone(), Ty::I32), TVal::Map(vec![(x.clone(), iv)])),
        11 => (Ty::enumeration(1, 0, vec![VariantTy::Unit, VariantTy::Newtype(t.clone())]), TVal::variant(1, x.clone())),
        12 => (
            Ty::enumeration(2, 0, vec![VariantTy::Unit, VariantTy::Struct(Fields::new(vec![t.clone(), it], false))]),
            TVal::variant(1, TVal::Struct(vec![x.clone(), iv])),
        ),
        13 => (Ty::enumeration(3, 0, vec![VariantTy::Unit, VariantTy::Tuple(vec![t.clone(), it])]), TVal::variant(1, TVal::Tuple(vec![x.clone(), iv]))),
        14 => (Ty::enumeration(3, 0, vec![VariantTy::Unit, VariantTy::Tuple(vec![it, t.clone()])]), TVal::variant(1, TVal::Tuple(vec![iv, x.clone()]))),
        15 => {
            if t.absorbs_null() {
                return None;
            }
            (Ty::opt(t.clone()), TVal::some(x.clone()))
        }
        16 => (Ty::newtype(0, t.clone()), x.clone()),
        _ => return None,
    })
}

pub fn chain_leaves() -> Vec<(Ty, TVal)> {
    vec![
        (Ty::I32, TVal::I(-7)),
        (Ty::Str, TVal::Str("two\nlines".into())),
        (Ty::Str, TVal::Str(String::new())),
        (Ty::seq(Ty::I32), TVal::Seq(vec![])),
        (Ty::seq(Ty::I32), TVal::Seq(vec![TVal::I(1), TVal::I(2)])),
        (Ty::map(Ty::Str, Ty::I32), TVal::Map(vec![(TVal::Str("a".into()), TVal::I(1)), (TVal::Str("b".into()), TVal::I(2))])),
        (Ty::enumeration(0, 0, vec![VariantTy::Unit, VariantTy::Unit]), TVal::variant(1, TVal::Unit)),
    ]
}

/// The `idx`-th chain of length `len` over the constructor list `cs` (outermost constructor = most
/// significant digit) around `leaf`; `None` if a layer is not representable (Option of a null-like).
pub fn chain(cs: &[usize], len: usize, idx: usize, leaf: &(Ty, TVal)) -> Option<(Ty, TVal, String)> {
    let mut digits = Vec::with_capacity(len);
    let mut r = idx;
    for _ in 0..len {
        digits.push(cs[r % cs.len()]);
        r /= cs.len();
    }
    // digits[0] is the innermost layer
    let (mut t, mut x) = leaf.clone();
    for k in &digits {
        let (t2, x2) = wrap(*k, &t, &x)?;
        t = t2;
        x = x2;
    }
    let label = digits.iter().rev().map(|k| constructor_name(*k)).collect::<Vec<_>>().join(" > ");
    Some((t, x, label))
}

/// Composite keys of every shape, each with two distinct values.
pub fn composite_keys() -> Vec<(&'static str, Ty, [TVal; 2])> {
    let i = |n: i128| TVal::I(n);
    let s = |t: &str| TVal::Str(t.to_string());
    vec![
        ("tuple(i32,str)", Ty::Tuple(vec![Ty::I32, Ty::Str]), [TVal::Tuple(vec![i(1), s("a")]), TVal::Tuple(vec![i(2), s("x: y")])]),
        ("tuple(i32)", Ty::Tuple(vec![Ty::I32]), [TVal::Tuple(vec![i(1)]), TVal::Tuple(vec![i(2)])]),
        ("tuple(str-multiline,i32)", Ty::Tuple(vec![Ty::Str, Ty::I32]), [TVal::Tuple(vec![s("two\nlines"), i(1)]), TVal::Tuple(vec![s(""), i(2)])]),
        ("seq", Ty::seq(Ty::I32), [TVal::Seq(vec![i(1), i(2)]), TVal::Seq(vec![i(3)])]),
        ("seq-empty", Ty::seq(Ty::I32), [TVal::Seq(vec![]), TVal::Seq(vec![i(3), i(4), i(5)])]),
        ("struct{1}", Ty::strukt(5, vec![Ty::I32], false), [TVal::Struct(vec![i(1)]), TVal::Struct(vec![i(2)])]),
        ("struct{2}", Ty::strukt(5, vec![Ty::I32, Ty::Str], false), [TVal::Struct(vec![i(1), s("a")]), TVal::Struct(vec![i(2), s("two\nlines")])]),
        (
            "tuple(tuple,i32)",
            Ty::Tuple(vec![Ty::Tuple(vec![Ty::I32, Ty::I32]), Ty::I32]),
            [TVal::Tuple(vec![TVal::Tuple(vec![i(1), i(2)]), i(3)]), TVal::Tuple(vec![TVal::Tuple(vec![i(4), i(5)]), i(6)])],
        ),
        ("tuple-struct", Ty::TupleStruct(2, vec![Ty::I32, Ty::I32]), [TVal::Tuple(vec![i(1), i(2)]), TVal::Tuple(vec![i(3), i(4)])]),
        ("map", Ty::map(Ty::Str, Ty::I32), [TVal::Map(vec![(s("a"), i(1))]), TVal::Map(vec![(s("a"), i(2)), (s("b"), i(3))])]),
        (
            "newtype-variant",
            Ty::enumeration(1, 0, vec![VariantTy::Unit, VariantTy::Newtype(Ty::I32)]),
            [TVal::variant(1, i(1)), TVal::variant(1, i(2))],
        ),
        (
            "struct-variant",
            Ty::enumeration(2, 0, vec![VariantTy::Unit, VariantTy::Struct(Fields::new(vec![Ty::I32], false))]),
            [TVal::variant(1, TVal::Struct(vec![i(1)])), TVal::variant(1, TVal::Struct(vec![i(2)]))],
        ),
        (
            "tuple-variant",
            Ty::enumeration(3, 0, vec![VariantTy::Unit, VariantTy::Tuple(vec![Ty::I32, Ty::I32])]),
            [TVal::variant(1, TVal::Tuple(vec![i(1), i(2)])), TVal::variant(1, TVal::Tuple(vec![i(3), i(4)]))],
        ),
        ("option(tuple)", Ty::opt(Ty::Tuple(vec![Ty::I32, Ty::I32])), [TVal::some(TVal::Tuple(vec![i(1), i(2)])), TVal::some(TVal::Tuple(vec![i(3), i(4)]))]),
        ("seq-of-seq", Ty::seq(Ty::seq(Ty::I32)), [TVal::Seq(vec![TVal::Seq(vec![i(1), i(2)]), TVal::Seq(vec![])]), TVal::Seq(vec![TVal::Seq(vec![i(3)])])]),
    ]
}

/// Maps keyed by each composite key over every small value, at the root and inside the usual hosts.
pub fn keyed_maps(value_nodes: usize, cap: usize) -> Vec<(Ty, TVal, String)> {
    let g = TyGrammar::full();
    let values = ty::small_pairs(value_nodes, &g, cap);
    let mut out = Vec::new();
    for (kname, kt, kv) in composite_keys() {
        for (vt, vv) in &values {
            let mt = Ty::map(kt.clone(), vt.clone());
            for n in 1..=2usize {
                let entries: Vec<(TVal, TVal)> = (0..n).map(|j| (kv[j].clone(), vv.clone())).collect();
                let mv = TVal::Map(entries);
                for host in 0..5usize {
                    let (t, x) = match host {
                        0 => (mt.clone(), mv.clone()),
                        1 => (Ty::seq(mt.clone()), TVal::Seq(vec![mv.clone(), mv.clone()])),
                        2 => (Ty::strukt(3, vec![Ty::I32, mt.clone(), Ty::I32], false), TVal::Struct(vec![TVal::I(7), mv.clone(), TVal::I(8)])),
                        3 => (Ty::enumeration(1, 0, vec![VariantTy::Unit, VariantTy::Newtype(mt.clone())]), TVal::variant(1, mv.clone())),
                        _ => (Ty::map(Ty::Str, mt.clone()), TVal::Map(vec![(TVal::Str("outer".into()), mv.clone()), (TVal::Str("next".into()), mv.clone())])),
                    };
                    out.push((t, x, format!("key={kname} entries={n} host={host}")));
                }
            }
        }
    }
    out
}

/// Byte buffers (serde_bytes-like) in every position.
pub fn bytes_cases() -> Vec<(Ty, TVal)> {
    let payloads: Vec<Vec<u8>> = vec![vec![], vec![104, 105], vec![1, 2, 255], vec![126, 63, 62, 160], (0u8..40).collect()];
    let mut out = Vec::new();
    for p in payloads {
        let leaf = (Ty::Bytes, TVal::Bytes(p));
        out.push(leaf.clone());
        for k in 0..N_CONSTRUCTORS {
            if k == 10 {
                continue; // a byte buffer is not usable as a key (sequence at line start)
            }
            if let Some((t, x)) = wrap(k, &leaf.0, &leaf.1) {
                out.push((t.clone(), x.clone()));
                for k2 in [0usize, 6, 8, 11] {
                    if let Some(p2) = wrap(k2, &t, &x) {
                        out.push(p2);
                    }
                }
            }
        }
    }
    out
}
