// C08: d nested anchored flow sequences around n scalars; every event is cloned into every open recording frame.
fn main() {
    let a: Vec<u64> = std::env::args().skip(1).filter_map(|s| s.parse().ok()).collect();
    let (d, n) = (a[0], a[1]);
    let mut y = String::new();
    for i in 0..d { y.push_str(&format!("&n{i} [")); }
    for i in 0..n { if i > 0 { y.push(','); } y.push('1'); }
    for _ in 0..d { y.push(']'); }
    y.push('\n');
    let r: Result<serde::de::IgnoredAny, _> = serde_saphyr::from_str(&y);
    let rss = std::fs::read_to_string("/proc/self/status").unwrap().lines().find(|l| l.starts_with("VmHWM")).unwrap().to_string();
    println!("d={d} n={n} input={} bytes ok={} {rss}", y.len(), r.is_ok());
}
