//! C08 — expansion work and memory are bounded by the budget and alias limits.
//!
//! Observers: `vcore::val::counting::Sink` (visitor callbacks = nodes delivered,
//! allocates nothing), the hook stream with the monitor's own shadow counters
//! (`vcore::budgetmodel::monitor`: replayed events since the last reset, live
//! inject frames, expansions per anchor — checked against the limits at every
//! step), the counting allocator (peak live bytes of the measuring thread during
//! the call), and `vcore::budgetmodel::model` as the reference expansion.
//!
//! Oracles
//!  * work: callbacks <= max_nodes, events pumped <= max_events on every run,
//!    failing ones included; the step-wise shadow counters never exceed
//!    max_total_replayed_events / max_replay_stack_depth /
//!    max_alias_expansions_per_anchor;
//!  * acceptance: each of the three alias limits (and max_nodes / max_events) set
//!    to the measured value ⇒ Ok, to measured−1 ⇒ Err of the matching kind
//!    (measured value = model value = trace value, otherwise inconclusive);
//!    under the default limits: Ok iff the reference expansion is within every
//!    limit, otherwise Err whose kind is one of the exceeded limits;
//!  * memory: peak <= 2 MiB + 256·input_bytes + 1024·counted_events (constants
//!    from DESIGN.md, not tuned), counted_events = the budget's own event count
//!    (report) or, for runs that fail before the report, the events the hook saw;
//!    plus the scaling law peak(2p) <= 2.6·peak(p) once above 2 MiB for the
//!    parameters in which a family is linear.
//!
//! Heavy members (estimated peak > 48 MiB) are measured in a child process
//! (`c08 child …`) under RLIMIT_AS, so an OOM kill is inconclusive, not a crash.

use serde::{Deserialize, Serialize};
use serde_json::json;
use std::collections::BTreeMap;
use std::sync::Mutex;
use vcore::budgetmodel::{self as bm, MonLimits, MonState, StreamModel};
use vcore::reftree::render_checked;
use vcore::rng::{Rng, fnv_parts};
use vcore::run::{Finish, Run, Tier, par_range};
use vcore::treegen::{self, LEAVES_BASIC};
use vcore::val::counting::{self, Sink};
use vcore::ydoc::{self, Node, RenderOpts};

#[global_allocator]
static A: vcore::obs::CountingAlloc = vcore::obs::CountingAlloc;

const MIB: u64 = 1 << 20;
/// DESIGN.md §5 C08 — fixed before measuring, never tuned.
fn memory_bound(input_bytes: u64, counted_events: u64) -> u64 {
    2 * MIB + 256 * input_bytes + 1024 * counted_events
}
const SCALING_FACTOR: f64 = 2.6;

// ------------------------------------------------------------------ attack families

#[derive(Clone, Debug, PartialEq, Eq, Serialize, Deserialize)]
struct Case {
    family: String,
    p: Vec<u64>,
    /// "" = `Options::default()`; "no-budget" = `Options::default()` with `budget: None`
    #[serde(default)]
    mode: String,
}

impl Case {
    fn new(family: &str, p: &[u64]) -> Case {
        Case { family: family.into(), p: p.to_vec(), mode: String::new() }
    }
    fn nb(family: &str, p: &[u64]) -> Case {
        Case { family: family.into(), p: p.to_vec(), mode: "no-budget".into() }
    }
    fn no_budget(&self) -> bool {
        self.mode == "no-budget"
    }
    fn product(&self) -> u64 {
        self.p.iter().fold(1u64, |a, b| a.saturating_mul((*b).max(1)))
    }
    fn id(&self) -> String {
        format!(
            "{}({}){}",
            self.family,
            self.p.iter().map(|x| x.to_string()).collect::<Vec<_>>().join(","),
            if self.mode.is_empty() { String::new() } else { format!("@{}", self.mode) }
        )
    }
    /// family name used in signatures (layout variants of one family share it)
    fn sig_family(&self) -> &str {
        match self.family.as_str() {
            "nested-anchors-flow" | "nested-anchors-block" => "nested-anchors",
            f => f,
        }
    }
    /// indices of the parameters in which input size and counted events are (at most) linear
    fn linear_params(&self) -> &'static [usize] {
        match self.family.as_str() {
            "nested-anchors-flow" => &[0, 1],
            // block nesting: the input itself is quadratic in d (indentation)
            "nested-anchors-block" => &[1],
            "inner-open" => &[0, 1, 2],
            "redefine" => &[1],
            "stream-replay-reset" => &[0],
            "alias-run" => &[0],
            "aliases-in-anchored" => &[0, 1],
            "wide-merge-distinct" | "wide-merge-same" => &[0, 1],
            "many-small-anchors" => &[0],
            // bomb(f, l) expands to f^l and chain(n) to n^2 by construction: only the absolute bound applies
            _ => &[],
        }
    }
}

fn build(c: &Case) -> String {
    let p = &c.p;
    let mut s = String::new();
    match c.family.as_str() {
        // fan-out f, l levels: a0 = f scalars, a_i = f aliases of a_{i-1}; the last level is the payload
        "bomb" => {
            let (f, l) = (p[0], p[1]);
            s.push_str("a0: &a0 [");
            for i in 0..f {
                if i > 0 {
                    s.push_str(", ");
                }
                s.push('x');
            }
            s.push_str("]\n");
            for lev in 1..l {
                s.push_str(&format!("a{lev}: &a{lev} ["));
                for i in 0..f {
                    if i > 0 {
                        s.push_str(", ");
                    }
                    s.push_str(&format!("*a{}", lev - 1));
                }
                s.push_str("]\n");
            }
        }
        // a_i = [*a_{i-1}]: every level wraps the previous one (expansion n^2 / 2, depth n)
        "chain" => {
            let n = p[0];
            s.push_str("a0: &a0 [x]\n");
            for i in 1..n {
                s.push_str(&format!("a{i}: &a{i} [*a{}]\n", i - 1));
            }
        }
        // one anchored scalar, n aliases to it
        "alias-run" => {
            let n = p[0];
            s.push_str("- &a x\n");
            for _ in 0..n {
                s.push_str("- *a\n");
            }
        }
        // base of k scalars; an anchored container holding n aliases of it; the container aliased once more
        "aliases-in-anchored" => {
            let (n, k) = (p[0], p[1]);
            s.push_str("base: &b [");
            for i in 0..k {
                if i > 0 {
                    s.push_str(", ");
                }
                s.push('1');
            }
            s.push_str("]\nbig: &big [");
            for i in 0..n {
                if i > 0 {
                    s.push_str(", ");
                }
                s.push_str("*b");
            }
            s.push_str("]\nuse: *big\n");
        }
        // d anchored flow sequences nested around n scalars
        "nested-anchors-flow" => {
            let (d, n) = (p[0], p[1]);
            for i in 0..d {
                s.push_str(&format!("&n{i} ["));
            }
            for i in 0..n {
                if i > 0 {
                    s.push(',');
                }
                s.push('1');
            }
            for _ in 0..d {
                s.push(']');
            }
            s.push('\n');
        }
        // d anchored block mappings nested (indent 1) around a flow sequence of n scalars
        "nested-anchors-block" => {
            let (d, n) = (p[0], p[1]);
            for i in 0..d {
                for _ in 0..i {
                    s.push(' ');
                }
                s.push_str(&format!("k: &n{i}\n"));
            }
            for _ in 0..d {
                s.push(' ');
            }
            s.push_str("k: [");
            for i in 0..n {
                if i > 0 {
                    s.push(',');
                }
                s.push('1');
            }
            s.push_str("]\n");
        }
        // k merge sources with m keys each, merged into one mapping
        "wide-merge-distinct" | "wide-merge-same" => {
            let (k, m) = (p[0], p[1]);
            let same = c.family == "wide-merge-same";
            for i in 0..k {
                s.push_str(&format!("s{i}: &s{i} {{"));
                for j in 0..m {
                    if j > 0 {
                        s.push_str(", ");
                    }
                    if same {
                        s.push_str(&format!("k{j}: {i}"));
                    } else {
                        s.push_str(&format!("k{i}_{j}: {i}"));
                    }
                }
                s.push_str("}\n");
            }
            s.push_str("t:\n  <<: [");
            for i in 0..k {
                if i > 0 {
                    s.push_str(", ");
                }
                s.push_str(&format!("*s{i}"));
            }
            s.push_str("]\n  own: 1\n");
        }
        // n anchored scalars, every 16th one aliased once
        "many-small-anchors" => {
            let n = p[0];
            for i in 0..n {
                s.push_str(&format!("- &m{i} v\n"));
                if i % 16 == 0 {
                    s.push_str(&format!("- *m{i}\n"));
                }
            }
        }
        // an inner anchor (k scalars) aliased m times while the outer anchor is still open; the outer one aliased r times
        "inner-open" => {
            let (k, m, r) = (p[0], p[1], p[2]);
            s.push_str("- &o [&i [");
            for i in 0..k {
                if i > 0 {
                    s.push(',');
                }
                s.push('1');
            }
            s.push(']');
            for _ in 0..m {
                s.push_str(", *i");
            }
            s.push_str(", 1]\n");
            for _ in 0..r {
                s.push_str("- *o\n");
            }
        }
        // d levels, each anchored, each holding the next level and an alias to it (aliased while the parent is
        // open); innermost level k scalars; the outermost aliased once: expansion k * 2^d
        "nested-reuse" => {
            let (d, k) = (p[0], p[1]);
            s.push_str("- ");
            for i in 0..d {
                s.push_str(&format!("&l{i} ["));
            }
            s.push_str(&format!("&l{d} ["));
            for i in 0..k {
                if i > 0 {
                    s.push(',');
                }
                s.push('1');
            }
            s.push(']');
            for i in (0..d).rev() {
                s.push_str(&format!(", *l{}]", i + 1));
            }
            s.push_str("\n- *l0\n");
        }
        // the same name re-defined r times with growing payloads (k, 2k, …), aliased after each definition
        "redefine" => {
            let (r, k) = (p[0], p[1]);
            for j in 0..r {
                s.push_str("- &a [");
                for i in 0..(k * (j + 1)) {
                    if i > 0 {
                        s.push(',');
                    }
                    s.push('1');
                }
                s.push_str("]\n- *a\n");
            }
        }
        // s documents, each `aliases-in-anchored(n, k)`: the alias limits are per document
        "stream-replay-reset" => {
            let (docs, n, k) = (p[0], p[1], p[2]);
            let one = build(&Case::new("aliases-in-anchored", &[n, k]));
            for i in 0..docs {
                if i > 0 {
                    s.push_str("---\n");
                }
                s.push_str(&one);
            }
        }
        other => panic!("unknown family {other}"),
    }
    s
}

// ------------------------------------------------------------------ measuring one run

#[derive(Clone, Debug, Default, Serialize, Deserialize)]
struct Outcome {
    ok: bool,
    /// effective error kind ("" for Ok)
    kind: String,
    budget_field: Option<String>,
    wrapped: bool,
}

fn outcome_of<T>(r: &Result<T, serde_saphyr::Error>) -> Outcome {
    match r {
        Ok(_) => Outcome { ok: true, ..Default::default() },
        Err(e) => {
            let k = bm::effective_kind(e);
            Outcome { ok: false, kind: k.kind, budget_field: k.budget_field.map(String::from), wrapped: k.wrapped }
        }
    }
}

#[derive(Clone, Debug, Default, Serialize, Deserialize)]
struct Mon {
    pumps_parser: u64,
    pumps_replay: u64,
    pumps_synth: u64,
    alias_pushes: u64,
    doc_resets: u64,
    nodes: u64,
    max_depth: u64,
    bytes_parser: u64,
    bytes_replay: u64,
    max_replayed_since_reset: u64,
    max_inject_depth: u64,
    max_rec_depth: u64,
    max_expansions_per_anchor: u64,
    distinct_states: u32,
    step_violation: Option<(String, u64, u64, u64)>,
}

impl Mon {
    fn of(m: &MonState) -> Mon {
        Mon {
            pumps_parser: m.pumps_parser,
            pumps_replay: m.pumps_replay,
            pumps_synth: m.pumps_synth,
            alias_pushes: m.alias_pushes,
            doc_resets: m.doc_resets,
            nodes: m.nodes,
            max_depth: m.max_depth,
            bytes_parser: m.bytes_parser,
            bytes_replay: m.bytes_replay,
            max_replayed_since_reset: m.max_replayed_since_reset,
            max_inject_depth: m.max_inject_depth,
            max_rec_depth: m.max_rec_depth,
            max_expansions_per_anchor: m.max_expansions_per_anchor,
            distinct_states: m.distinct_states(),
            step_violation: m.step_violation.map(|(w, a, b, c)| (w.to_string(), a, b, c)),
        }
    }
    fn pumps(&self) -> u64 {
        self.pumps_parser + self.pumps_replay + self.pumps_synth
    }
    /// events the hook saw go through the budget: pumps + aliases accepted + document markers + StreamStart
    fn events_seen(&self) -> u64 {
        self.pumps() + self.alias_pushes + self.doc_resets + 1
    }
    fn disagreement(&self, m: &StreamModel) -> Option<&'static str> {
        if self.pumps_synth != 0 {
            return Some("trace has synthesized events");
        }
        if self.pumps_parser != m.parser_pumps {
            return Some("model/trace: parser pumps differ");
        }
        if self.pumps_replay != m.replayed_total {
            return Some("model/trace: replayed events differ");
        }
        if self.alias_pushes != m.all.aliases {
            return Some("model/trace: alias pushes differ");
        }
        if self.nodes != m.all.nodes || self.max_depth != m.all.max_depth {
            return Some("model/trace: nodes or depth differ");
        }
        if self.bytes_parser != m.parser_scalar_bytes || self.bytes_replay != m.replay_scalar_bytes {
            return Some("model/trace: scalar bytes differ");
        }
        if self.max_replayed_since_reset != m.max_replayed_per_doc {
            return Some("model/trace: replayed per document differs");
        }
        if self.max_expansions_per_anchor != m.max_expansions_per_anchor {
            return Some("model/trace: expansions per anchor differ");
        }
        None
    }
}

#[derive(Clone, Debug, Default, Serialize, Deserialize)]
struct Measured {
    input_bytes: u64,
    // run 1: monitored
    out: Outcome,
    mon: Mon,
    callbacks: u64,
    report_events: Option<u64>,
    report_nodes: Option<u64>,
    panic: Option<String>,
    // run 2: memory (no sink installed)
    mem_out: Outcome,
    peak: u64,
    total_alloc: u64,
    allocs: u64,
    mem_report_events: Option<u64>,
}

fn options_default_with_report(no_budget: bool) -> (serde_saphyr::Options, std::rc::Rc<std::cell::RefCell<Option<(u64, u64)>>>) {
    let got = std::rc::Rc::new(std::cell::RefCell::new(None));
    let g2 = got.clone();
    let mut o = serde_saphyr::Options::default().with_budget_report(move |r| {
        *g2.borrow_mut() = Some((r.events as u64, r.nodes as u64));
    });
    if no_budget {
        #[allow(deprecated)]
        {
            o.budget = None;
        }
    }
    (o, got)
}

/// The call under measurement: a stream ("\n---\n" inside) goes through the multi-document entry point.
fn run_sink(text: &str, opts: serde_saphyr::Options) -> Result<(), serde_saphyr::Error> {
    if text.contains("\n---\n") {
        serde_saphyr::from_multiple_with_options::<Sink>(text, opts).map(|_| ())
    } else {
        serde_saphyr::from_str_with_options::<Sink>(text, opts).map(|_| ())
    }
}

/// Monitored run of `from_str_with_options::<Sink>` under `opts`.
fn run_monitored(
    text: &str,
    opts: serde_saphyr::Options,
    anchor_capacity: usize,
) -> (Result<Outcome, String>, Mon, u64) {
    #[allow(deprecated)]
    let lim = MonLimits::of(&opts.alias_limits);
    counting::reset();
    let (r, mon) = bm::monitor(lim, anchor_capacity, || vcore::obs::catch(|| outcome_of(&run_sink(text, opts))));
    (r, Mon::of(&mon), counting::get())
}

/// Both runs of one input under the default options. Runs on the calling thread
/// (the allocator counts per thread).
fn measure_default(text: &str, no_budget: bool) -> Measured {
    let mut m = Measured { input_bytes: text.len() as u64, ..Default::default() };
    // anchors are numbered densely by the parser; '&' count bounds the ids without parsing
    let anchor_cap = text.bytes().filter(|b| *b == b'&').count();
    let (o, got) = options_default_with_report(no_budget);
    let (r, mon, callbacks) = run_monitored(text, o, anchor_cap);
    m.mon = mon;
    m.callbacks = callbacks;
    match r {
        Ok(out) => m.out = out,
        Err(p) => {
            m.panic = Some(p);
            return m;
        }
    }
    if let Some((e, n)) = *got.borrow() {
        m.report_events = Some(e);
        m.report_nodes = Some(n);
    }
    // run 2: nothing installed, nothing allocated by the harness between reset and stats
    let (o, got) = options_default_with_report(no_budget);
    let base = vcore::obs::alloc_reset();
    let r = vcore::obs::catch(|| run_sink(text, o));
    let st = vcore::obs::alloc_stats(base);
    match &r {
        Ok(r) => m.mem_out = outcome_of(r),
        Err(p) => m.panic = Some(p.clone()),
    }
    drop(r);
    m.peak = st.peak as u64;
    m.total_alloc = st.total as u64;
    m.allocs = st.allocs as u64;
    m.mem_report_events = got.borrow().map(|(e, _)| e);
    m
}

// ------------------------------------------------------------------ verdicts for one attack case

/// Limits of `Options::default()` that the reference expansion exceeds: (kind, budget field).
fn exceeded_defaults(m: &StreamModel, no_budget: bool) -> Vec<(&'static str, Option<&'static str>)> {
    let b = serde_saphyr::Budget::default();
    let al = serde_saphyr::options::AliasLimits::default();
    let mut v = Vec::new();
    let a = &m.all;
    let mut bf = |cond: bool, f: &'static str| {
        if cond && !no_budget {
            v.push(("Budget", Some(f)));
        }
    };
    bf(a.events > b.max_events as u64, "events");
    bf(a.aliases > b.max_aliases as u64, "aliases");
    bf(a.anchors > b.max_anchors as u64, "anchors");
    bf(a.max_depth > b.max_depth as u64, "max_depth");
    bf(a.documents > b.max_documents as u64, "documents");
    bf(a.nodes > b.max_nodes as u64, "nodes");
    bf(a.total_scalar_bytes > b.max_total_scalar_bytes as u64, "total_scalar_bytes");
    bf(a.merge_keys > b.max_merge_keys as u64, "merge_keys");
    bf(
        b.enforce_alias_anchor_ratio
            && a.aliases >= b.alias_anchor_min_aliases as u64
            && a.aliases > (b.alias_anchor_ratio_multiplier as u64).saturating_mul(a.anchors),
        "ratio",
    );
    if m.max_replayed_per_doc > al.max_total_replayed_events as u64 {
        v.push(("AliasReplayLimitExceeded", None));
    }
    if m.max_expansions_per_anchor > al.max_alias_expansions_per_anchor as u64 {
        v.push(("AliasExpansionLimitExceeded", None));
    }
    if m.all.aliases > 0 && al.max_replay_stack_depth < 1 {
        v.push(("AliasReplayStackDepthExceeded", None));
    }
    v
}

struct Judged {
    peak: u64,
    counted: u64,
}

fn judge(run: &Run, c: &Case, text: &str, model: &StreamModel, ms: &Measured, via: &str) -> Option<Judged> {
    let case = || json!({"kind": "family", "family": c.family, "p": c.p, "mode": c.mode});
    let nb = c.no_budget();
    let fam = if nb { format!("{}@no-budget", c.sig_family()) } else { c.sig_family().to_string() };
    if let Some(p) = &ms.panic {
        run.violation(&format!("C08:panic:{}", vcore::obs::panic_site(p)), case(), p.clone());
        return None;
    }
    run.observe("outcome_kinds", if ms.out.ok { "Ok" } else { &ms.out.kind });
    if ms.out.wrapped {
        run.count("limit_errors_wrapped_in_AliasError", 1);
    }
    run.count("hook/pumps_parser", ms.mon.pumps_parser);
    run.count("hook/pumps_replay", ms.mon.pumps_replay);
    run.count("hook/alias_pushes", ms.mon.alias_pushes);
    run.max("hook/max_rec_depth", ms.mon.max_rec_depth);
    run.max("hook/max_inject_depth", ms.mon.max_inject_depth);
    run.max("hook/max_replayed_since_reset", ms.mon.max_replayed_since_reset);
    run.max("max_callbacks_one_run", ms.callbacks);

    let b = serde_saphyr::Budget::default();
    // ---- work bounds, every run
    if let Some((what, v, lim, step)) = &ms.mon.step_violation {
        run.violation(
            &format!("C08:step:{what}:{fam}"),
            case(),
            format!("shadow counter {what} = {v} above its limit {lim} at hook step {step}"),
        );
    }
    if !nb && ms.callbacks > b.max_nodes as u64 {
        run.violation(
            &format!("C08:work:nodes-delivered:{fam}"),
            case(),
            format!("{} visitor callbacks > max_nodes {}", ms.callbacks, b.max_nodes),
        );
    }
    if !nb && ms.mon.pumps() > b.max_events as u64 {
        run.violation(
            &format!("C08:work:events-pumped:{fam}"),
            case(),
            format!("{} events pumped > max_events {}", ms.mon.pumps(), b.max_events),
        );
    }
    // ---- acceptance under the default limits
    let exceeded = exceeded_defaults(model, nb);
    if ms.out.ok {
        if let Some(why) = ms.mon.disagreement(model) {
            run.inconclusive(why);
            return None;
        }
        if !exceeded.is_empty() {
            run.violation(
                &format!("C08:acceptance:accepted-beyond-limit:{}:{fam}", exceeded[0].1.unwrap_or(exceeded[0].0)),
                case(),
                format!("reference expansion exceeds {exceeded:?} under the default limits, yet Ok"),
            );
        } else {
            run.count("default_limits/within_and_ok", 1);
        }
    } else {
        // a failing run sees a prefix: the trace may not exceed the model
        if ms.mon.pumps_parser > model.parser_pumps || ms.mon.pumps_replay > model.replayed_total {
            run.inconclusive("model/trace: failing run pumped more than the model has");
            return None;
        }
        let is_limit_kind = matches!(
            ms.out.kind.as_str(),
            "Budget" | "AliasReplayLimitExceeded" | "AliasExpansionLimitExceeded" | "AliasReplayStackDepthExceeded"
        );
        if !is_limit_kind {
            run.inconclusive("family member rejected for a reason that is not a limit");
            run.observe("non_limit_errors", &format!("{}:{}", c.family, ms.out.kind));
            return None;
        }
        if exceeded.is_empty() {
            run.violation(
                &format!("C08:acceptance:false-rejection:{}:{fam}", ms.out.budget_field.as_deref().unwrap_or(&ms.out.kind)),
                case(),
                format!("reference expansion is within every default limit, got Err({}:{:?})", ms.out.kind, ms.out.budget_field),
            );
        } else if !exceeded.iter().any(|(k, f)| *k == ms.out.kind && f.map(String::from) == ms.out.budget_field) {
            run.violation(
                &format!("C08:acceptance:wrong-kind:{}:{fam}", ms.out.budget_field.as_deref().unwrap_or(&ms.out.kind)),
                case(),
                format!("exceeded limits {exceeded:?}, got Err({}:{:?})", ms.out.kind, ms.out.budget_field),
            );
        } else {
            run.count("default_limits/beyond_and_rejected", 1);
        }
    }
    // ---- memory
    if ms.mem_out.ok != ms.out.ok || ms.mem_out.kind != ms.out.kind {
        run.inconclusive("monitored run and memory run of the same input disagree");
        return None;
    }
    let counted = match (ms.mem_report_events, ms.report_events) {
        (Some(e), _) => e,
        (None, Some(e)) => e,
        (None, None) => ms.mon.events_seen(),
    };
    if ms.out.ok && ms.report_events.is_some() && ms.report_events != Some(model.all.events) {
        // C07's subject; here it only decides which number enters the bound
        run.inconclusive("report.events differs from the independent count");
        return None;
    }
    let bound = memory_bound(text.len() as u64, counted);
    run.max("peak_bytes_max", ms.peak);
    run.count(&format!("memory_runs/{via}"), 1);
    if ms.peak > bound {
        run.violation(
            &format!("C08:memory-bound:{fam}"),
            case(),
            format!(
                "peak {} B ({:.1} MiB) > bound {} B ({:.1} MiB) = 2 MiB + 256*{} + 1024*{}; outcome {}",
                ms.peak,
                ms.peak as f64 / MIB as f64,
                bound,
                bound as f64 / MIB as f64,
                text.len(),
                counted,
                if ms.out.ok { "Ok".to_string() } else { ms.out.kind.clone() }
            ),
        );
    } else {
        run.count("memory_bound_held", 1);
    }
    if ms.mon.pumps_replay >= 1 || c.product() >= 100 {
        run.nontrivial(fnv_parts(&[c.family.as_bytes(), c.id().as_bytes()]));
    }
    Some(Judged { peak: ms.peak, counted })
}

// ------------------------------------------------------------------ acceptance at measured / measured-1 (small inputs)

fn alias_opts(total: usize, stack: usize, per_anchor: usize, budget: serde_saphyr::Budget) -> serde_saphyr::Options {
    let mut o = serde_saphyr::Options::default();
    #[allow(deprecated)]
    {
        o.budget = Some(budget);
        o.alias_limits.max_total_replayed_events = total;
        o.alias_limits.max_replay_stack_depth = stack;
        o.alias_limits.max_alias_expansions_per_anchor = per_anchor;
        o.duplicate_keys = serde_saphyr::DuplicateKeyPolicy::LastWins;
    }
    o
}

/// Returns true when the input was verdict-capable.
fn check_tightened(run: &Run, text: &str, label: &str, loc: &mut BTreeMap<&'static str, u64>) -> bool {
    let case = |extra: serde_json::Value| json!({"kind": "text", "text": text, "limits": extra});
    let Ok(model) = bm::model(text) else {
        run.inconclusive("generator-invalid: raw parser rejects the input");
        return false;
    };
    if model.flags.unresolved_alias || model.docs.is_empty() || (model.docs.len() > 1) != text.contains("\n---\n") {
        *loc.entry("skipped/unresolvable").or_insert(0) += 1;
        return false;
    }
    if model.docs.len() > 1 {
        *loc.entry("multi_document_inputs").or_insert(0) += 1;
    }
    const U: usize = usize::MAX;
    // baseline: nothing limits
    run.eval();
    let (r, mon, callbacks) = run_monitored(text, alias_opts(U, U, U, bm::unlimited_budget()), model.max_anchor_id);
    let out = match r {
        Err(p) => {
            run.violation(&format!("C08:panic:{}", vcore::obs::panic_site(&p)), case(json!("unlimited")), p);
            return false;
        }
        Ok(o) => o,
    };
    if !out.ok {
        *loc.entry("skipped/unlimited-run-fails").or_insert(0) += 1;
        return false;
    }
    if let Some(why) = mon.disagreement(&model) {
        run.inconclusive(why);
        return false;
    }
    *loc.entry("verdict_capable_inputs").or_insert(0) += 1;
    *loc.entry("hook/pumps_replay").or_insert(0) += mon.pumps_replay;
    *loc.entry("hook/alias_pushes").or_insert(0) += mon.alias_pushes;
    if callbacks > model.all.nodes {
        run.violation(
            &format!("C08:work:callbacks-above-counted-nodes:{label}"),
            case(json!("unlimited")),
            format!("{callbacks} visitor callbacks > {} nodes of the reference expansion", model.all.nodes),
        );
    }
    let r_meas = model.max_replayed_per_doc;
    let e_meas = model.max_expansions_per_anchor;
    let d_meas = mon.max_inject_depth;
    if model.all.aliases > 0 && d_meas != 1 {
        run.inconclusive("inject depth is not 1 although aliases were expanded");
        return false;
    }
    struct Probe {
        name: &'static str,
        opts: serde_saphyr::Options,
        max_nodes: u64,
        max_events: u64,
        /// None = must be Ok; Some((kind, field)) = must fail like that
        want: Option<(&'static str, Option<&'static str>)>,
        lim: serde_json::Value,
    }
    let mut probes: Vec<Probe> = Vec::new();
    let ub = bm::unlimited_budget;
    let mut push = |name: &'static str, t: u64, s: u64, a: u64, b: serde_saphyr::Budget, want| {
        let lim = json!({"probe": name, "max_total_replayed_events": t, "max_replay_stack_depth": s, "max_alias_expansions_per_anchor": a, "max_nodes": b.max_nodes, "max_events": b.max_events});
        let (mn, me) = (b.max_nodes as u64, b.max_events as u64);
        probes.push(Probe { name, opts: alias_opts(t as usize, s as usize, a as usize, b), max_nodes: mn, max_events: me, want, lim });
    };
    let um = U as u64;
    if model.all.aliases > 0 {
        push("replayed=R", r_meas, um, um, ub(), None);
        if r_meas >= 1 {
            push("replayed=R-1", r_meas - 1, um, um, ub(), Some(("AliasReplayLimitExceeded", None)));
        }
        push("per-anchor=E", um, um, e_meas, ub(), None);
        push("per-anchor=E-1", um, um, e_meas - 1, ub(), Some(("AliasExpansionLimitExceeded", None)));
        push("stack=D", um, d_meas, um, ub(), None);
        push("stack=D-1", um, d_meas - 1, um, ub(), Some(("AliasReplayStackDepthExceeded", None)));
        // all three at their measured values together
        push("all-three-at-measured", r_meas, d_meas, e_meas, ub(), None);
    }
    let mut extra: Vec<Probe> = Vec::new();
    // the alias limits are independent of the budget: the same probes with `Options::budget = None`
    if model.all.aliases > 0 {
        let mut push_nb = |name: &'static str, t: u64, s: u64, a: u64, want| {
            let lim = json!({"probe": name, "budget": null, "max_total_replayed_events": t, "max_replay_stack_depth": s, "max_alias_expansions_per_anchor": a});
            let mut o = alias_opts(t as usize, s as usize, a as usize, ub());
            #[allow(deprecated)]
            {
                o.budget = None;
            }
            extra.push(Probe { name, opts: o, max_nodes: u64::MAX, max_events: u64::MAX, want, lim });
        };
        push_nb("no-budget:replayed=R", r_meas, um, um, None);
        if r_meas >= 1 {
            push_nb("no-budget:replayed=R-1", r_meas - 1, um, um, Some(("AliasReplayLimitExceeded", None)));
        }
        push_nb("no-budget:per-anchor=E", um, um, e_meas, None);
        push_nb("no-budget:per-anchor=E-1", um, um, e_meas - 1, Some(("AliasExpansionLimitExceeded", None)));
        push_nb("no-budget:stack=D", um, d_meas, um, None);
        push_nb("no-budget:stack=D-1", um, d_meas - 1, um, Some(("AliasReplayStackDepthExceeded", None)));
    }

    {
        let n = model.all.nodes;
        let mut b = ub();
        b.max_nodes = n as usize;
        push("nodes=N", um, um, um, b, None);
        if n >= 1 {
            let mut b = ub();
            b.max_nodes = (n - 1) as usize;
            push("nodes=N-1", um, um, um, b, Some(("Budget", Some("nodes"))));
        }
        let e = model.all.events;
        let mut b = ub();
        b.max_events = e as usize;
        push("events=E", um, um, um, b, None);
        if e >= 2 {
            // E-1 breaches on the stream-end marker (C07's subject); E-2 breaches inside the document
            let mut b = ub();
            b.max_events = (e - 2) as usize;
            push("events=E-2", um, um, um, b, Some(("Budget", Some("events"))));
        }
    }
    probes.extend(extra);
    for p in probes {
        run.eval();
        let (r, mon, callbacks) = run_monitored(text, p.opts, model.max_anchor_id);
        let out = match r {
            Err(pn) => {
                run.violation(&format!("C08:panic:{}", vcore::obs::panic_site(&pn)), case(p.lim.clone()), pn);
                continue;
            }
            Ok(o) => o,
        };
        if out.wrapped {
            *loc.entry("limit_errors_wrapped_in_AliasError").or_insert(0) += 1;
        }
        if let Some((what, v, lim, step)) = &mon.step_violation {
            run.violation(
                &format!("C08:step:{what}:{label}"),
                case(p.lim.clone()),
                format!("shadow counter {what} = {v} above its limit {lim} at hook step {step} (probe {})", p.name),
            );
        }
        if callbacks > p.max_nodes {
            run.violation(
                &format!("C08:work:nodes-delivered:{label}"),
                case(p.lim.clone()),
                format!("{callbacks} visitor callbacks > max_nodes {} (probe {})", p.max_nodes, p.name),
            );
        }
        if mon.pumps() > p.max_events {
            run.violation(
                &format!("C08:work:events-pumped:{label}"),
                case(p.lim.clone()),
                format!("{} events pumped > max_events {} (probe {})", mon.pumps(), p.max_events, p.name),
            );
        }
        match (&p.want, out.ok) {
            (None, true) => *loc.entry("acceptance/at_measured_ok").or_insert(0) += 1,
            (None, false) => run.violation(
                &format!("C08:acceptance:false-rejection:{}:{label}", p.name),
                case(p.lim.clone()),
                format!("limits at the measured values, got Err({}:{:?})", out.kind, out.budget_field),
            ),
            (Some((k, f)), false) if out.kind == *k && out.budget_field.as_deref() == *f => {
                *loc.entry("acceptance/below_measured_err").or_insert(0) += 1;
                run.observe("limit_error_kinds", k);
            }
            (Some((k, _)), false) => run.violation(
                &format!("C08:acceptance:wrong-kind:{}:{label}", p.name),
                case(p.lim.clone()),
                format!("expected {k}, got Err({}:{:?})", out.kind, out.budget_field),
            ),
            (Some((k, _)), true) => run.violation(
                &format!("C08:acceptance:not-enforced:{}:{label}", p.name),
                case(p.lim.clone()),
                format!("limit one below the measured value, expected {k}, got Ok"),
            ),
        }
    }
    if mon.pumps_replay >= 1 {
        run.nontrivial(fnv_parts(&[text.as_bytes(), b"tightened"]));
    }
    true
}

// ------------------------------------------------------------------ streams through the iterator, with documents that fail at the type level

const POISON: &str = "POISON-VALUE";
thread_local! {
    static ARMED: std::cell::Cell<bool> = const { std::cell::Cell::new(true) };
}

/// `counting::Sink` that (while armed) rejects the scalar `POISON-VALUE` with a custom error — a
/// deserialization failure raised from inside whatever containers (and anchor recordings) are open.
struct PSink;
struct PSinkVisitor;
fn bump() {
    counting::CALLBACKS.with(|c| c.set(c.get() + 1));
}
impl<'de> serde::de::Visitor<'de> for PSinkVisitor {
    type Value = PSink;
    fn expecting(&self, f: &mut std::fmt::Formatter) -> std::fmt::Result {
        f.write_str("anything but the poison value")
    }
    fn visit_unit<E>(self) -> Result<PSink, E> {
        bump();
        Ok(PSink)
    }
    fn visit_bool<E>(self, _: bool) -> Result<PSink, E> {
        bump();
        Ok(PSink)
    }
    fn visit_i64<E>(self, _: i64) -> Result<PSink, E> {
        bump();
        Ok(PSink)
    }
    fn visit_u64<E>(self, _: u64) -> Result<PSink, E> {
        bump();
        Ok(PSink)
    }
    fn visit_f64<E>(self, _: f64) -> Result<PSink, E> {
        bump();
        Ok(PSink)
    }
    fn visit_str<E: serde::de::Error>(self, v: &str) -> Result<PSink, E> {
        bump();
        if v == POISON && ARMED.with(|a| a.get()) {
            return Err(E::custom(format!("{POISON} is not acceptable here")));
        }
        Ok(PSink)
    }
    fn visit_bytes<E>(self, _: &[u8]) -> Result<PSink, E> {
        bump();
        Ok(PSink)
    }
    fn visit_seq<A: serde::de::SeqAccess<'de>>(self, mut a: A) -> Result<PSink, A::Error> {
        bump();
        while a.next_element::<PSink>()?.is_some() {}
        Ok(PSink)
    }
    fn visit_map<A: serde::de::MapAccess<'de>>(self, mut a: A) -> Result<PSink, A::Error> {
        bump();
        while a.next_key::<PSink>()?.is_some() {
            a.next_value::<PSink>()?;
        }
        Ok(PSink)
    }
}
impl<'de> serde::Deserialize<'de> for PSink {
    fn deserialize<D: serde::Deserializer<'de>>(d: D) -> Result<PSink, D::Error> {
        d.deserialize_any(PSinkVisitor)
    }
}

/// Item kinds of `read_with_options::<_, PSink>`: "Ok", "Poison", or the effective error kind.
fn iter_items(text: &str, opts: serde_saphyr::Options, armed: bool, anchor_cap: usize, cap: usize) -> (Result<Vec<String>, String>, Mon) {
    #[allow(deprecated)]
    let lim = MonLimits::of(&opts.alias_limits);
    let was = ARMED.with(|a| a.replace(armed));
    let (r, mon) = bm::monitor(lim, anchor_cap, || {
        vcore::obs::catch(|| {
            let mut rd = text.as_bytes();
            let mut v = Vec::new();
            for it in serde_saphyr::read_with_options::<_, PSink>(&mut rd, opts) {
                v.push(match it {
                    Ok(_) => "Ok".to_string(),
                    Err(e) => {
                        let k = bm::effective_kind(&e);
                        if !k.wrapped && (k.kind == "Message" || k.kind == "AliasError") && e.to_string().contains(POISON) {
                            "Poison".to_string()
                        } else {
                            k.kind
                        }
                    }
                });
                if v.len() >= cap {
                    break;
                }
            }
            v
        })
    });
    ARMED.with(|a| a.set(was));
    (r, Mon::of(&mon))
}

/// Per-document alias limits through the streaming iterator, also right after documents that failed at
/// the type level: each limit at the value measured on the whole stream must change nothing, one below
/// must produce that limit's error and leave every earlier item as it was.
fn check_stream_iter(run: &Run, docs: &[String], loc: &mut BTreeMap<&'static str, u64>) {
    let text = docs.join("---\n");
    let case = |extra: serde_json::Value| json!({"kind": "stream", "docs": docs, "limits": extra});
    let Ok(model) = bm::model(&text) else {
        run.inconclusive("generator-invalid: raw parser rejects the stream");
        return;
    };
    if model.docs.len() != docs.len() || model.flags.unresolved_alias || model.all.aliases == 0 {
        *loc.entry("skipped/stream-unusable").or_insert(0) += 1;
        return;
    }
    let poisoned: Vec<bool> = docs.iter().map(|d| d.contains(POISON)).collect();
    const U: usize = usize::MAX;
    let cap = docs.len() + 3;
    // guard: poison disarmed, everything is consumed, the trace must equal the model
    run.eval();
    let (r, mon0) = iter_items(&text, alias_opts(U, U, U, bm::unlimited_budget()), false, model.max_anchor_id, cap);
    match r {
        Err(p) => {
            run.violation(&format!("C08:panic:{}", vcore::obs::panic_site(&p)), case(json!("unlimited")), p);
            return;
        }
        Ok(items) => {
            if items.len() != docs.len() || items.iter().any(|k| k != "Ok") {
                *loc.entry("skipped/stream-unlimited-run-fails").or_insert(0) += 1;
                return;
            }
        }
    }
    if let Some(why) = mon0.disagreement(&model) {
        run.inconclusive(why);
        return;
    }
    // baseline with the poison armed
    run.eval();
    let (r, mon) = iter_items(&text, alias_opts(U, U, U, bm::unlimited_budget()), true, model.max_anchor_id, cap);
    let base = match r {
        Err(p) => {
            run.violation(&format!("C08:panic:{}", vcore::obs::panic_site(&p)), case(json!("unlimited")), p);
            return;
        }
        Ok(v) => v,
    };
    let want: Vec<&str> = poisoned.iter().map(|p| if *p { "Poison" } else { "Ok" }).collect();
    if base != want {
        // a document after a failing one is affected although nothing limits anything
        if let Some(i) = (0..base.len().max(want.len())).find(|&i| base.get(i).map(|s| s.as_str()) != want.get(i).copied())
            && (0..i).any(|k| poisoned[k])
            && !poisoned.get(i).copied().unwrap_or(false)
        {
            run.violation(
                "C08:stream:document-after-failed-one-affected",
                case(json!("unlimited")),
                format!("every limit off: items {base:?}, expected {want:?}"),
            );
        } else {
            run.inconclusive("poisoned document did not fail with the poison error");
        }
        return;
    }
    *loc.entry("verdict_capable_streams").or_insert(0) += 1;
    if poisoned.iter().any(|p| *p) {
        *loc.entry("streams_with_failing_documents").or_insert(0) += 1;
    }
    // measured on the armed run (a failing document replays only a prefix): between the model's values for
    // the documents that complete and for all documents
    let (r_meas, e_meas, d_meas) = (mon.max_replayed_since_reset, mon.max_expansions_per_anchor, mon.max_inject_depth);
    if r_meas > model.max_replayed_per_doc || e_meas > model.max_expansions_per_anchor || d_meas > 1 {
        run.inconclusive("model/trace: armed run replayed more than the model has");
        return;
    }
    if mon.alias_pushes == 0 {
        return;
    }
    let um = U as u64;
    let mut probes: Vec<(&'static str, [u64; 3], Option<&'static str>, bool)> = Vec::new();
    for nb in [false, true] {
        probes.push(("replayed=R", [r_meas, um, um], None, nb));
        if r_meas >= 1 {
            probes.push(("replayed=R-1", [r_meas - 1, um, um], Some("AliasReplayLimitExceeded"), nb));
        }
        probes.push(("per-anchor=E", [um, um, e_meas], None, nb));
        probes.push(("per-anchor=E-1", [um, um, e_meas - 1], Some("AliasExpansionLimitExceeded"), nb));
        probes.push(("stack=D", [um, d_meas, um], None, nb));
        probes.push(("stack=D-1", [um, d_meas - 1, um], Some("AliasReplayStackDepthExceeded"), nb));
        probes.push(("all-three-at-measured", [r_meas, d_meas, e_meas], None, nb));
    }
    for (name, l, want_kind, nb) in probes {
        run.eval();
        let mut o = alias_opts(l[0] as usize, l[1] as usize, l[2] as usize, bm::unlimited_budget());
        if nb {
            #[allow(deprecated)]
            {
                o.budget = None;
            }
        }
        let lim = json!({"probe": name, "budget": if nb { "none" } else { "unlimited" }, "max_total_replayed_events": l[0], "max_replay_stack_depth": l[1], "max_alias_expansions_per_anchor": l[2]});
        let (r, mon) = iter_items(&text, o, true, model.max_anchor_id, cap);
        let items = match r {
            Err(p) => {
                run.violation(&format!("C08:panic:{}", vcore::obs::panic_site(&p)), case(lim), p);
                continue;
            }
            Ok(v) => v,
        };
        let tag = if nb { "no-budget:" } else { "" };
        if let Some((what, v, limv, step)) = &mon.step_violation {
            run.violation(
                &format!("C08:step:{what}:stream"),
                case(lim.clone()),
                format!("shadow counter {what} = {v} above its limit {limv} at hook step {step} (probe {tag}{name})"),
            );
        }
        match want_kind {
            None => {
                if items == base {
                    *loc.entry("stream_acceptance/at_measured_same_items").or_insert(0) += 1;
                } else {
                    let after_failed = (0..items.len().max(base.len()))
                        .find(|&i| items.get(i) != base.get(i))
                        .is_some_and(|i| (0..i).any(|k| poisoned[k]));
                    run.violation(
                        &format!(
                            "C08:stream:false-rejection:{tag}{name}{}",
                            if after_failed { ":after-failed-document" } else { "" }
                        ),
                        case(lim),
                        format!("limits at the values measured on this stream: items {items:?}, without limits {base:?}"),
                    );
                }
            }
            Some(k) => {
                // the first item that is neither Ok nor the poison error must be this limit's error, and
                // everything before it unchanged
                let first = items.iter().position(|s| s != "Ok" && s != "Poison");
                match first {
                    Some(i) if items[i] == k && items[..i] == base[..i] => {
                        *loc.entry("stream_acceptance/below_measured_err").or_insert(0) += 1;
                        run.observe("stream_limit_error_kinds", k);
                    }
                    Some(i) if items[i] != k => run.violation(
                        &format!("C08:stream:wrong-kind:{tag}{name}"),
                        case(lim),
                        format!("expected {k}, items {items:?}"),
                    ),
                    Some(_) => run.violation(
                        &format!("C08:stream:earlier-items-changed:{tag}{name}"),
                        case(lim),
                        format!("items {items:?}, without limits {base:?}"),
                    ),
                    None => run.violation(
                        &format!("C08:stream:not-enforced:{tag}{name}"),
                        case(lim),
                        format!("limit one below the value measured on this stream, expected {k}, items {items:?}"),
                    ),
                }
            }
        }
    }
    if mon.pumps_replay >= 1 {
        let parts: Vec<&[u8]> = docs.iter().map(|d| d.as_bytes()).collect();
        run.nontrivial(fnv_parts(&parts) ^ 0x73_7472_6561_6d);
    }
}

// ------------------------------------------------------------------ generated documents (same generator as C02/C07)

fn random_decorated(rng: &mut Rng) -> Node {
    let mut counter = 0;
    let budget = rng.range(4, 40);
    let mut t = treegen::random_tree(rng, budget, 5, LEAVES_BASIC, &mut counter);
    let paths = treegen::node_paths(&t);
    let names = ["a", "b", "c", "d"];
    let n_anchor = rng.range(1, 6.min(paths.len()));
    for _ in 0..n_anchor {
        let p = rng.pick(&paths).clone();
        let name = *rng.pick(&names);
        let n = treegen::node_at_mut(&mut t, &p);
        if !matches!(n, Node::Alias(_)) {
            *n = n.clone().with_anchor(name);
        }
    }
    let n_alias = rng.range(1, 6);
    for _ in 0..n_alias {
        let paths = treegen::node_paths(&t);
        let p = rng.pick(&paths).clone();
        if p.is_empty() {
            continue;
        }
        let name = *rng.pick(&names);
        let mut t2 = t.clone();
        *treegen::node_at_mut(&mut t2, &p) = Node::alias(name);
        if let Some((&last, parent)) = p.split_last()
            && last % 2 == 1
            && rng.chance(1, 4)
        {
            let mut kp = parent.to_vec();
            kp.push(last - 1);
            *treegen::node_at_mut(&mut t2, &kp) = Node::plain("<<");
        }
        if ydoc::expand(&t2).is_some() {
            t = t2;
        }
    }
    t
}

// ------------------------------------------------------------------ grids

fn grid(tier: Tier) -> Vec<Case> {
    let mut v = Vec::new();
    let q = tier == Tier::Quick;
    // fan-out^levels bombs
    let fs: &[u64] = if q { &[2, 3, 6, 10] } else { &[2, 3, 4, 5, 6, 7, 8, 9, 10] };
    let ls: &[u64] = if q { &[1, 3, 5, 7, 9] } else { &[1, 2, 3, 4, 5, 6, 7, 8, 9] };
    for &f in fs {
        for &l in ls {
            v.push(Case::new("bomb", &[f, l]));
        }
    }
    for &n in if q { &[10u64, 100, 1000, 5000][..] } else { &[10u64, 100, 500, 1000, 2000, 5000, 20_000, 50_000][..] } {
        v.push(Case::new("chain", &[n]));
    }
    for &n in if q { &[50u64, 100, 1000, 2000, 50_000][..] } else { &[10u64, 50, 99, 100, 1000, 2000, 4000, 25_000, 50_000, 50_001][..] } {
        v.push(Case::new("alias-run", &[n]));
    }
    for &(n, k) in if q {
        &[(10u64, 10u64), (100, 100), (200, 100), (100, 200), (1000, 100)][..]
    } else {
        &[(10u64, 10u64), (100, 100), (200, 100), (100, 200), (400, 100), (100, 400), (1000, 100), (2000, 100), (1000, 500), (10, 20_000), (10, 40_000)][..]
    } {
        v.push(Case::new("aliases-in-anchored", &[n, k]));
    }
    // anchors nested d deep around n nodes (flow nesting is cut at ~255 by the parser, block depth by max_depth 2000)
    let ds_flow: &[u64] = if q { &[1, 4, 16, 32, 64, 125, 250] } else { &[1, 2, 4, 8, 16, 32, 64, 125, 250] };
    let ns: &[u64] = if q { &[100, 1000, 10_000, 20_000, 100_000, 200_000] } else { &[100, 1000, 10_000, 20_000, 40_000, 50_000, 100_000, 200_000] };
    for &d in ds_flow {
        for &n in ns {
            v.push(Case::new("nested-anchors-flow", &[d, n]));
        }
    }
    let ds_block: &[u64] = if q { &[4, 250, 500, 1000, 1900] } else { &[1, 4, 16, 64, 250, 500, 950, 1000, 1900] };
    for &d in ds_block {
        for &n in if q { &[100u64, 1000, 100_000, 200_000][..] } else { &[100u64, 1000, 2000, 4000, 50_000, 100_000, 200_000][..] } {
            v.push(Case::new("nested-anchors-block", &[d, n]));
        }
    }
    // inner anchor aliased while the outer one is open
    for &(k, m, r) in if q {
        &[(10u64, 10u64, 10u64), (100, 10, 10), (200, 10, 10), (100, 20, 10), (100, 10, 20), (1000, 50, 1), (1000, 100, 4)][..]
    } else {
        &[(10u64, 10u64, 10u64), (100, 10, 10), (200, 10, 10), (100, 20, 10), (100, 10, 20), (400, 10, 10), (100, 40, 10), (100, 10, 40), (1000, 50, 1), (2000, 50, 1), (1000, 100, 1), (1000, 50, 2), (1000, 100, 4), (1, 1, 50_000), (50_000, 1, 1), (1, 50_000, 1)][..]
    } {
        v.push(Case::new("inner-open", &[k, m, r]));
        v.push(Case::nb("inner-open", &[k, m, r]));
    }
    for &d in if q { &[1u64, 4, 8, 12, 16, 17, 64, 200][..] } else { &[1u64, 2, 4, 6, 8, 10, 12, 14, 15, 16, 17, 18, 19, 20, 32, 64, 128, 200][..] } {
        for &k in if q { &[1u64, 100][..] } else { &[1u64, 10, 100, 1000][..] } {
            v.push(Case::new("nested-reuse", &[d, k]));
            v.push(Case::nb("nested-reuse", &[d, k]));
        }
    }
    for &(r, k) in if q { &[(2u64, 100u64), (10, 100), (10, 200), (100, 10), (500, 2)][..] } else { &[(2u64, 100u64), (10, 100), (10, 200), (10, 400), (20, 100), (100, 10), (100, 20), (500, 2), (1000, 1)][..] } {
        v.push(Case::new("redefine", &[r, k]));
        v.push(Case::nb("redefine", &[r, k]));
    }
    // the alias limits are per document: each document replays ~590k (< 1M) resp. ~1.02M (> 1M) events
    for &(docs, n, k) in if q { &[(1u64, 2900u64, 100u64), (2, 2900, 100), (4, 2900, 100), (2, 5000, 100), (3, 100, 100)][..] } else { &[(1u64, 2900u64, 100u64), (2, 2900, 100), (3, 2900, 100), (4, 2900, 100), (8, 2900, 100), (1, 5000, 100), (2, 5000, 100), (3, 100, 100), (6, 100, 100), (50, 10, 10), (100, 10, 10)][..] } {
        v.push(Case::nb("stream-replay-reset", &[docs, n, k]));
        v.push(Case::new("stream-replay-reset", &[docs, n, k]));
    }
    // the classic families once more without a budget: only the alias limits stand between the input and the target
    for &f in if q { &[2u64, 10][..] } else { &[2u64, 3, 5, 10][..] } {
        for &l in if q { &[3u64, 6, 9][..] } else { &[2u64, 3, 4, 5, 6, 7, 8, 9][..] } {
            v.push(Case::nb("bomb", &[f, l]));
        }
    }
    for &n in if q { &[100u64, 5000][..] } else { &[10u64, 100, 500, 1000, 2000, 5000][..] } {
        v.push(Case::nb("chain", &[n]));
    }
    for &n in if q { &[1000u64, 50_000][..] } else { &[100u64, 1000, 2000, 50_000, 200_000][..] } {
        v.push(Case::nb("alias-run", &[n]));
    }
    for &(n, k) in if q { &[(100u64, 100u64), (1000, 100), (5000, 100)][..] } else { &[(100u64, 100u64), (200, 100), (1000, 100), (2000, 100), (4000, 100), (5000, 100), (10, 40_000), (10, 60_000)][..] } {
        v.push(Case::nb("aliases-in-anchored", &[n, k]));
    }
    for fam in ["wide-merge-distinct", "wide-merge-same"] {
        for &(k, m) in if q {
            &[(1u64, 100u64), (10, 100), (20, 100), (10, 200), (100, 100)][..]
        } else {
            &[(1u64, 100u64), (10, 10), (10, 100), (20, 100), (10, 200), (40, 100), (10, 400), (100, 100), (200, 100), (100, 200), (1000, 10), (10, 1000), (400, 100)][..]
        } {
            v.push(Case::new(fam, &[k, m]));
        }
    }
    for &n in if q { &[100u64, 1000, 10_000, 20_000][..] } else { &[100u64, 1000, 5000, 10_000, 20_000, 40_000, 50_000, 50_001][..] } {
        v.push(Case::new("many-small-anchors", &[n]));
    }
    v
}

/// Rough upper estimate of the peak (bytes) used only to decide where a case is measured.
fn estimated_peak(c: &Case, m: &StreamModel) -> u64 {
    let stored = m.all.events.min(2_300_000);
    let depth_factor = match c.family.as_str() {
        "nested-anchors-flow" | "nested-anchors-block" => c.p[0],
        _ => 1,
    };
    stored.saturating_mul(depth_factor).saturating_mul(400)
}

fn run_case_in_child(c: &Case) -> Result<Measured, String> {
    let exe = std::env::current_exe().map_err(|e| e.to_string())?;
    let args = vec!["child".to_string(), serde_json::to_string(c).unwrap()];
    // address space: 512 MiB measuring stack + 3.5 GiB heap at most
    let out = vcore::obs::run_child(&exe, &args, None, None, Some(4u64 << 30), Some(600), 900).map_err(|e| e.to_string())?;
    if out.timed_out {
        return Err("child timed out (watchdog)".into());
    }
    if out.signal.is_some() || out.exit_code != Some(0) {
        return Err(format!("child died: exit {:?} signal {:?} rss {} KiB", out.exit_code, out.signal, out.max_rss_kb));
    }
    let line = out.stdout.lines().rev().find(|l| l.starts_with('{')).ok_or("child printed no result")?;
    serde_json::from_str::<Measured>(line).map_err(|e| format!("child result unreadable: {e}"))
}

fn child_main(arg: &str) -> ! {
    let c: Case = match serde_json::from_str(arg) {
        Ok(c) => c,
        Err(e) => {
            eprintln!("bad child argument: {e}");
            std::process::exit(3);
        }
    };
    vcore::obs::install_quiet_panic_hook();
    let h = std::thread::Builder::new()
        .stack_size(512 << 20)
        .spawn(move || {
            let text = build(&c);
            measure_default(&text, c.no_budget())
        })
        .expect("spawn");
    match h.join() {
        Ok(m) => {
            println!("{}", serde_json::to_string(&m).unwrap());
            std::process::exit(0);
        }
        Err(_) => std::process::exit(4),
    }
}

fn main() {
    let args: Vec<String> = std::env::args().collect();
    if args.get(1).map(|s| s.as_str()) == Some("child") {
        child_main(args.get(2).map(|s| s.as_str()).unwrap_or(""));
    }
    let run = Run::from_args("C08");
    if let Some(rep) = run.is_replay() {
        let case = &rep["case"];
        match case["kind"].as_str() {
            Some("family") => {
                let c = Case {
                    family: case["family"].as_str().unwrap_or("").to_string(),
                    p: case["p"].as_array().map(|a| a.iter().filter_map(|x| x.as_u64()).collect()).unwrap_or_default(),
                    mode: case["mode"].as_str().unwrap_or("").to_string(),
                };
                let text = build(&c);
                match bm::model(&text) {
                    Ok(model) => match run_case_in_child(&c) {
                        Ok(ms) => {
                            judge(&run, &c, &text, &model, &ms, "child");
                        }
                        Err(e) => run.inconclusive(&e),
                    },
                    Err(e) => run.inconclusive(&e),
                }
            }
            Some("stream") => {
                let docs: Vec<String> =
                    case["docs"].as_array().map(|a| a.iter().filter_map(|s| s.as_str().map(String::from)).collect()).unwrap_or_default();
                let mut loc = BTreeMap::new();
                check_stream_iter(&run, &docs, &mut loc);
            }
            _ => {
                let text = case["text"].as_str().unwrap_or("").to_string();
                let mut loc = BTreeMap::new();
                check_tightened(&run, &text, "replay", &mut loc);
            }
        }
        run.finish(Finish::new("replay"));
    }
    let tier = run.tier;

    // ---- 1. attack families under the default limits: work bounds, acceptance, memory
    let cases = grid(tier);
    run.count("family_cases", cases.len() as u64);
    struct Prepared {
        c: Case,
        text: String,
        model: StreamModel,
        heavy: bool,
    }
    let prepared: Mutex<Vec<Option<Prepared>>> = Mutex::new((0..cases.len()).map(|_| None).collect());
    par_range(cases.len(), |i| {
        let c = cases[i].clone();
        let text = build(&c);
        match bm::model(&text) {
            Ok(model) => {
                let heavy = estimated_peak(&c, &model) > 48 * MIB;
                prepared.lock().unwrap()[i] = Some(Prepared { c, text, model, heavy });
            }
            Err(e) => run.inconclusive(&format!("generator-invalid: {} ({e})", cases[i].family)),
        }
    });
    let prepared: Vec<Prepared> = prepared.into_inner().unwrap().into_iter().flatten().collect();
    let results: Mutex<BTreeMap<String, (Case, Judged)>> = Mutex::new(BTreeMap::new());
    let light: Vec<&Prepared> = prepared.iter().filter(|p| !p.heavy).collect();
    let heavy: Vec<&Prepared> = prepared.iter().filter(|p| p.heavy).collect();
    run.count("family_cases_light", light.len() as u64);
    run.count("family_cases_heavy", heavy.len() as u64);
    par_range(light.len(), |i| {
        let p = light[i];
        run.evals(2);
        let ms = measure_default(&p.text, p.c.no_budget());
        if let Some(j) = judge(&run, &p.c, &p.text, &p.model, &ms, "in-process") {
            results.lock().unwrap().insert(p.c.id(), (p.c.clone(), j));
        }
        if i % 7 == 0 {
            run.sample(|| json!({"family": p.c.family, "p": p.c.p, "input_bytes": p.text.len(), "peak": ms.peak, "outcome": if ms.out.ok {"Ok".to_string()} else {ms.out.kind.clone()}, "model_events": p.model.all.events}));
        }
    });
    // heavy members: child processes, at most 4 at a time
    {
        let next = std::sync::atomic::AtomicUsize::new(0);
        std::thread::scope(|s| {
            for _ in 0..4.min(heavy.len()) {
                s.spawn(|| {
                    loop {
                        let i = next.fetch_add(1, std::sync::atomic::Ordering::Relaxed);
                        if i >= heavy.len() {
                            break;
                        }
                        let p = heavy[i];
                        run.evals(2);
                        match run_case_in_child(&p.c) {
                            Ok(ms) => {
                                if let Some(j) = judge(&run, &p.c, &p.text, &p.model, &ms, "child") {
                                    results.lock().unwrap().insert(p.c.id(), (p.c.clone(), j));
                                }
                                run.sample(|| json!({"family": p.c.family, "p": p.c.p, "input_bytes": p.text.len(), "peak": ms.peak, "outcome": if ms.out.ok {"Ok".to_string()} else {ms.out.kind.clone()}, "model_events": p.model.all.events, "via": "child"}));
                            }
                            Err(e) => {
                                run.inconclusive(&format!("child: {}", e.split(':').next().unwrap_or("failed")));
                                run.note(format!("{}: {e}", p.c.id()));
                            }
                        }
                    }
                });
            }
        });
    }
    // scaling law over the measured grid
    {
        let res = results.lock().unwrap();
        for (c, j) in res.values() {
            for &pi in c.linear_params() {
                let mut c2 = c.clone();
                c2.p[pi] *= 2;
                if let Some((_, j2)) = res.get(&c2.id()) {
                    run.count("scaling_pairs_seen", 1);
                    if j.peak > 2 * MIB {
                        run.count("scaling_pairs_checked", 1);
                        let ratio = j2.peak as f64 / j.peak as f64;
                        run.max("scaling_ratio_max_permille", (ratio * 1000.0) as u64);
                        run.max(&format!("scaling_ratio_max_permille/{}:p{pi}", c.sig_family()), (ratio * 1000.0) as u64);
                        if ratio > SCALING_FACTOR {
                            run.violation(
                                &format!("C08:memory-scaling:{}:p{pi}", c.sig_family()),
                                json!({"kind": "family", "family": c2.family, "p": c2.p, "mode": c2.mode, "half": c.p}),
                                format!("peak {} B at {} vs {} B at {}: x{ratio:.2} for a doubled parameter (limit x{SCALING_FACTOR}); counted events {} vs {}", j2.peak, c2.id(), j.peak, c.id(), j2.counted, j.counted),
                            );
                        }
                    }
                }
            }
        }
        // peak table for the evidence
        for (id, (_, j)) in res.iter() {
            if j.peak > 8 * MIB {
                run.note(format!("{id}: peak {:.1} MiB, counted events {}", j.peak as f64 / MIB as f64, j.counted));
            }
        }
    }
    run.note(format!("phase 1 (families) done at {:.1}s", run.elapsed_s()));

    // ---- 2. acceptance at measured / measured-1: small family members and generated documents
    let small: Vec<&Prepared> = prepared.iter().filter(|p| p.model.all.events <= 60_000 && !p.c.no_budget()).collect();
    run.count("tightened_family_members", small.len() as u64);
    par_range(small.len(), |i| {
        let mut loc = BTreeMap::new();
        let fam = small[i].c.sig_family().to_string();
        check_tightened(&run, &small[i].text, &fam, &mut loc);
        run.count_map(&loc);
    });
    // exhaustive nested-anchor documents (sequence-only trees, <= 3 anchors x <= 3 aliases over {a, b}): an inner
    // anchor aliased while the outer one is open, aliases inside anchored containers followed by aliases to
    // those containers, re-defined names
    let nested_nodes = tier.pick(6, 7);
    let ro0 = RenderOpts::new();
    let mut seq_bases: Vec<(Node, usize)> = Vec::new();
    for n in 2..=nested_nodes {
        seq_bases.extend(vcore::aliasgen::seq_trees(n).into_iter().map(|t| (t, 3)));
    }
    // one node more with <= 2 anchors x <= 2 aliases
    seq_bases.extend(vcore::aliasgen::seq_trees(nested_nodes + 1).into_iter().map(|t| (t, 2)));
    run.count("nested_family_base_trees", seq_bases.len() as u64);
    let nested_pool: Mutex<Vec<String>> = Mutex::new(Vec::new());
    par_range(seq_bases.len(), |i| {
        let mut loc = BTreeMap::new();
        let (base, marks) = &seq_bases[i];
        for (j, d) in vcore::aliasgen::decorate(base, *marks, *marks, &["a", "b"]).iter().enumerate() {
            for flow in [false, true] {
                let mut d = d.clone();
                d.set_flow(flow);
                let Some((text, _)) = render_checked(&d, &ro0) else {
                    run.inconclusive("generator-invalid: document not parsed as intended");
                    continue;
                };
                *loc.entry("nested_family_cases").or_insert(0) += 1;
                check_tightened(&run, &text, "nested-exhaustive", &mut loc);
                if !flow && (i * 131 + j) % 61 == 0 {
                    nested_pool.lock().unwrap().push(text);
                }
            }
        }
        run.count_map(&loc);
    });
    let mut nested_pool = nested_pool.into_inner().unwrap();
    nested_pool.sort();
    run.note(format!("phase 2a (family members, exhaustive nested-anchor documents) done at {:.1}s", run.elapsed_s()));

    // streams through the iterator: per-document resets, also after documents that fail at the type level
    let n_streams = tier.pick(500_000, 3_000_000);
    par_range(n_streams, |i| {
        let mut rng = Rng::stream(run.seed ^ 0x0073_7472, i as u64);
        let mut loc = BTreeMap::new();
        let len = rng.range(2, 5);
        let docs: Vec<String> = (0..len)
            .map(|_| {
                let mut d = if rng.chance(2, 3) && !nested_pool.is_empty() {
                    nested_pool[rng.below(nested_pool.len())].clone()
                } else {
                    let size = rng.range(5, 40);
                    let t = vcore::aliasgen::random_resolvable(&mut rng, size, 5, 6);
                    let nullish = matches!(&t, Node::Scalar { text, .. } if text == "~" || text.is_empty());
                    match render_checked(&t, &ro0) {
                        Some((s, _)) if !nullish => s,
                        _ => "- &a x1\n- *a\n".to_string(),
                    }
                };
                // every 4th document fails at the type level: one `x<i>` leaf becomes the poison
                if rng.chance(1, 4) {
                    let xs: Vec<usize> = d.match_indices('x').map(|(k, _)| k).filter(|&k| d[k + 1..].starts_with(|c: char| c.is_ascii_digit())).collect();
                    if !xs.is_empty() {
                        let k = *rng.pick(&xs);
                        let end = d[k + 1..].find(|c: char| !c.is_ascii_digit()).map(|e| k + 1 + e).unwrap_or(d.len());
                        d = format!("{}{POISON}{}", &d[..k], &d[end..]);
                    }
                }
                d
            })
            .collect();
        check_stream_iter(&run, &docs, &mut loc);
        if i % 49_999 == 0 {
            run.sample(|| json!({"stream": docs}));
        }
        run.count_map(&loc);
    });
    run.note(format!("phase 2b (streams through the iterator) done at {:.1}s", run.elapsed_s()));

    let n_random = tier.pick(1_000_000, 6_000_000);
    par_range(n_random, |i| {
        let mut rng = Rng::stream(run.seed, i as u64);
        let mut loc = BTreeMap::new();
        let t = if i % 2 == 0 {
            random_decorated(&mut rng)
        } else {
            let size = rng.range(10, 120);
            vcore::aliasgen::random_resolvable(&mut rng, size, 7, 12)
        };
        let mut t = t;
        if rng.chance(1, 3) {
            t.set_flow(true);
        }
        let ro = RenderOpts { indent: *rng.pick(&[1usize, 2, 4]), brk: "\n", compact: rng.bool() };
        match render_checked(&t, &ro) {
            Some((mut text, _)) => {
                *loc.entry("random_documents").or_insert(0) += 1;
                // every 4th case is a stream of 2..4 documents: the alias limits are per document
                if i % 4 == 3 {
                    for _ in 0..rng.range(1, 3) {
                        let t2 = if rng.bool() {
                            random_decorated(&mut rng)
                        } else {
                            let size = rng.range(6, 60);
                            vcore::aliasgen::random_resolvable(&mut rng, size, 6, 8)
                        };
                        if let Some((more, _)) = render_checked(&t2, &ro) {
                            if !text.ends_with('\n') {
                                text.push('\n');
                            }
                            text.push_str("---\n");
                            text.push_str(&more);
                        }
                    }
                }
                check_tightened(&run, &text, "generated", &mut loc);
                if i % 199_999 == 0 {
                    run.sample(|| json!({"text": text}));
                }
            }
            None => run.inconclusive("generator-invalid: document not parsed as intended"),
        }
        run.count_map(&loc);
    });
    run.note(format!("phase 2 (tightened limits) done at {:.1}s", run.elapsed_s()));

    let fin = Finish::new(
        "a case is non-trivial when the hook saw >= 1 replayed event or the product of the family parameters is >= 100; distinct by hash(family, parameters) / hash(text)",
    )
    .exhaustive(format!(
        "(1) the whole parameter grid of the tier ({} members): bomb f x l, chain n, alias-run n, aliases-in-anchored n x k, nested anchors d x n (flow d <= 250, block d <= 1900, n <= 200000), inner-open k x m x r (inner anchor aliased m times while the outer is open, outer aliased r times), nested-reuse d x k (every level aliases the next while open), redefine r x k, stream-replay-reset docs x n x k, wide merges k x m (distinct / same keys), many small anchors n — under Options::default() and (bomb, chain, alias-run, aliases-in-anchored, inner-open, nested-reuse, redefine, stream-replay-reset) also with budget: None; every default-mode member with <= 60k expanded events additionally under each alias limit (with an unlimited budget and with budget: None) and max_nodes/max_events at measured and measured-1; (2) every sequence-only tree with 2..={} nodes x <= 3 anchors x 1..=3 aliases over names {{a, b}} (resolvable), and with {} nodes x <= 2 anchors x 1..=2 aliases, x {{block, flow}}, each under the same measured / measured-1 probes",
        cases.len(),
        nested_nodes,
        nested_nodes + 1
    ))
    .assume("memory = peak live bytes of the calling thread, counting allocator, target allocates nothing (counting::Sink); bound 2 MiB + 256*input_bytes + 1024*counted_events as fixed in DESIGN.md")
    .assume("scaling law applied only to parameters in which a family's input and counted events are linear (not bomb f/l, not chain n)")
    .assume("a limit error raised during a replay arrives as AliasError{msg = rendering of the limit error}; it is accepted as that limit's error kind (counted)")
    .assume("verdicts only when the reference expansion equals the hook trace (pumps by source, replayed per document, expansions per anchor, nodes, depth, scalar bytes)")
    .assume("read_with_options streams: after a deserialization (type-level) error the following documents are specified; nothing is after a limit or syntax error")
    .min_nontrivial(if tier == Tier::Quick { 200_000 } else { 2_000_000 });
    run.finish(fin);
}
