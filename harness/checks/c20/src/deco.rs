//! Decorated values: a `(Ty, TVal)` tree plus presentation wrappers attached to node paths, with a
//! `Serialize` impl that delegates to the real wrapper types of serde-saphyr (`FlowSeq`, `FlowMap`,
//! `LitStr`/`LitString`, `FoldStr`/`FoldString`, `Commented`, `SpaceAfter`).

use serde::ser::{
    Serialize, SerializeMap, SerializeSeq, SerializeStruct, SerializeStructVariant, SerializeTuple, SerializeTupleStruct,
    SerializeTupleVariant, Serializer,
};
use serde_json::{Value, json};
use serde_saphyr::{Commented, FlowMap, FlowSeq, FoldStr, FoldString, LitStr, LitString, SpaceAfter};
use std::collections::BTreeMap;
use vcore::ty::{FIELD_NAMES, STRUCT_NAMES, TVal, Ty, VariantTy};

pub type Path = Vec<u16>;

#[derive(Clone, Debug, PartialEq, Eq)]
pub enum Wrap {
    FlowSeq,
    FlowMap,
    /// `LitStr(&str)`
    Lit,
    /// `LitString(String)`
    LitOwned,
    /// `FoldStr(&str)`
    Fold,
    /// `FoldString(String)`
    FoldOwned,
    Commented(String),
    SpaceAfter,
}

impl Wrap {
    pub fn name(&self) -> &'static str {
        match self {
            Wrap::FlowSeq => "FlowSeq",
            Wrap::FlowMap => "FlowMap",
            Wrap::Lit | Wrap::LitOwned => "Lit",
            Wrap::Fold | Wrap::FoldOwned => "Fold",
            Wrap::Commented(_) => "Commented",
            Wrap::SpaceAfter => "SpaceAfter",
        }
    }
    pub fn is_flow(&self) -> bool {
        matches!(self, Wrap::FlowSeq | Wrap::FlowMap)
    }
    pub fn is_lit(&self) -> bool {
        matches!(self, Wrap::Lit | Wrap::LitOwned)
    }
    pub fn is_fold(&self) -> bool {
        matches!(self, Wrap::Fold | Wrap::FoldOwned)
    }
    fn to_json(&self) -> Value {
        match self {
            Wrap::FlowSeq => json!({"w": "FlowSeq"}),
            Wrap::FlowMap => json!({"w": "FlowMap"}),
            Wrap::Lit => json!({"w": "LitStr"}),
            Wrap::LitOwned => json!({"w": "LitString"}),
            Wrap::Fold => json!({"w": "FoldStr"}),
            Wrap::FoldOwned => json!({"w": "FoldString"}),
            Wrap::Commented(c) => json!({"w": "Commented", "comment": c}),
            Wrap::SpaceAfter => json!({"w": "SpaceAfter"}),
        }
    }
    fn from_json(v: &Value) -> Option<Wrap> {
        Some(match v["w"].as_str()? {
            "FlowSeq" => Wrap::FlowSeq,
            "FlowMap" => Wrap::FlowMap,
            "LitStr" => Wrap::Lit,
            "LitString" => Wrap::LitOwned,
            "FoldStr" => Wrap::Fold,
            "FoldString" => Wrap::FoldOwned,
            "Commented" => Wrap::Commented(v["comment"].as_str()?.to_string()),
            "SpaceAfter" => Wrap::SpaceAfter,
            _ => return None,
        })
    }
}

/// Wrappers per node path, outermost first.
#[derive(Clone, Debug, Default, PartialEq)]
pub struct Decs(pub BTreeMap<Path, Vec<Wrap>>);

impl Decs {
    pub fn count(&self) -> usize {
        self.0.values().map(|v| v.len()).sum()
    }
    pub fn to_json(&self) -> Value {
        Value::Array(self.0.iter().map(|(p, ws)| json!({"path": p, "wraps": ws.iter().map(|w| w.to_json()).collect::<Vec<_>>()})).collect())
    }
    pub fn from_json(v: &Value) -> Decs {
        let mut d = Decs::default();
        if let Some(arr) = v.as_array() {
            for e in arr {
                let path: Path = e["path"].as_array().map(|a| a.iter().filter_map(|x| x.as_u64()).map(|x| x as u16).collect()).unwrap_or_default();
                let ws: Vec<Wrap> = e["wraps"].as_array().map(|a| a.iter().filter_map(Wrap::from_json).collect()).unwrap_or_default();
                if !ws.is_empty() {
                    d.0.insert(path, ws);
                }
            }
        }
        d
    }
    /// All (path, index) positions of single wrappers, in order.
    pub fn sites(&self) -> Vec<(Path, usize)> {
        let mut v = Vec::new();
        for (p, ws) in &self.0 {
            for i in 0..ws.len() {
                v.push((p.clone(), i));
            }
        }
        v
    }
    pub fn without(&self, p: &Path, i: usize) -> Decs {
        let mut d = self.clone();
        if let Some(ws) = d.0.get_mut(p) {
            ws.remove(i);
            if ws.is_empty() {
                d.0.remove(p);
            }
        }
        d
    }
    pub fn hash_bytes(&self) -> Vec<u8> {
        self.to_json().to_string().into_bytes()
    }
}

/// One node of the tree as the decorator sees it.
#[derive(Clone, Debug)]
pub struct Site {
    pub path: Path,
    /// kind label of `tygen::kind`
    pub kind: &'static str,
    /// the node is a map key or inside one
    pub in_key: bool,
    /// the node is a string leaf
    pub text: Option<String>,
}

/// Child pairs with their path step (options and newtypes are transparent: same path).
pub fn child_steps<'a>(ty: &'a Ty, v: &'a TVal) -> Vec<(u16, bool, &'a Ty, &'a TVal)> {
    let mut out = Vec::new();
    match (ty, v) {
        (Ty::Newtype(_, t), x) => return child_steps(t, x),
        (Ty::Option(t), TVal::Some(x)) => return child_steps(t, x),
        (Ty::Seq(t), TVal::Seq(xs)) => {
            for (i, x) in xs.iter().enumerate() {
                out.push((i as u16, false, &**t, x));
            }
        }
        (Ty::Tuple(ts), TVal::Tuple(xs)) | (Ty::TupleStruct(_, ts), TVal::Tuple(xs)) => {
            for (i, (t, x)) in ts.iter().zip(xs).enumerate() {
                out.push((i as u16, false, t, x));
            }
        }
        (Ty::Map(k, w), TVal::Map(ps)) => {
            for (i, (a, b)) in ps.iter().enumerate() {
                out.push((2 * i as u16, true, &**k, a));
                out.push((2 * i as u16 + 1, false, &**w, b));
            }
        }
        (Ty::Struct(s), TVal::Struct(xs)) => {
            for (i, (f, x)) in s.body.fields.iter().zip(xs).enumerate() {
                out.push((i as u16, false, &f.ty, x));
            }
        }
        (Ty::Enum(e), TVal::Variant(i, p)) => match (e.variants.get(*i as usize), &**p) {
            (Some(VariantTy::Newtype(t)), x) => out.push((0, false, t, x)),
            (Some(VariantTy::Tuple(ts)), TVal::Tuple(xs)) => {
                for (i, (t, x)) in ts.iter().zip(xs).enumerate() {
                    out.push((i as u16, false, t, x));
                }
            }
            (Some(VariantTy::Struct(f)), TVal::Struct(xs)) => {
                for (i, (f, x)) in f.fields.iter().zip(xs).enumerate() {
                    out.push((i as u16, false, &f.ty, x));
                }
            }
            _ => {}
        },
        _ => {}
    }
    out
}

fn leaf_text(ty: &Ty, v: &TVal) -> Option<String> {
    match (ty, v) {
        (Ty::Newtype(_, t), x) => leaf_text(t, x),
        (Ty::Option(t), TVal::Some(x)) => leaf_text(t, x),
        (Ty::Str, TVal::Str(s)) => Some(s.clone()),
        _ => None,
    }
}

pub fn sites(ty: &Ty, v: &TVal) -> Vec<Site> {
    fn rec(ty: &Ty, v: &TVal, path: &mut Path, in_key: bool, out: &mut Vec<Site>) {
        out.push(Site { path: path.clone(), kind: vcore::tygen::kind(ty, v), in_key, text: leaf_text(ty, v) });
        for (step, is_key, t, x) in child_steps(ty, v) {
            path.push(step);
            rec(t, x, path, in_key || is_key, out);
            path.pop();
        }
    }
    let mut out = Vec::new();
    rec(ty, v, &mut Vec::new(), false, &mut out);
    out
}

/// The sub-pair at `path`.
pub fn node_at<'a>(ty: &'a Ty, v: &'a TVal, path: &[u16]) -> Option<(&'a Ty, &'a TVal)> {
    let Some((first, rest)) = path.split_first() else { return Some((ty, v)) };
    let (_, _, t, x) = child_steps(ty, v).into_iter().find(|(s, ..)| s == first)?;
    node_at(t, x, rest)
}

/// Path of the last leaf (in emission order) below `path`.
pub fn last_leaf(ty: &Ty, v: &TVal, path: &[u16]) -> Path {
    let mut p: Path = path.to_vec();
    let Some((mut t, mut x)) = node_at(ty, v, path) else { return p };
    loop {
        let cs = child_steps(t, x);
        let Some((step, _, ct, cx)) = cs.into_iter().last() else { return p };
        p.push(step);
        t = ct;
        x = cx;
    }
}

// ------------------------------------------------------------------ Serialize

/// Decorated serializer: at each node the pending wrappers of its path are applied outermost
/// first by delegating to the library's wrapper types, then the node itself is serialized like
/// `vcore::ty::TSer` would.
#[derive(Clone)]
pub struct DSer<'a> {
    pub ty: &'a Ty,
    pub v: &'a TVal,
    pub decs: &'a Decs,
    pub path: Path,
    /// wrappers of this path already applied
    pub skip: usize,
}

impl<'a> DSer<'a> {
    pub fn root(ty: &'a Ty, v: &'a TVal, decs: &'a Decs) -> Self {
        DSer { ty, v, decs, path: Vec::new(), skip: 0 }
    }
    fn child(&self, step: u16, ty: &'a Ty, v: &'a TVal) -> DSer<'a> {
        let mut path = self.path.clone();
        path.push(step);
        DSer { ty, v, decs: self.decs, path, skip: 0 }
    }
    fn same(&self, ty: &'a Ty, v: &'a TVal) -> DSer<'a> {
        DSer { ty, v, decs: self.decs, path: self.path.clone(), skip: self.skip }
    }
    fn next(&self) -> DSer<'a> {
        DSer { skip: self.skip + 1, ..self.clone() }
    }
}

fn mismatch<E: serde::ser::Error>(t: &Ty, v: &TVal) -> E {
    E::custom(format!("DSer: value {v:?} does not match type {t}"))
}

impl Serialize for DSer<'_> {
    fn serialize<S: Serializer>(&self, s: S) -> Result<S::Ok, S::Error> {
        // transparent layers first (the wrappers sit directly around the real node)
        match (self.ty, self.v) {
            (Ty::Option(inner), TVal::Some(x)) => return s.serialize_some(&self.same(inner, x)),
            (Ty::Newtype(n, inner), x) => return s.serialize_newtype_struct(STRUCT_NAMES[*n as usize], &self.same(inner, x)),
            _ => {}
        }
        if let Some(w) = self.decs.0.get(&self.path).and_then(|ws| ws.get(self.skip)) {
            return match w {
                Wrap::FlowSeq => FlowSeq(self.next()).serialize(s),
                Wrap::FlowMap => FlowMap(self.next()).serialize(s),
                Wrap::SpaceAfter => SpaceAfter(self.next()).serialize(s),
                Wrap::Commented(c) => Commented(self.next(), c.clone()).serialize(s),
                Wrap::Lit | Wrap::LitOwned | Wrap::Fold | Wrap::FoldOwned => match self.v {
                    TVal::Str(x) => match w {
                        Wrap::Lit => LitStr(x).serialize(s),
                        Wrap::LitOwned => LitString(x.clone()).serialize(s),
                        Wrap::Fold => FoldStr(x).serialize(s),
                        _ => FoldString(x.clone()).serialize(s),
                    },
                    _ => Err(mismatch(self.ty, self.v)),
                },
            };
        }
        let (t, v) = (self.ty, self.v);
        match (t, v) {
            (Ty::Bool, TVal::Bool(b)) => s.serialize_bool(*b),
            (Ty::I8, TVal::I(i)) => s.serialize_i8(*i as i8),
            (Ty::I16, TVal::I(i)) => s.serialize_i16(*i as i16),
            (Ty::I32, TVal::I(i)) => s.serialize_i32(*i as i32),
            (Ty::I64, TVal::I(i)) => s.serialize_i64(*i as i64),
            (Ty::I128, TVal::I(i)) => s.serialize_i128(*i),
            (Ty::U8, TVal::U(u)) => s.serialize_u8(*u as u8),
            (Ty::U16, TVal::U(u)) => s.serialize_u16(*u as u16),
            (Ty::U32, TVal::U(u)) => s.serialize_u32(*u as u32),
            (Ty::U64, TVal::U(u)) => s.serialize_u64(*u as u64),
            (Ty::U128, TVal::U(u)) => s.serialize_u128(*u),
            (Ty::F32, TVal::F32(b)) => s.serialize_f32(f32::from_bits(*b)),
            (Ty::F64, TVal::F64(b)) => s.serialize_f64(f64::from_bits(*b)),
            (Ty::Char, TVal::Char(c)) => s.serialize_char(*c),
            (Ty::Str, TVal::Str(x)) => s.serialize_str(x),
            (Ty::Bytes, TVal::Bytes(b)) => s.serialize_bytes(b),
            (Ty::Unit, TVal::Unit) => s.serialize_unit(),
            (Ty::Option(_), TVal::None) => s.serialize_none(),
            (Ty::UnitStruct(n), TVal::Unit) => s.serialize_unit_struct(STRUCT_NAMES[*n as usize]),
            (Ty::Seq(inner), TVal::Seq(xs)) => {
                let mut q = s.serialize_seq(Some(xs.len()))?;
                for (i, x) in xs.iter().enumerate() {
                    q.serialize_element(&self.child(i as u16, inner, x))?;
                }
                q.end()
            }
            (Ty::Tuple(ts), TVal::Tuple(xs)) if ts.len() == xs.len() => {
                let mut q = s.serialize_tuple(ts.len())?;
                for (i, (t, x)) in ts.iter().zip(xs).enumerate() {
                    q.serialize_element(&self.child(i as u16, t, x))?;
                }
                q.end()
            }
            (Ty::TupleStruct(n, ts), TVal::Tuple(xs)) if ts.len() == xs.len() => {
                let mut q = s.serialize_tuple_struct(STRUCT_NAMES[*n as usize], ts.len())?;
                for (i, (t, x)) in ts.iter().zip(xs).enumerate() {
                    q.serialize_field(&self.child(i as u16, t, x))?;
                }
                q.end()
            }
            (Ty::Map(k, w), TVal::Map(ps)) => {
                let mut q = s.serialize_map(Some(ps.len()))?;
                for (i, (a, b)) in ps.iter().enumerate() {
                    q.serialize_entry(&self.child(2 * i as u16, k, a), &self.child(2 * i as u16 + 1, w, b))?;
                }
                q.end()
            }
            (Ty::Struct(st), TVal::Struct(xs)) if st.body.fields.len() == xs.len() => {
                let mut q = s.serialize_struct(st.name(), xs.len())?;
                for (i, (f, x)) in st.body.fields.iter().zip(xs).enumerate() {
                    q.serialize_field(FIELD_NAMES[i], &self.child(i as u16, &f.ty, x))?;
                }
                q.end()
            }
            (Ty::Enum(e), TVal::Variant(i, p)) if (*i as usize) < e.variants.len() => {
                let idx = *i as usize;
                let vname = e.names()[idx];
                match (&e.variants[idx], &**p) {
                    (VariantTy::Unit, TVal::Unit) => s.serialize_unit_variant(e.name(), idx as u32, vname),
                    (VariantTy::Newtype(t), x) => s.serialize_newtype_variant(e.name(), idx as u32, vname, &self.child(0, t, x)),
                    (VariantTy::Tuple(ts), TVal::Tuple(xs)) if ts.len() == xs.len() => {
                        let mut q = s.serialize_tuple_variant(e.name(), idx as u32, vname, ts.len())?;
                        for (j, (t, x)) in ts.iter().zip(xs).enumerate() {
                            q.serialize_field(&self.child(j as u16, t, x))?;
                        }
                        q.end()
                    }
                    (VariantTy::Struct(f), TVal::Struct(xs)) if f.fields.len() == xs.len() => {
                        let mut q = s.serialize_struct_variant(e.name(), idx as u32, vname, xs.len())?;
                        for (j, (f, x)) in f.fields.iter().zip(xs).enumerate() {
                            q.serialize_field(FIELD_NAMES[j], &self.child(j as u16, &f.ty, x))?;
                        }
                        q.end()
                    }
                    _ => Err(mismatch(t, v)),
                }
            }
            _ => Err(mismatch(t, v)),
        }
    }
}
