//! C20 — presentation wrappers and serializer options change layout only, never data.
//!
//! For a value of the C13 grammar decorated with `FlowSeq`, `FlowMap`, `LitStr/LitString`,
//! `FoldStr/FoldString`, `Commented`, `SpaceAfter` (nested, around containers, in keys) and an option
//! vector `o` (metamorphic oracle on the real code):
//!   R1  untyped(to_string_with_options(bare, o)) == untyped(to_string(bare))            (options)
//!   R2  to_string_with_options(decorated, o) is one well-formed document and
//!       untyped(decorated, o) == untyped(bare, o), typed read-back (`SchemaSeed`) gives the bare
//!       value, and reading into the wrapper types (`Commented<Val>`, `FlowSeq<Val>`, ...) gives the
//!       same tree.                                                                     (wrappers)
//! Strings under an explicit fold wrapper are compared modulo one trailing line break; what the
//! documentation declares lossy (folding of interior line breaks) is counted as unspecified. Cases whose *bare* form already fails the C13 oracle give no verdict
//! here (C13 reports them).

mod deco;
mod derived;

use deco::{DSer, Decs, Path, Wrap};
use serde_json::{Value, json};
use std::cell::RefCell;
use std::collections::{BTreeMap, HashMap};
use vcore::Val;
use vcore::rng::{Rng, fnv_parts};
use vcore::run::{Finish, Run, Tier, par_range};
use vcore::ty::{self, TSer, TVal, Ty, TyCfg, TyGrammar};
use vcore::tygen::{self, Opt, Stage};

// ------------------------------------------------------------------ pools

fn long_text() -> String {
    "a long comment text that goes on and on ".repeat(8)
}

/// (class name, text)
fn comment_atoms() -> Vec<(&'static str, String)> {
    vec![
        ("word", "note".into()),
        ("hash", "#".into()),
        ("colon-space", ": ".into()),
        ("dash-space", "- ".into()),
        ("bracket", "]".into()),
        ("brace", "}".into()),
        ("doc-start", "---".into()),
        ("doc-end", "...".into()),
        ("single-quote", "'".into()),
        ("double-quote", "\"".into()),
        ("cr", "\r".into()),
        ("lf", "\n".into()),
        ("crlf", "\r\n".into()),
        ("nel", "\u{85}".into()),
        ("ls", "\u{2028}".into()),
        ("ps", "\u{2029}".into()),
        ("tab", "\t".into()),
        ("nul", "\0".into()),
        ("esc", "\u{1b}[31m".into()),
        ("bel", "\u{7}".into()),
        ("bs", "\u{8}".into()),
        ("vt", "\u{b}".into()),
        ("ff", "\u{c}".into()),
        ("del", "\u{7f}".into()),
        ("c1-pad", "\u{80}".into()),
        ("c1-csi", "\u{9b}".into()),
        ("c1-apc", "\u{9f}".into()),
        ("bom", "\u{feff}".into()),
        ("spaces", "  a b  ".into()),
        ("key-value", "y: 1".into()),
        ("flow-map", "{a: 1}".into()),
        ("flow-seq", "[x, y]".into()),
        ("directive", "%YAML 1.2".into()),
        ("anchor-alias", "&a *a".into()),
        ("tag", "!t".into()),
        ("block-indicators", "| >".into()),
        ("non-ascii", "é✓".into()),
        ("long", long_text()),
    ]
}

fn content_lines() -> Vec<String> {
    vec![
        "x".into(),
        "word word".into(),
        " lead".into(),
        "  lead2".into(),
        "\tlead-tab".into(),
        "".into(),
        "a\tb".into(),
        "w".repeat(100),
        "v".repeat(1100),
        format!("{} é é é", "é".repeat(78)),
        "# not a comment".into(),
        "k: v".into(),
        "- item".into(),
        "---".into(),
        "...".into(),
        "'q' \"d\"".into(),
        "a  b   c".into(),
        "the quick brown fox jumps over the lazy dog and keeps running for quite a while until the line is long enough to wrap".into(),
        "tab\there and a rather long tail so that the wrap column falls somewhere after the tab character in this line".into(),
    ]
}

fn random_content(rng: &mut Rng, lines: &[String]) -> String {
    let n = rng.range(1, 4);
    let mut parts: Vec<String> = Vec::new();
    for _ in 0..n {
        parts.push(rng.pick(lines).clone());
    }
    let mut s = parts.join("\n");
    if rng.chance(1, 40) {
        s.push_str("\rcr");
    }
    for _ in 0..*rng.pick(&[0usize, 0, 1, 1, 2, 3]) {
        s.push('\n');
    }
    s
}

fn random_comment(rng: &mut Rng, atoms: &[(&'static str, String)]) -> String {
    let n = *rng.pick(&[1usize, 1, 2, 2, 3, 4]);
    let mut s = String::new();
    for i in 0..n {
        if i > 0 && rng.bool() {
            s.push(' ');
        }
        s.push_str(&rng.pick(atoms).1);
    }
    s
}

// ------------------------------------------------------------------ tolerances

#[derive(Clone, Copy, Debug, PartialEq, Eq)]
enum Tol {
    /// equal after removing at most one trailing line break on either side
    Mod1,
    /// equal after removing all trailing line breaks (documented lossy, counted as unspecified)
    TrailingNl,
    /// equal after collapsing runs of spaces / line breaks (documented folding, unspecified)
    Folded,
}

fn strip1(s: &str) -> &str {
    s.strip_suffix('\n').unwrap_or(s)
}

fn collapse(s: &str) -> String {
    let mut out = String::new();
    let mut in_ws = false;
    for c in s.chars() {
        if c == ' ' || c == '\n' {
            in_ws = true;
        } else {
            if in_ws && !out.is_empty() {
                out.push(' ');
            }
            in_ws = false;
            out.push(c);
        }
    }
    out
}

fn str_eq(expected: &str, actual: &str, tol: &HashMap<String, Tol>) -> bool {
    if expected == actual {
        return true;
    }
    match tol.get(expected) {
        None => false,
        Some(Tol::Mod1) => strip1(expected) == strip1(actual),
        Some(Tol::TrailingNl) => expected.trim_end_matches('\n') == actual.trim_end_matches('\n'),
        Some(Tol::Folded) => collapse(expected) == collapse(actual),
    }
}

fn val_eq(e: &Val, a: &Val, tol: &HashMap<String, Tol>) -> bool {
    match (e, a) {
        (Val::Str(x), Val::Str(y)) => str_eq(x, y, tol),
        (Val::Seq(x), Val::Seq(y)) => x.len() == y.len() && x.iter().zip(y).all(|(p, q)| val_eq(p, q, tol)),
        (Val::Map(x), Val::Map(y)) => x.len() == y.len() && x.iter().zip(y).all(|((k1, v1), (k2, v2))| val_eq(k1, k2, tol) && val_eq(v1, v2, tol)),
        _ => e == a,
    }
}

fn tval_eq(e: &TVal, a: &TVal, tol: &HashMap<String, Tol>) -> bool {
    match (e, a) {
        (TVal::Str(x), TVal::Str(y)) => str_eq(x, y, tol),
        (TVal::Some(x), TVal::Some(y)) => tval_eq(x, y, tol),
        (TVal::Variant(i, x), TVal::Variant(j, y)) => i == j && tval_eq(x, y, tol),
        (TVal::Seq(x), TVal::Seq(y)) | (TVal::Tuple(x), TVal::Tuple(y)) | (TVal::Struct(x), TVal::Struct(y)) => {
            x.len() == y.len() && x.iter().zip(y).all(|(p, q)| tval_eq(p, q, tol))
        }
        (TVal::Map(x), TVal::Map(y)) => x.len() == y.len() && x.iter().zip(y).all(|((k1, v1), (k2, v2))| tval_eq(k1, k2, tol) && tval_eq(v1, v2, tol)),
        _ => e == a,
    }
}

/// The decorated case.
#[derive(Clone, Debug)]
struct Case {
    ty: Ty,
    v: TVal,
    decs: Decs,
    o: Opt,
}

impl Case {
    fn to_json(&self, part: &str) -> Value {
        json!({
            "part": part,
            "ty": self.ty.to_json(),
            "ty_text": self.ty.to_string(),
            "v": serde_json::to_string(&self.v).unwrap_or_default(),
            "decorations": self.decs.to_json(),
            "opt": self.o.to_json(),
        })
    }
    fn hash(&self) -> u64 {
        tygen::hash_case(&self.ty, &self.v, &self.o) ^ fnv_parts(&[&self.decs.hash_bytes()])
    }
}

/// Tolerances of a case (by string content) and the unspecified classes they stand for.
fn tolerances(c: &Case, unspecified: &mut Vec<&'static str>) -> HashMap<String, Tol> {
    let mut tol: HashMap<String, Tol> = HashMap::new();
    let sites = deco::sites(&c.ty, &c.v);
    for (path, ws) in &c.decs.0 {
        let Some(site) = sites.iter().find(|s| &s.path == path) else { continue };
        // explicit fold wrapper on a string in value position
        if let (Some(text), true) = (&site.text, ws.iter().any(|w| w.is_fold())) {
            let folded = text.contains('\n') || text.len() >= c.o.min_fold_chars;
            if folded {
                let body = text.trim_end_matches('\n');
                let trailing = text.len() - body.len();
                if body.contains('\n') {
                    tol.insert(text.clone(), Tol::Folded);
                    unspecified.push("fold-wrapper:interior-line-breaks-are-folded(documented)");
                } else if trailing >= 2 {
                    tol.insert(text.clone(), Tol::TrailingNl);
                    unspecified.push("fold-wrapper:several-trailing-line-breaks-are-clipped");
                } else {
                    tol.insert(text.clone(), Tol::Mod1);
                }
            }
        }
    }
    tol
}

/// A fold wrapper that really folds (any tolerance applies) on a string inside a map key: the
/// documented folding changes the key itself (and can make two keys equal), so there is no verdict.
/// (A fold wrapper directly on a scalar key is transparent and exact; it only folds when another
/// wrapper such as `Commented`, or a composite key, turns the key into a `? ` key.)
fn fold_inside_key(c: &Case, tol: &HashMap<String, Tol>) -> bool {
    let sites = deco::sites(&c.ty, &c.v);
    c.decs.0.iter().any(|(p, ws)| {
        ws.iter().any(|w| w.is_fold())
            && sites.iter().any(|s| &s.path == p && s.in_key && s.text.as_ref().map(|t| tol.contains_key(t)).unwrap_or(false))
            && (ws.len() > 1 || {
                // composite key: the string is below the key node, not the key itself
                let parent_is_map = p.len() >= 1
                    && deco::node_at(&c.ty, &c.v, &p[..p.len() - 1]).map(|(t, x)| matches!(tygen::kind(t, x), "map")).unwrap_or(false);
                !parent_is_map
            })
    })
}

/// Tolerant contents must not also occur as an untolerated string elsewhere (the tolerance is
/// looked up by content): drop the wrappers that would make that ambiguous.
fn make_tolerances_unambiguous(c: &mut Case) {
    let sites = deco::sites(&c.ty, &c.v);
    let mut count: HashMap<&str, usize> = HashMap::new();
    for s in &sites {
        if let Some(t) = &s.text {
            *count.entry(t.as_str()).or_insert(0) += 1;
        }
    }
    let dup_paths: Vec<Path> = sites.iter().filter(|s| s.text.as_ref().map(|t| count[t.as_str()] > 1).unwrap_or(false)).map(|s| s.path.clone()).collect();
    for p in dup_paths {
        if let Some(ws) = c.decs.0.get_mut(&p) {
            ws.retain(|w| !w.is_fold() && !w.is_lit());
            if ws.is_empty() {
                c.decs.0.remove(&p);
            }
        }
    }
}

// ------------------------------------------------------------------ the oracle

#[derive(Clone, Debug, PartialEq)]
enum Outcome {
    Held,
    /// no verdict, with the reason
    NoVerdict(String),
    /// (effect class, detail)
    Violated(&'static str, String),
}

fn read_val(text: &str) -> Result<Val, String> {
    match vcore::obs::catch(|| serde_saphyr::from_str_with_options::<Val>(text, tygen::de_options())) {
        Err(p) => Err(format!("panic: {p}")),
        Ok(Err(e)) => Err(e.to_string().lines().next().unwrap_or("").to_string()),
        Ok(Ok(v)) => Ok(v),
    }
}

fn read_as<T: serde::de::DeserializeOwned>(text: &str) -> Result<T, String> {
    match vcore::obs::catch(|| serde_saphyr::from_str_with_options::<T>(text, tygen::de_options())) {
        Err(p) => Err(format!("panic: {p}")),
        Ok(Err(e)) => Err(e.to_string().lines().next().unwrap_or("").to_string()),
        Ok(Ok(v)) => Ok(v),
    }
}

/// Text usable by the deserializer: the directive defect (C13's finding) is repaired so that the
/// rest of the document can still be judged.
fn usable(text: &str) -> String {
    if tygen::directive_without_doc_start(text) { tygen::insert_doc_start(text) } else { text.to_string() }
}

struct Eval {
    outcome: Outcome,
    emitted: Option<String>,
    unspecified: Vec<&'static str>,
}

fn evaluate(c: &Case) -> Eval {
    let mut unspecified = Vec::new();
    let ev = |outcome: Outcome, emitted: Option<String>, unspecified: Vec<&'static str>| Eval { outcome, emitted, unspecified };
    // reference: the bare value under the same options must satisfy the C13 oracle
    let rt = tygen::roundtrip(&c.ty, &c.v, &c.o);
    if let Some(u) = rt.unspecified {
        return ev(Outcome::NoVerdict(format!("bare/{u}")), None, unspecified);
    }
    if let Some(st) = &rt.fail {
        // R1 in its strongest form: with the default options the bare value round-trips, with these it does not
        if c.o != Opt::default() {
            let rt0 = tygen::roundtrip(&c.ty, &c.v, &Opt::default());
            if rt0.fail.is_none() && rt0.unspecified.is_none() {
                return ev(Outcome::Violated("options-break-the-bare-document", format!("{}: {}", st.kind(), st.detail())), rt.text.clone(), unspecified);
            }
        }
        return ev(Outcome::NoVerdict(format!("bare-form-fails-C13-oracle/{}", st.kind())), None, unspecified);
    }
    let bare_text = usable(rt.text.as_deref().unwrap_or(""));
    let rb = match read_val(&bare_text) {
        Ok(v) => v,
        Err(e) => return ev(Outcome::NoVerdict(format!("bare-form-not-readable-untyped/{e}")), None, unspecified),
    };
    // R1: options only
    if c.o != Opt::default() {
        let rt0 = tygen::roundtrip(&c.ty, &c.v, &Opt::default());
        if rt0.fail.is_none()
            && rt0.unspecified.is_none()
            && let Ok(r0) = read_val(rt0.text.as_deref().unwrap_or(""))
            && r0 != rb
        {
            return ev(Outcome::Violated("options-change-untyped-data", format!("default options: {r0} | these options: {rb}")), rt.text.clone(), unspecified);
        }
    }
    if c.decs.count() == 0 {
        return ev(Outcome::Held, rt.text.clone(), unspecified);
    }
    // R2: wrappers
    let tol = tolerances(c, &mut unspecified);
    if fold_inside_key(c, &tol) {
        unspecified.push("fold-wrapper-inside-a-key:folding-is-lossy(documented)");
        return ev(Outcome::NoVerdict("fold-wrapper-inside-a-key".into()), None, unspecified);
    }
    let text = match tygen::emit(&DSer::root(&c.ty, &c.v, &c.decs), &c.o) {
        Ok(t) => t,
        Err(Stage::Panic(p)) => return ev(Outcome::Violated("panic", p), None, unspecified),
        Err(st) => {
            let d = st.detail();
            if d.contains("non-scalar key") {
                return ev(Outcome::NoVerdict("serializer-error/complex-key-inside-flow".into()), None, unspecified);
            }
            return ev(Outcome::Violated("serializer-error", d), None, unspecified);
        }
    };
    let t = usable(&text);
    let mut skipped = false;
    if let Some(st) = tygen::check_one_document(&t, &mut skipped) {
        return ev(Outcome::Violated(st.kind(), st.detail()), Some(text), unspecified);
    }
    let rd = match read_val(&t) {
        Ok(v) => v,
        Err(e) => return ev(Outcome::Violated("untyped-read-error", e), Some(text), unspecified),
    };
    if !val_eq(&rb, &rd, &tol) {
        let effect = if rd.node_count() != rb.node_count() { "untyped-data-differs:structure" } else { "untyped-data-differs:leaf" };
        return ev(Outcome::Violated(effect, format!("bare: {rb} | decorated: {rd}")), Some(text), unspecified);
    }
    // typed read-back into the bare type
    match tygen::read_typed(&c.ty, &t) {
        Err(st) => return ev(Outcome::Violated("typed-read-error", st.detail()), Some(text), unspecified),
        Ok(back) => {
            if !tval_eq(&c.v, &back, &tol) {
                return ev(Outcome::Violated("typed-data-differs", format!("{back:?}")), Some(text), unspecified);
            }
        }
    }
    // read-back into the wrapper types: transparent, so exactly what the untyped read gave
    use serde_saphyr::{Commented, FlowMap, FlowSeq, SpaceAfter};
    let checks: [(&str, Result<Val, String>); 5] = [
        ("Commented<Val>", read_as::<Commented<Val>>(&t).map(|w| w.0)),
        ("FlowSeq<Val>", read_as::<FlowSeq<Val>>(&t).map(|w| w.0)),
        ("FlowMap<Val>", read_as::<FlowMap<Val>>(&t).map(|w| w.0)),
        ("SpaceAfter<Val>", read_as::<SpaceAfter<Val>>(&t).map(|w| w.0)),
        ("SpaceAfter<Commented<FlowSeq<Val>>>", read_as::<SpaceAfter<Commented<FlowSeq<Val>>>>(&t).map(|w| w.0.0.0)),
    ];
    for (name, r) in checks {
        match r {
            Ok(v) if v == rd => {}
            Ok(v) => return ev(Outcome::Violated("wrapper-type-read-differs", format!("{name}: {v} vs {rd}")), Some(text), unspecified),
            Err(e) => return ev(Outcome::Violated("wrapper-type-read-error", format!("{name}: {e}")), Some(text), unspecified),
        }
    }
    if let Val::Str(s) = &rd {
        let a = read_as::<serde_saphyr::LitString>(&t).map(|w| w.0);
        let b = read_as::<serde_saphyr::FoldString>(&t).map(|w| w.0);
        if a.as_ref() != Ok(s) || b.as_ref() != Ok(s) {
            return ev(Outcome::Violated("wrapper-type-read-differs", format!("LitString/FoldString: {a:?} {b:?} vs {s:?}")), Some(text), unspecified);
        }
    }
    ev(Outcome::Held, Some(text), unspecified)
}

// ------------------------------------------------------------------ shrinking and signatures

fn still_violated(c: &Case) -> bool {
    matches!(evaluate(c).outcome, Outcome::Violated(..))
}

/// Greedy, deterministic: drop wrappers, reset options, reduce comments to one atom, replace the
/// wrapped string contents by simpler ones, cut the tree down to the subtree holding the wrappers.
fn shrink(c: &Case) -> Case {
    let mut c = c.clone();
    let atoms = comment_atoms();
    let mut budget = 400usize;
    loop {
        let mut changed = false;
        for (p, i) in c.decs.sites() {
            if budget == 0 {
                return c;
            }
            budget -= 1;
            let mut c2 = c.clone();
            c2.decs = c.decs.without(&p, i);
            if c2.decs.count() > 0 && still_violated(&c2) {
                c = c2;
                changed = true;
                break;
            }
        }
        if changed {
            continue;
        }
        for o2 in c.o.toward_default() {
            if budget == 0 {
                return c;
            }
            budget -= 1;
            let c2 = Case { o: o2, ..c.clone() };
            if still_violated(&c2) {
                c = c2;
                changed = true;
                break;
            }
        }
        if changed {
            continue;
        }
        // comments -> one atom
        'com: for (p, i) in c.decs.sites() {
            let Some(Wrap::Commented(cur)) = c.decs.0.get(&p).and_then(|ws| ws.get(i)).cloned() else { continue };
            for (_, a) in &atoms {
                if *a == cur || !cur.contains(a.as_str()) {
                    continue;
                }
                if budget == 0 {
                    return c;
                }
                budget -= 1;
                let mut c2 = c.clone();
                c2.decs.0.get_mut(&p).unwrap()[i] = Wrap::Commented(a.clone());
                if still_violated(&c2) {
                    c = c2;
                    changed = true;
                    break 'com;
                }
            }
        }
        if changed {
            continue;
        }
        // subtree that holds all wrappers
        let paths: Vec<&Path> = c.decs.0.keys().collect();
        if let Some(first) = paths.first() {
            let mut prefix: Path = (*first).clone();
            for p in &paths {
                let n = prefix.iter().zip(p.iter()).take_while(|(a, b)| a == b).count();
                prefix.truncate(n);
            }
            // try the deepest cut first, then shorter ones
            for cut in (1..=prefix.len()).rev() {
                if budget == 0 {
                    return c;
                }
                budget -= 1;
                if let Some((t, x)) = deco::node_at(&c.ty, &c.v, &prefix[..cut]) {
                    let mut d = Decs::default();
                    for (p, ws) in &c.decs.0 {
                        d.0.insert(p[cut..].to_vec(), ws.clone());
                    }
                    let c2 = Case { ty: t.clone(), v: x.clone(), decs: d, o: c.o };
                    if still_violated(&c2) {
                        c = c2;
                        changed = true;
                        break;
                    }
                }
            }
        }
        if !changed {
            return c;
        }
    }
}

/// First matching content feature of a wrapped string.
fn content_class(s: &str) -> &'static str {
    let body = s.trim_end_matches('\n');
    let trailing = s.len() - body.len();
    if s.contains('\r') {
        "carriage-return"
    } else if s.is_empty() {
        "empty"
    } else if s == "\n" {
        "single-line-break"
    } else if body.is_empty() {
        "line-breaks-only"
    } else if body.split('\n').find(|l| !l.is_empty()).map(|l| l.starts_with(' ')).unwrap_or(false) {
        "leading-space"
    } else if trailing >= 2 {
        "trailing-breaks>=2"
    } else if s.contains('\t') {
        "tab"
    } else if s.chars().count() > 1024 {
        "longer-than-1024"
    } else if body.contains('\n') {
        "multi-line"
    } else {
        "single-line"
    }
}

/// Signature of the minimal case.
fn signature(min: &Case, effect: &str) -> String {
    let atoms = comment_atoms();
    let sites = deco::sites(&min.ty, &min.v);
    let _ = &sites;
    let mut names: Vec<&'static str> = min.decs.0.values().flatten().map(|w| w.name()).collect();
    names.sort();
    names.dedup();
    // a block-string wrapper together with a flow wrapper: the string sits in the flow collection, or
    // in a later collection that inherits a flow hint which a nested flow wrapper left unconsumed
    let block_in_flow = min.decs.0.values().flatten().any(|w| w.is_lit() || w.is_fold()) && min.decs.0.values().flatten().any(|w| w.is_flow());
    if block_in_flow {
        return "C20:block-string-wrapper:inside-flow-collection".into();
    }
    let comment_classes: Vec<&'static str> = min
        .decs
        .0
        .values()
        .flatten()
        .filter_map(|w| match w {
            Wrap::Commented(c) => Some(atoms.iter().find(|(_, a)| a == c).map(|(n, _)| *n).unwrap_or("mixed")),
            _ => None,
        })
        .collect();
    // a carriage return in a comment: without it the case holds
    if min.decs.0.values().flatten().any(|w| matches!(w, Wrap::Commented(c) if c.contains('\r'))) {
        let mut c2 = min.clone();
        for ws in c2.decs.0.values_mut() {
            for w in ws.iter_mut() {
                if let Wrap::Commented(c) = w {
                    *c = c.replace('\r', " ");
                }
            }
        }
        if !still_violated(&c2) {
            return "C20:comment:cr-injects-content".into();
        }
    }
    // another control character (NUL, ESC, BEL, BS, VT, FF, DEL, C1, U+FEFF) in a comment: without it the case holds
    let is_ctl = |ch: char| (ch.is_control() && !matches!(ch, '\n' | '\r' | '\t')) || ch == '\u{feff}';
    if min.decs.0.values().flatten().any(|w| matches!(w, Wrap::Commented(c) if c.chars().any(is_ctl))) {
        let mut c2 = min.clone();
        for ws in c2.decs.0.values_mut() {
            for w in ws.iter_mut() {
                if let Wrap::Commented(c) = w {
                    *c = c.chars().map(|ch| if is_ctl(ch) { ' ' } else { ch }).collect();
                }
            }
        }
        if !still_violated(&c2) {
            return "C20:comment:control-char-alters-document".into();
        }
    }
    // flow wrapper around a collection that holds enum variants with a payload
    if names.iter().all(|n| *n == "FlowSeq" || *n == "FlowMap") && !names.is_empty() {
        let variant_inside =
            tygen::any_node(&min.ty, &min.v, &|t, x| matches!(tygen::kind(t, x), "newtype-variant" | "struct-variant" | "tuple-variant"));
        if variant_inside {
            return "C20:flow-wrapper:enum-variant-with-payload-inside-flow".into();
        }
    }
    // strings under the remaining Lit / Fold / SpaceAfter wrappers
    let mut content: Vec<&'static str> = Vec::new();
    let mut wrapped_texts: Vec<String> = Vec::new();
    let mut space_after_texts: Vec<String> = Vec::new();
    for (p, ws) in &min.decs.0 {
        if ws.iter().any(|w| w.is_lit() || w.is_fold()) {
            if let Some(s) = sites.iter().find(|s| &s.path == p).and_then(|s| s.text.clone()) {
                content.push(content_class(&s));
                wrapped_texts.push(s);
            }
        } else if ws.iter().any(|w| matches!(w, Wrap::SpaceAfter)) {
            let last = deco::last_leaf(&min.ty, &min.v, p);
            if let Some(s) = sites.iter().find(|s| s.path == last).and_then(|s| s.text.clone()) {
                content.push(content_class(&s));
                space_after_texts.push(s);
            }
        }
    }
    content.sort();
    content.dedup();
    if names == ["SpaceAfter"] && space_after_texts.iter().any(|s| s.ends_with("\n\n")) && effect.starts_with("untyped-data-differs") {
        return "C20:space-after:string-kept-with-trailing-breaks-gains-a-line-break".into();
    }
    let only_block = !names.is_empty() && names.iter().all(|n| *n == "Lit" || *n == "Fold");
    if only_block && wrapped_texts.iter().any(|s| s.contains('\r')) {
        return "C20:block-string-wrapper:carriage-return-in-content".into();
    }
    if only_block && content == ["leading-space"] && !min.decs.0.keys().all(|p| p.is_empty()) {
        return "C20:block-string-wrapper:indentation-indicator-in-nested-position".into();
    }
    if only_block && content == ["empty"] {
        return "C20:block-string-wrapper:empty-string-reads-back-as-none".into();
    }
    // a fold wrapper clips a string of line breaks to the empty string (documented clip chomping);
    // what is then observed is the empty block scalar read as `None`
    if names == ["Fold"] && (content == ["line-breaks-only"] || content == ["single-line-break"]) && effect == "typed-data-differs" {
        return "C20:block-string-wrapper:empty-string-reads-back-as-none".into();
    }
    let block_or_comment = names.iter().any(|n| *n == "Lit" || *n == "Fold") && names.iter().all(|n| *n == "Lit" || *n == "Fold" || *n == "Commented");
    if block_or_comment && content == ["single-line-break"] {
        return "C20:block-string-wrapper:single-line-break-only".into();
    }
    if block_or_comment && content == ["line-breaks-only"] {
        return "C20:block-string-wrapper:string-of-line-breaks-only".into();
    }
    let mut trig: Vec<String> = Vec::new();
    if !comment_classes.is_empty() {
        let mut cc = comment_classes.clone();
        cc.sort();
        cc.dedup();
        trig.push(format!("comment={}", cc.join("/")));
    }
    if !content.is_empty() {
        trig.push(format!("string={}", content.join("/")));
    }
    let opts = tygen::opt_class(&min.o);
    let opt = opts.split(',').next().filter(|s| !s.is_empty()).unwrap_or("default-options");
    format!("C20:{}:{}:{}", names.join("+"), if trig.is_empty() { "-".to_string() } else { trig.join(",") }, opt)
}

// ------------------------------------------------------------------ bookkeeping

thread_local! {
    static LOCAL: RefCell<BTreeMap<String, u64>> = const { RefCell::new(BTreeMap::new()) };
    static REPORTED: RefCell<HashMap<String, u64>> = RefCell::new(HashMap::new());
}

fn lcount(key: &str, n: u64) {
    LOCAL.with(|l| *l.borrow_mut().entry(key.to_string()).or_insert(0) += n);
}

fn flush_local(run: &Run) {
    LOCAL.with(|l| {
        let mut l = l.borrow_mut();
        for (k, v) in l.iter() {
            run.count(k, *v);
        }
        l.clear();
    });
}

static EXPLORE: std::sync::Mutex<BTreeMap<String, (u64, String)>> = std::sync::Mutex::new(BTreeMap::new());

fn judge(run: &Run, c: &Case, part: &str) {
    run.eval();
    let ev = evaluate(c);
    for u in &ev.unspecified {
        lcount(&format!("unspecified/{u}"), 1);
    }
    match ev.outcome {
        Outcome::Held => {
            lcount("held", 1);
            let nonroot = c.decs.0.keys().any(|p| !p.is_empty());
            if nonroot || c.o != Opt::default() {
                run.nontrivial(c.hash());
            }
            for w in c.decs.0.values().flatten() {
                lcount(&format!("held_with_wrapper/{}", w.name()), 1);
            }
        }
        Outcome::NoVerdict(why) => {
            let short: String = why.split('/').take(2).collect::<Vec<_>>().join("/");
            lcount(&format!("no_verdict/{}", short.chars().take(90).collect::<String>()), 1);
        }
        Outcome::Violated(effect, detail) => {
            let (sig, min) = if effect == "panic" {
                (format!("C20:panic:{}", vcore::obs::panic_site(&detail)), c.clone())
            } else if effect == "options-change-untyped-data" || effect == "options-break-the-bare-document" {
                // reduce the option vector to what is needed, keep the value
                let mut m = Case { decs: Decs::default(), ..c.clone() };
                loop {
                    let next = m.o.toward_default().into_iter().find(|o2| {
                        let c2 = Case { o: *o2, ..m.clone() };
                        matches!(evaluate(&c2).outcome, Outcome::Violated(e, _) if e == effect)
                    });
                    match next {
                        Some(o2) => m.o = o2,
                        None => break,
                    }
                }
                (format!("C20:{effect}:{}", tygen::opt_class(&m.o).split(',').next().unwrap_or("")), m)
            } else {
                let min = shrink(c);
                let eff2 = match evaluate(&min).outcome {
                    Outcome::Violated(e2, _) => e2,
                    _ => effect,
                };
                (signature(&min, eff2), min)
            };
            lcount(&format!("failing_cases/{sig}"), 1);
            lcount(&format!("effects/{effect}"), 1);
            let n = REPORTED.with(|r| {
                let mut r = r.borrow_mut();
                let e = r.entry(sig.clone()).or_insert(0);
                *e += 1;
                *e
            });
            let min_text = tygen::emit(&DSer::root(&min.ty, &min.v, &min.decs), &min.o).ok();
            if n <= 4 {
                let mut cj = c.to_json(part);
                cj["emitted"] = json!(ev.emitted);
                cj["minimal"] = json!({
                    "ty_text": min.ty.to_string(),
                    "v": format!("{:?}", min.v),
                    "decorations": min.decs.to_json(),
                    "opt_non_default": min.o.non_default(),
                    "emitted": min_text,
                });
                run.violation(&sig, cj, format!("{effect}: {detail}"));
            }
            if std::env::var_os("VERIF_EXPLORE").is_some() {
                let mut e = EXPLORE.lock().unwrap();
                let key = format!("{sig} <= {} {:?} {}", min.ty, min.decs.0, min.o.non_default().join(","));
                let key: String = key.chars().take(300).collect();
                let ent = e.entry(key).or_insert_with(|| {
                    let d2 = match evaluate(&min).outcome {
                        Outcome::Violated(e2, d2) => format!("{e2}: {}", d2.chars().take(300).collect::<String>()),
                        other => format!("{other:?}"),
                    };
                    (0, format!("{:?}\n      {d2}", min_text.map(|t| t.chars().take(300).collect::<String>())))
                });
                ent.0 += 1;
            }
        }
    }
}

// ------------------------------------------------------------------ generators

fn applicable(site: &deco::Site, rng: &mut Rng, atoms: &[(&'static str, String)]) -> Vec<Wrap> {
    // returns the wrapper stack for this site, outermost first
    let mut ws: Vec<Wrap> = Vec::new();
    let generic = |rng: &mut Rng| if rng.bool() { Wrap::Commented(random_comment(rng, atoms)) } else { Wrap::SpaceAfter };
    let n_generic = *rng.pick(&[0usize, 1, 1, 2, 2, 3]);
    for _ in 0..n_generic {
        ws.push(generic(rng));
    }
    match site.kind {
        "seq" | "seq-empty" | "tuple" if rng.chance(2, 3) => {
            let at = rng.below(ws.len() + 1);
            ws.insert(at, Wrap::FlowSeq);
        }
        "map" | "map-empty" | "struct" if rng.chance(2, 3) => {
            let at = rng.below(ws.len() + 1);
            ws.insert(at, Wrap::FlowMap);
        }
        _ => {}
    }
    if site.text.is_some() && rng.chance(2, 3) {
        ws.push(rng.pick(&[Wrap::Lit, Wrap::LitOwned, Wrap::Fold, Wrap::FoldOwned]).clone());
    }
    if ws.is_empty() {
        ws.push(generic(rng));
    }
    ws
}

fn random_opt(rng: &mut Rng) -> Opt {
    if rng.chance(1, 4) {
        return Opt::default();
    }
    let bits = rng.below(128) as u8;
    let mut o = Opt::from_bits(bits, *rng.pick(&[2usize, 2, 2, 4, 1, 3, 8]));
    if rng.chance(1, 2) {
        o.min_fold_chars = *rng.pick(&[0usize, 1, 8, 64, 1000]);
    }
    if rng.chance(1, 2) {
        o.folded_wrap_chars = *rng.pick(&[0usize, 1, 8, 20, 40, 200]);
    }
    o
}

fn distinct_key_scalars(ty: &Ty, v: &TVal) -> bool {
    !tygen::any_node(ty, v, &|t, x| match (t, x) {
        (Ty::Map(k, _), TVal::Map(ps)) => {
            let mut seen = std::collections::HashSet::new();
            ps.iter().any(|(a, _)| !seen.insert(serde_saphyr::to_string(&TSer(k, a)).unwrap_or_default()))
        }
        _ => false,
    })
}

/// Types whose bare layout is not among C13's findings: no tuple structs, no tuple variants, only
/// scalar keys (so that what fails is due to the wrappers).
fn random_clean_ty(rng: &mut Rng, depth: usize) -> Ty {
    use vcore::ty::{Fields, VariantTy};
    let scalar = |rng: &mut Rng| match rng.below(12) {
        0..=3 => Ty::Str,
        4 | 5 => Ty::I32,
        6 => Ty::Bool,
        7 => Ty::F64,
        8 => Ty::Char,
        9 => Ty::Unit,
        10 => Ty::enumeration(rng.below(8) as u8, rng.below(6) as u8, vec![VariantTy::Unit; rng.range(1, 3)]),
        _ => rng.pick(&[Ty::I64, Ty::U8, Ty::U64, Ty::I8]).clone(),
    };
    if depth <= 1 {
        return scalar(rng);
    }
    let d = depth - 1;
    match rng.below(14) {
        0 => {
            let inner = random_clean_ty(rng, d);
            if inner.absorbs_null() { inner } else { Ty::opt(inner) }
        }
        1 => Ty::newtype(rng.below(8) as u8, random_clean_ty(rng, d)),
        2..=4 => Ty::seq(random_clean_ty(rng, d)),
        5 | 6 => Ty::Tuple((0..rng.range(1, 3)).map(|_| random_clean_ty(rng, d)).collect()),
        7 | 8 => Ty::map(rng.pick(&[Ty::Str, Ty::Str, Ty::I32, Ty::Bool, Ty::Char]).clone(), random_clean_ty(rng, d)),
        9..=11 => Ty::strukt(rng.below(8) as u8, (0..rng.range(1, 4)).map(|_| random_clean_ty(rng, d)).collect(), false),
        _ => {
            let n = rng.range(1, 3);
            let mut variants = Vec::new();
            for _ in 0..n {
                variants.push(match rng.below(3) {
                    0 => VariantTy::Unit,
                    1 => VariantTy::Newtype(random_clean_ty(rng, d)),
                    _ => VariantTy::Struct(Fields::new((0..rng.range(1, 3)).map(|_| random_clean_ty(rng, d)).collect(), false)),
                });
            }
            Ty::enumeration(rng.below(8) as u8, rng.below(6) as u8, variants)
        }
    }
}


fn random_case(rng: &mut Rng, atoms: &[(&'static str, String)], lines: &[String]) -> Option<Case> {
    let depth = rng.range(1, 6);
    let cfg = TyCfg { nullable_in_option: false, defaults: false, deny_unknown: false, bytes: false, floats: true };
    // half of the cases use a grammar without tuple structs / tuple variants / composite keys (more
    // wrapper positions per case), the other half the full C13 grammar; any option vector
    let clean = rng.bool();
    let t = if clean { random_clean_ty(rng, depth) } else { ty::random_ty_with(rng, depth, &cfg) };
    let v = ty::random_val(rng, &t);
    // new string contents
    let cell = RefCell::new(rng.clone());
    let (t, v) = tygen::map_nodes(&t, &v, &|tt, x| match &x {
        TVal::Str(_) if matches!(tt, Ty::Str) && cell.borrow_mut().chance(1, 2) => {
            let s = random_content(&mut cell.borrow_mut(), lines);
            (tt, TVal::Str(s))
        }
        _ => (tt, x),
    });
    *rng = cell.into_inner();
    if !distinct_key_scalars(&t, &v) || !tygen::keys_distinct(&t, &v) {
        return None;
    }
    let sites = deco::sites(&t, &v);
    let mut decs = Decs::default();
    let n = *rng.pick(&[1usize, 1, 2, 2, 3, 4, 6]);
    for _ in 0..n {
        let s = rng.pick(&sites);
        if decs.0.contains_key(&s.path) {
            continue;
        }
        decs.0.insert(s.path.clone(), applicable(s, rng, atoms));
    }
    let o = random_opt(rng);
    let mut c = Case { ty: t, v, decs, o };
    make_tolerances_unambiguous(&mut c);
    Some(c)
}

fn main() {
    let run = Run::from_args("C20");
    if let Some(rep) = run.is_replay() {
        let cj = &rep["case"];
        if cj["part"].as_str() == Some("derived") {
            derived::replay(&run, cj);
            run.finish(Finish::new("replay"));
        }
        let ty = Ty::from_json(&cj["ty"]);
        let v: Option<TVal> = cj["v"].as_str().and_then(|s| serde_json::from_str(s).ok());
        let (Some(ty), Some(v)) = (ty, v) else {
            eprintln!("harness error: replay file has no usable ty/v");
            std::process::exit(2);
        };
        let c = Case { ty, v, decs: Decs::from_json(&cj["decorations"]), o: Opt::from_json(&cj["opt"]) };
        judge(&run, &c, "replay");
        flush_local(&run);
        run.finish(Finish::new("replay"));
    }
    let tier = run.tier;
    let atoms = comment_atoms();
    let lines = content_lines();

    // ---- part A (systematic): wrapper stacks (depth 1..3) at every position of every small tree
    let g = TyGrammar::full();
    let only_derived = std::env::var_os("C20_ONLY_DERIVED").is_some();
    let small2: Vec<(Ty, TVal)> = if only_derived { Vec::new() } else { ty::small_pairs(2, &g, 8) };
    let small3: Vec<(Ty, TVal)> =
        if only_derived { Vec::new() } else { ty::small_pairs(3, &g, tier.pick(4, 8)).into_iter().filter(|(t, _)| t.node_count() == 3).collect() };
    // thorough: one node more (2 values per type), single wrappers only
    let small4: Vec<(Ty, TVal)> =
        if only_derived || tier == Tier::Quick { Vec::new() } else { ty::small_pairs(4, &g, 2).into_iter().filter(|(t, _)| t.node_count() == 4).collect() };
    run.count("systematic/host_pairs_4_nodes", small4.len() as u64);
    run.count("systematic/host_pairs_le_2_nodes", small2.len() as u64);
    run.count("systematic/host_pairs_3_nodes", small3.len() as u64);
    let full_grid: Vec<Opt> = {
        let mut v = Vec::new();
        for indent in [2usize, 1, 4] {
            for bits in 0..128u8 {
                v.push(Opt::from_bits(bits, indent));
            }
        }
        v
    };
    let grid48: Vec<Opt> = {
        let mut v = Vec::new();
        for indent in [2usize, 1, 4] {
            for b in [0u8, 0x7f, 0x55, 0x2a, 0x33, 0x4c, 0x0f, 0x70, 0x01, 0x02, 0x04, 0x08, 0x10, 0x20, 0x40, 0x3f] {
                v.push(Opt::from_bits(b, indent));
            }
        }
        v
    };
    // corners of the two numeric thresholds (and further indent steps)
    let corner_opts: Vec<Opt> = {
        let d = Opt::default();
        let mut v = vec![d];
        for mf in [0usize, 1, 8, 1000] {
            for wrap in [0usize, 1, 8, 20] {
                v.push(Opt { min_fold_chars: mf, folded_wrap_chars: wrap, ..d });
            }
        }
        for indent in [3usize, 5, 8] {
            v.push(Opt { indent, ..d });
            v.push(Opt { indent, compact_list_indent: true, prefer_block_scalars: false, ..d });
        }
        v.push(Opt { quote_all: true, ..d });
        v.push(Opt { tagged_enums: true, empty_as_braces: false, folded_wrap_chars: 8, ..d });
        v
    };
    let sys_comments = ["note", "x\ry: 1", "a\nb # c: d", "\u{2028}- z\u{85}w", "--- ]}"];
    let note = || Wrap::Commented("note".into());
    // (single-wrapper stacks, deeper stacks) of a site
    let stacks_for = |s: &deco::Site| -> (Vec<Vec<Wrap>>, Vec<Vec<Wrap>>) {
        let mut single: Vec<Vec<Wrap>> = vec![vec![Wrap::SpaceAfter], vec![note()]];
        let mut deep: Vec<Vec<Wrap>> = vec![
            vec![Wrap::SpaceAfter, note()],
            vec![note(), Wrap::SpaceAfter],
            vec![Wrap::SpaceAfter, Wrap::SpaceAfter, note()],
            vec![note(), Wrap::Commented("second".into()), Wrap::SpaceAfter],
        ];
        for cm in &sys_comments[1..] {
            deep.push(vec![Wrap::Commented(cm.to_string())]);
        }
        match s.kind {
            "seq" | "seq-empty" | "tuple" => {
                single.push(vec![Wrap::FlowSeq]);
                deep.push(vec![note(), Wrap::FlowSeq]);
                deep.push(vec![Wrap::SpaceAfter, Wrap::FlowSeq]);
                deep.push(vec![Wrap::SpaceAfter, note(), Wrap::FlowSeq]);
                deep.push(vec![Wrap::FlowSeq, Wrap::SpaceAfter, note()]);
            }
            "map" | "map-empty" | "struct" => {
                single.push(vec![Wrap::FlowMap]);
                deep.push(vec![note(), Wrap::FlowMap]);
                deep.push(vec![Wrap::SpaceAfter, Wrap::FlowMap]);
                deep.push(vec![note(), Wrap::SpaceAfter, Wrap::FlowMap]);
                deep.push(vec![Wrap::FlowMap, note(), Wrap::SpaceAfter]);
            }
            _ => {}
        }
        if s.text.is_some() {
            for w in [Wrap::Lit, Wrap::LitOwned, Wrap::Fold, Wrap::FoldOwned] {
                single.push(vec![w.clone()]);
                deep.push(vec![Wrap::SpaceAfter, w.clone()]);
                deep.push(vec![note(), w.clone()]);
                deep.push(vec![Wrap::SpaceAfter, note(), w.clone()]);
                deep.push(vec![note(), Wrap::SpaceAfter, w]);
            }
        }
        (single, deep)
    };
    let run_stack = |t: &Ty, v: &TVal, s: &deco::Site, st: &Vec<Wrap>, grid: &[Opt], sample_key: usize| {
        for (j, o) in grid.iter().enumerate() {
            let mut decs = Decs::default();
            decs.0.insert(s.path.clone(), st.clone());
            let mut c = Case { ty: t.clone(), v: v.clone(), decs, o: *o };
            make_tolerances_unambiguous(&mut c);
            if c.decs.count() == 0 {
                continue;
            }
            if j == 0 {
                run.observe("wrapper_positions(kind/in-key/wrappers)", &format!("{}/{}/{}", s.kind, s.in_key, st.iter().map(|w| w.name()).collect::<Vec<_>>().join(">")));
            }
            judge(&run, &c, "systematic");
            if (sample_key + j) % 49999 == 0 {
                run.sample(|| {
                    let mut cj = c.to_json("systematic");
                    cj["emitted"] = json!(tygen::emit(&DSer::root(&c.ty, &c.v, &c.decs), &c.o).ok());
                    cj
                });
            }
        }
    };
    // every position decorated at once: Commented on every scalar, SpaceAfter on every node, both
    let run_all_positions = |t: &Ty, v: &TVal, grid: &[Opt]| {
        let sites = deco::sites(t, v);
        let scalar = |s: &deco::Site| deco::node_at(t, v, &s.path).map(|(ct, cv)| deco::child_steps(ct, cv).is_empty()).unwrap_or(false);
        let plans: Vec<Vec<(Path, Vec<Wrap>)>> = vec![
            sites.iter().filter(|s| scalar(s)).map(|s| (s.path.clone(), vec![note()])).collect(),
            sites.iter().map(|s| (s.path.clone(), vec![Wrap::SpaceAfter])).collect(),
            sites.iter().map(|s| (s.path.clone(), if scalar(s) { vec![Wrap::SpaceAfter, note()] } else { vec![Wrap::SpaceAfter] })).collect(),
            sites.iter().filter(|s| !s.in_key).map(|s| (s.path.clone(), if scalar(s) { vec![note(), Wrap::SpaceAfter] } else { vec![note()] })).collect(),
        ];
        for plan in plans {
            if plan.is_empty() {
                continue;
            }
            for o in grid {
                let mut decs = Decs::default();
                for (p, ws) in &plan {
                    decs.0.insert(p.clone(), ws.clone());
                }
                let c = Case { ty: t.clone(), v: v.clone(), decs, o: *o };
                judge(&run, &c, "all-positions");
                lcount("all_positions/cases", 1);
            }
        }
    };
    // <= 2 type nodes: single stacks and all-positions plans under the full grid, deeper stacks under 48 + corners
    par_range(small2.len(), |i| {
        let (t, v) = &small2[i];
        for s in &deco::sites(t, v) {
            let (single, deep) = stacks_for(s);
            for (k, st) in single.iter().enumerate() {
                run_stack(t, v, s, st, &full_grid, i * 31 + k);
                run_stack(t, v, s, st, &corner_opts, i * 17 + k);
            }
            for (k, st) in deep.iter().enumerate() {
                run_stack(t, v, s, st, &grid48, i * 13 + k);
                run_stack(t, v, s, st, &corner_opts, i * 11 + k);
            }
        }
        run_all_positions(t, v, &full_grid);
        run_all_positions(t, v, &corner_opts);
        flush_local(&run);
    });
    // 3 type nodes: quick = corners for every stack; thorough = full grid for single stacks and
    // all-positions plans, 48 + corners for the deeper stacks
    par_range(small3.len(), |i| {
        let (t, v) = &small3[i];
        for s in &deco::sites(t, v) {
            let (single, deep) = stacks_for(s);
            for (k, st) in single.iter().enumerate() {
                if tier == Tier::Thorough {
                    run_stack(t, v, s, st, &full_grid, i * 31 + k);
                }
                if tier == Tier::Quick {
                    run_stack(t, v, s, st, &grid48, i * 31 + k);
                }
                run_stack(t, v, s, st, &corner_opts, i * 17 + k);
            }
            for (k, st) in deep.iter().enumerate() {
                if tier == Tier::Thorough {
                    run_stack(t, v, s, st, &grid48, i * 13 + k);
                    run_stack(t, v, s, st, &corner_opts[..9], i * 11 + k);
                } else {
                    run_stack(t, v, s, st, &corner_opts[..9], i * 11 + k);
                }
            }
        }
        if tier == Tier::Thorough {
            run_all_positions(t, v, &full_grid);
        } else {
            run_all_positions(t, v, &grid48);
        }
        flush_local(&run);
    });

    par_range(small4.len(), |i| {
        let (t, v) = &small4[i];
        for s in &deco::sites(t, v) {
            let (single, _) = stacks_for(s);
            for (k, st) in single.iter().enumerate() {
                run_stack(t, v, s, st, &grid48, i * 31 + k);
            }
        }
        run_all_positions(t, v, &grid48[..16]);
        flush_local(&run);
    });

    // ---- part A2: control characters in comments, at the start / middle / end of the text, on the
    // first / middle / last sibling of a sequence, a struct and a map (what follows the comment matters)
    {
        let controls: Vec<String> = {
            let mut v: Vec<String> = ["\0", "\u{1b}", "\u{7}", "\u{8}", "\u{b}", "\u{c}", "\u{7f}", "\u{80}", "\u{85}", "\u{9b}", "\u{9f}", "\u{feff}", "\r", "\u{2028}"]
                .iter()
                .map(|s| s.to_string())
                .collect();
            for c in 0x80u32..=0x9f {
                v.push(char::from_u32(c).unwrap().to_string());
            }
            v.push("\0\u{1b}[0m\u{9b}".into());
            v.push("\u{feff}\u{7f}\0".into());
            v
        };
        let hosts: Vec<(Ty, TVal)> = vec![
            (Ty::seq(Ty::I32), TVal::Seq(vec![TVal::I(5), TVal::I(6), TVal::I(7)])),
            (Ty::strukt(1, vec![Ty::I32, Ty::Str, Ty::Bool], false), TVal::Struct(vec![TVal::I(5), TVal::Str("six".into()), TVal::Bool(true)])),
            (Ty::map(Ty::Str, Ty::I32), TVal::Map(vec![(TVal::Str("a".into()), TVal::I(5)), (TVal::Str("b".into()), TVal::I(6)), (TVal::Str("c".into()), TVal::I(7))])),
            (Ty::seq(Ty::seq(Ty::I32)), TVal::Seq(vec![TVal::Seq(vec![TVal::I(5), TVal::I(6)]), TVal::Seq(vec![TVal::I(7)])])),
            (Ty::I32, TVal::I(5)),
        ];
        let a2_opts = [Opt::default(), Opt { indent: 4, quote_all: true, ..Opt::default() }];
        par_range(controls.len(), |i| {
            let ctl = &controls[i];
            for (t, v) in &hosts {
                let leaf_sites: Vec<deco::Site> = deco::sites(t, v).into_iter().filter(|s| !s.in_key && deco::child_steps(t, v).is_empty() == s.path.is_empty() && !matches!(s.kind, "seq" | "struct" | "map")).collect();
                for text in [format!("{ctl}tail"), format!("head{ctl}tail"), format!("head{ctl}"), ctl.clone()] {
                    // one commented sibling at a time, and all siblings at once
                    let mut plans: Vec<Vec<&deco::Site>> = leaf_sites.iter().map(|s| vec![s]).collect();
                    plans.push(leaf_sites.iter().collect());
                    for plan in plans {
                        for o in &a2_opts {
                            let mut decs = Decs::default();
                            for s in &plan {
                                decs.0.insert(s.path.clone(), vec![Wrap::Commented(text.clone())]);
                            }
                            let c = Case { ty: t.clone(), v: v.clone(), decs, o: *o };
                            judge(&run, &c, "comment-controls");
                            lcount("comment_controls/cases", 1);
                        }
                    }
                }
            }
            flush_local(&run);
        });
    }

    // ---- part A3: SpaceAfter (alone and around the block-string wrappers) on strings that end in
    // kept line breaks, in every sibling position of small hosts
    {
        let texts = ["\n\n", "\n\n\n", "\n", "", "x\n\n", "x\n\n\n", " lead\nx\n\n", "a\nb\n", "a\n\nb\n\n"];
        let stacks: Vec<Vec<Wrap>> = vec![
            vec![Wrap::SpaceAfter],
            vec![Wrap::SpaceAfter, Wrap::Lit],
            vec![Wrap::SpaceAfter, Wrap::LitOwned],
            vec![Wrap::SpaceAfter, Wrap::Fold],
            vec![Wrap::Commented("note".into()), Wrap::SpaceAfter, Wrap::Lit],
            vec![Wrap::SpaceAfter, Wrap::Commented("note".into()), Wrap::LitOwned],
        ];
        let a3_opts = [Opt::default(), Opt { indent: 4, ..Opt::default() }, Opt { indent: 1, compact_list_indent: true, ..Opt::default() }, Opt { prefer_block_scalars: false, ..Opt::default() }];
        par_range(texts.len(), |i| {
            let t0 = TVal::Str(texts[i].to_string());
            let other = |n: &str| TVal::Str(n.to_string());
            let mut hosts: Vec<(Ty, TVal, Path)> = vec![(Ty::Str, t0.clone(), vec![])];
            for pos in 0..3usize {
                let mut xs = vec![other("first"), other("mid"), other("last")];
                xs[pos] = t0.clone();
                hosts.push((Ty::seq(Ty::Str), TVal::Seq(xs.clone()), vec![pos as u16]));
                hosts.push((Ty::strukt(1, vec![Ty::Str, Ty::Str, Ty::Str], false), TVal::Struct(xs.clone()), vec![pos as u16]));
                let ps: Vec<(TVal, TVal)> = xs.iter().enumerate().map(|(j, x)| (TVal::Str(format!("k{j}")), x.clone())).collect();
                hosts.push((Ty::map(Ty::Str, Ty::Str), TVal::Map(ps), vec![2 * pos as u16 + 1]));
                hosts.push((Ty::seq(Ty::seq(Ty::Str)), TVal::Seq(vec![TVal::Seq(xs.clone()), TVal::Seq(vec![other("z")])]), vec![0, pos as u16]));
                hosts.push((
                    Ty::enumeration(1, 0, vec![vcore::ty::VariantTy::Unit, vcore::ty::VariantTy::Newtype(Ty::seq(Ty::Str))]),
                    TVal::variant(1, TVal::Seq(xs)),
                    vec![0, pos as u16],
                ));
            }
            for (t, v, path) in &hosts {
                for st in &stacks {
                    for o in &a3_opts {
                        let mut decs = Decs::default();
                        decs.0.insert(path.clone(), st.clone());
                        let mut c = Case { ty: t.clone(), v: v.clone(), decs, o: *o };
                        make_tolerances_unambiguous(&mut c);
                        if c.decs.count() == 0 {
                            continue;
                        }
                        judge(&run, &c, "space-after-block-strings");
                        lcount("space_after_block_strings/cases", 1);
                    }
                }
            }
            flush_local(&run);
        });
    }

    // ---- part B (options only): R1 on every small tree under all option vectors of C13's cube
    {
        let small2: Vec<(Ty, TVal)> = if only_derived { Vec::new() } else { ty::small_pairs(2, &g, 8) };
        par_range(small2.len(), |i| {
            let (t, v) = &small2[i];
            for indent in [2usize, 1, 4] {
                for bits in 0..64u8 {
                    let c = Case { ty: t.clone(), v: v.clone(), decs: Decs::default(), o: Opt::from_bits(bits, indent) };
                    judge(&run, &c, "options-only");
                }
            }
            flush_local(&run);
        });
    }

    // ---- part C: random decorated trees
    let n_random = if only_derived { 0 } else { std::env::var("C20_RANDOM").ok().and_then(|s| s.parse().ok()).unwrap_or(tier.pick(500_000usize, 10_000_000)) };
    par_range(n_random, |i| {
        let mut rng = Rng::stream(run.seed, i as u64);
        let Some(c) = random_case(&mut rng, &atoms, &lines) else {
            lcount("random/skipped-keys-with-equal-scalars", 1);
            return;
        };
        if c.decs.count() == 0 {
            return;
        }
        if i % 16 == 0 {
            let sites = deco::sites(&c.ty, &c.v);
            for (p, ws) in &c.decs.0 {
                if let Some(s) = sites.iter().find(|s| &s.path == p) {
                    run.observe("wrapper_positions(kind/in-key/wrappers)", &format!("{}/{}/{}", s.kind, s.in_key, ws.iter().map(|w| w.name()).collect::<Vec<_>>().join(">")));
                }
            }
        }
        judge(&run, &c, "random");
        if i % 9973 == 0 {
            run.sample(|| {
                let mut cj = c.to_json("random");
                cj["v"] = json!(format!("{:?}", c.v).chars().take(400).collect::<String>());
                cj["emitted"] = json!(tygen::emit(&DSer::root(&c.ty, &c.v, &c.decs), &c.o).ok().map(|t| t.chars().take(600).collect::<String>()));
                cj
            });
        }
        if i % 256 == 0 {
            flush_local(&run);
        }
    });

    // ---- part D: derived structs with wrapper fields
    let n_derived = tier.pick(20_000usize, 300_000);
    par_range(n_derived, |i| {
        let mut rng = Rng::stream(run.seed ^ 0xd0c, i as u64);
        derived::check(&run, &mut rng, &atoms, &lines, i);
    });

    par_range(vcore::run::threads() * 4, |_| flush_local(&run));
    flush_local(&run);

    if std::env::var_os("VERIF_EXPLORE").is_some() {
        let e = EXPLORE.lock().unwrap();
        for (k, (n, ex)) in e.iter() {
            eprintln!("{n:>8}  {k}\n      {ex}");
        }
        eprintln!("distinct (signature, minimal case) pairs: {}", e.len());
    }

    let fin = Finish::new(
        "a case (type, value, wrappers at node paths, option vector) is non-trivial when it was judged (held) and has >= 1 wrapper on a non-root node or an option that differs from the default; distinct by hash(type, value, decorations, options)",
    )
    .exhaustive(
        "systematic parts: (A) every (type, value) of the C13 shape grammar with <= 2 type nodes (8 values per type) x every node position (incl. keys, inside composite keys, variant payloads, values under composite keys) x every applicable single wrapper (SpaceAfter, Commented, FlowSeq/FlowMap, LitStr, LitString, FoldStr, FoldString) x [all 2^7 booleans x indent {2,1,4} = 384 vectors + 25 corner vectors (min_fold_chars {0,1,8,1000} x folded_wrap_chars {0,1,8,20}, indent {3,5,8}, quote_all, tagged+no-braces)], x 13..21 deeper stacks of depth 2..3 (SpaceAfter/Commented/Flow*/block-string orders, 4 hostile comment texts) x [48 + 25 vectors], and 4 all-positions plans (Commented on every scalar, SpaceAfter on every node, both in either order) x [384 + 25]; the same for 3 type nodes (4 values per type, thorough 8): thorough = single stacks and all-positions x 384 (+25 corners), deeper stacks x (48 + 9 corners); thorough only: 4 type nodes (2 values per type) x single wrappers x 48, all-positions x 16; quick = single stacks x (48 + 25), deeper stacks x 9 corner vectors, all-positions x 48; (A2) 48 control-character comment texts x 4 placements x first/middle/last/all siblings of 5 hosts x 2 vectors; (A3) SpaceAfter stacks on 9 strings ending in kept breaks x 19 hosts x 4 vectors; (B) options-only relation on all pairs with <= 2 type nodes x 2^6 booleans x indent {2,1,4}",
    )
    .assume("the bare value under the same options must pass the C13 oracle, otherwise no verdict here (C13 reports it)")
    .assume("documented lossy behaviour is unspecified: folded interior line breaks, clip-chomping of several trailing breaks under FoldStr/FoldString (SpaceAfter around LitStr/LitString is judged strictly: the emitter suppresses the blank line after a keep-chomped scalar)")
    .assume("a complex key inside a flow collection is rejected by the serializer (`non-scalar key`): no verdict")
    .assume("a fold wrapper that really folds a string inside a `? ` key changes the key as documented (and may make keys equal): no verdict")
    .min_nontrivial(tier.pick(100_000, 1_000_000));
    run.finish(fin);
}
