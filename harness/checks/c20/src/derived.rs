//! Derived structs whose fields are the library's wrapper types, against a mirror struct with
//! plain fields: the wrapped document must be one document, read back into the wrapped struct and
//! into the plain struct with the bare values, and read untyped like the plain struct's document.

use serde::{Deserialize, Serialize};
use serde_json::{Value, json};
use serde_saphyr::{Commented, FlowMap, FlowSeq, FoldString, LitString, SpaceAfter};
use std::collections::BTreeMap;
use vcore::Val;
use vcore::rng::{Rng, fnv};
use vcore::run::Run;
use vcore::tygen::{self, Opt};

#[derive(Serialize, Deserialize, Debug, Clone, PartialEq)]
struct Inner {
    name: Commented<String>,
    vals: FlowSeq<Vec<SpaceAfter<i32>>>,
    text: SpaceAfter<FoldString>,
    lit: Commented<LitString>,
}

#[derive(Serialize, Deserialize, Debug, Clone, PartialEq)]
struct Doc {
    title: Commented<String>,
    ports: FlowSeq<Vec<u16>>,
    env: FlowMap<BTreeMap<String, String>>,
    note: LitString,
    summary: FoldString,
    sep: SpaceAfter<i32>,
    items: Vec<Commented<i64>>,
    nested: SpaceAfter<Commented<FlowSeq<Vec<FlowMap<BTreeMap<String, i32>>>>>>,
    tail: Option<SpaceAfter<String>>,
    pairs: Vec<Inner>,
    last: Commented<bool>,
}

#[derive(Serialize, Deserialize, Debug, Clone, PartialEq)]
struct InnerBare {
    name: String,
    vals: Vec<i32>,
    text: String,
    lit: String,
}

#[derive(Serialize, Deserialize, Debug, Clone, PartialEq)]
struct DocBare {
    title: String,
    ports: Vec<u16>,
    env: BTreeMap<String, String>,
    note: String,
    summary: String,
    sep: i32,
    items: Vec<i64>,
    nested: Vec<BTreeMap<String, i32>>,
    tail: Option<String>,
    pairs: Vec<InnerBare>,
    last: bool,
}

impl Doc {
    fn bare(&self) -> DocBare {
        DocBare {
            title: self.title.0.clone(),
            ports: self.ports.0.clone(),
            env: self.env.0.clone(),
            note: self.note.0.clone(),
            summary: self.summary.0.clone(),
            sep: self.sep.0,
            items: self.items.iter().map(|c| c.0).collect(),
            nested: self.nested.0.0.0.iter().map(|m| m.0.clone()).collect(),
            tail: self.tail.as_ref().map(|s| s.0.clone()),
            pairs: self
                .pairs
                .iter()
                .map(|p| InnerBare { name: p.name.0.clone(), vals: p.vals.0.iter().map(|x| x.0).collect(), text: p.text.0.0.clone(), lit: p.lit.0.0.clone() })
                .collect(),
            last: self.last.0,
        }
    }
    /// Comments in a fixed order (title, items.., nested, (name, lit) of each pair, last).
    fn comments(&self) -> Vec<String> {
        let mut v = vec![self.title.1.clone()];
        v.extend(self.items.iter().map(|c| c.1.clone()));
        v.push(self.nested.0.1.clone());
        for p in &self.pairs {
            v.push(p.name.1.clone());
            v.push(p.lit.1.clone());
        }
        v.push(self.last.1.clone());
        v
    }
    fn from_spec(b: &DocBare, comments: &[String]) -> Doc {
        let mut it = comments.iter().cloned();
        let mut next = || it.next().unwrap_or_default();
        let title = Commented(b.title.clone(), next());
        let items = b.items.iter().map(|x| Commented(*x, next())).collect();
        let nested = SpaceAfter(Commented(FlowSeq(b.nested.iter().map(|m| FlowMap(m.clone())).collect()), next()));
        let pairs = b
            .pairs
            .iter()
            .map(|p| Inner {
                name: Commented(p.name.clone(), next()),
                vals: FlowSeq(p.vals.iter().map(|x| SpaceAfter(*x)).collect()),
                text: SpaceAfter(FoldString(p.text.clone())),
                lit: Commented(LitString(p.lit.clone()), next()),
            })
            .collect();
        Doc {
            title,
            ports: FlowSeq(b.ports.clone()),
            env: FlowMap(b.env.clone()),
            note: LitString(b.note.clone()),
            summary: FoldString(b.summary.clone()),
            sep: SpaceAfter(b.sep),
            items,
            nested,
            tail: b.tail.clone().map(SpaceAfter),
            pairs,
            last: Commented(b.last, next()),
        }
    }
    /// Contents of the fields under a block-string wrapper.
    fn map_block_strings(&mut self, f: &dyn Fn(&str) -> String) {
        self.note.0 = f(&self.note.0);
        self.summary.0 = f(&self.summary.0);
        for p in &mut self.pairs {
            p.text.0.0 = f(&p.text.0.0);
            p.lit.0.0 = f(&p.lit.0.0);
        }
    }
    fn map_comments(&mut self, f: &dyn Fn(&str) -> String) {
        self.title.1 = f(&self.title.1);
        for i in &mut self.items {
            i.1 = f(&i.1);
        }
        self.nested.0.1 = f(&self.nested.0.1);
        for p in &mut self.pairs {
            p.name.1 = f(&p.name.1);
            p.lit.1 = f(&p.lit.1);
        }
        self.last.1 = f(&self.last.1);
    }
}

fn simple_word(rng: &mut Rng) -> String {
    rng.pick(&["alpha", "beta gamma", "x: y", "null", "", "#hash", "12", "é✓", "- dash"]).to_string()
}

fn gen_doc(rng: &mut Rng, atoms: &[(&'static str, String)], lines: &[String], uniq: &mut u32) -> Doc {
    let comment = |rng: &mut Rng| {
        if rng.chance(1, 3) {
            String::new()
        } else {
            let n = rng.range(1, 3);
            (0..n).map(|_| rng.pick(atoms).1.clone()).collect::<Vec<_>>().join(" ")
        }
    };
    let content = |rng: &mut Rng| {
        let n = rng.range(1, 3);
        let mut s = (0..n).map(|_| rng.pick(lines).clone()).collect::<Vec<_>>().join("\n");
        for _ in 0..*rng.pick(&[0usize, 0, 1, 2, 3]) {
            s.push('\n');
        }
        s
    };
    // fold contents are made unique (tolerances are looked up by content)
    let mut fold_content = |rng: &mut Rng| {
        *uniq += 1;
        let body = if rng.bool() { rng.pick(lines).clone() } else { format!("{}\n{}", rng.pick(lines), rng.pick(lines)) };
        let mut s = format!("{body} u{uniq}");
        for _ in 0..*rng.pick(&[0usize, 0, 1, 2]) {
            s.push('\n');
        }
        s
    };
    let mut env = BTreeMap::new();
    for _ in 0..rng.below(3) {
        env.insert(format!("K{}", rng.below(50)), simple_word(rng));
    }
    let mut nested = Vec::new();
    for _ in 0..rng.below(3) {
        let mut m = BTreeMap::new();
        for _ in 0..rng.below(3) {
            m.insert(format!("n{}", rng.below(9)), rng.below(100) as i32 - 50);
        }
        nested.push(FlowMap(m));
    }
    let mut pairs = Vec::new();
    for _ in 0..rng.below(3) {
        pairs.push(Inner {
            name: Commented(simple_word(rng), comment(rng)),
            vals: FlowSeq((0..rng.below(4)).map(|_| SpaceAfter(rng.below(9) as i32)).collect()),
            text: SpaceAfter(FoldString(fold_content(rng))),
            lit: Commented(LitString(content(rng)), comment(rng)),
        });
    }
    Doc {
        title: Commented(simple_word(rng), comment(rng)),
        ports: FlowSeq((0..rng.below(4)).map(|_| rng.below(65536) as u16).collect()),
        env: FlowMap(env),
        note: LitString(content(rng)),
        summary: FoldString(fold_content(rng)),
        sep: SpaceAfter(rng.below(1000) as i32 - 500),
        items: (0..rng.below(4)).map(|_| Commented(rng.below(100) as i64 - 50, comment(rng))).collect(),
        nested: SpaceAfter(Commented(FlowSeq(nested), comment(rng))),
        tail: if rng.chance(2, 3) { Some(SpaceAfter(if rng.bool() { simple_word(rng) } else { content(rng) })) } else { None },
        pairs,
        last: Commented(rng.bool(), comment(rng)),
    }
}

fn strip1(s: &str) -> &str {
    s.strip_suffix('\n').unwrap_or(s)
}
fn collapse(s: &str) -> String {
    s.split([' ', '\n']).filter(|p| !p.is_empty()).collect::<Vec<_>>().join(" ")
}

/// 0 exact, 1 modulo one trailing break, 2 unspecified (documented lossy): weak relation only
fn fold_tolerance(text: &str, o: &Opt) -> u8 {
    let folded = text.contains('\n') || text.len() >= o.min_fold_chars;
    if !folded {
        return 0;
    }
    let body = text.trim_end_matches('\n');
    if body.contains('\n') || text.len() - body.len() >= 2 { 2 } else { 1 }
}

fn str_ok(expected: &str, actual: &str, folds: &[String], o: &Opt) -> bool {
    if expected == actual {
        return true;
    }
    if !folds.iter().any(|f| f == expected) {
        return false;
    }
    match fold_tolerance(expected, o) {
        0 => false,
        1 => strip1(expected) == strip1(actual),
        _ => collapse(expected) == collapse(actual),
    }
}

fn json_ok(e: &Value, a: &Value, folds: &[String], o: &Opt) -> bool {
    match (e, a) {
        (Value::String(x), Value::String(y)) => str_ok(x, y, folds, o),
        (Value::Array(x), Value::Array(y)) => x.len() == y.len() && x.iter().zip(y).all(|(p, q)| json_ok(p, q, folds, o)),
        (Value::Object(x), Value::Object(y)) => x.len() == y.len() && x.iter().all(|(k, p)| y.get(k).map(|q| json_ok(p, q, folds, o)).unwrap_or(false)),
        _ => e == a,
    }
}

fn val_ok(e: &Val, a: &Val, folds: &[String], o: &Opt) -> bool {
    match (e, a) {
        (Val::Str(x), Val::Str(y)) => str_ok(x, y, folds, o),
        (Val::Seq(x), Val::Seq(y)) => x.len() == y.len() && x.iter().zip(y).all(|(p, q)| val_ok(p, q, folds, o)),
        (Val::Map(x), Val::Map(y)) => x.len() == y.len() && x.iter().zip(y).all(|((k1, v1), (k2, v2))| k1 == k2 && val_ok(v1, v2, folds, o)),
        _ => e == a,
    }
}

fn read<T: serde::de::DeserializeOwned>(text: &str) -> Result<T, String> {
    match vcore::obs::catch(|| serde_saphyr::from_str_with_options::<T>(text, tygen::de_options())) {
        Err(p) => Err(format!("panic: {p}")),
        Ok(Err(e)) => Err(e.to_string().lines().next().unwrap_or("").to_string()),
        Ok(Ok(v)) => Ok(v),
    }
}

fn usable(text: &str) -> String {
    if tygen::directive_without_doc_start(text) { tygen::insert_doc_start(text) } else { text.to_string() }
}

/// None = held; Some((effect, detail)); Err = no verdict
fn evaluate(doc: &Doc, o: &Opt) -> Result<Option<(&'static str, String)>, String> {
    let bare = doc.bare();
    let bare_text = match tygen::emit(&bare, o) {
        Ok(t) => usable(&t),
        Err(s) => return Err(format!("bare struct not serializable: {}", s.detail())),
    };
    // the plain struct must itself round-trip (else the shape/content is C12/C13's subject)
    match read::<DocBare>(&bare_text) {
        Ok(b) if b == bare => {}
        Ok(_) => return Err("bare struct does not round-trip (value differs)".into()),
        Err(e) => return Err(format!("bare struct does not round-trip: {}", e.chars().take(60).collect::<String>())),
    }
    let rb: Val = read::<Val>(&bare_text).map_err(|e| format!("bare untyped read: {e}"))?;
    let folds: Vec<String> = std::iter::once(doc.summary.0.clone()).chain(doc.pairs.iter().map(|p| p.text.0.0.clone())).collect();
    let text = match tygen::emit(doc, o) {
        Ok(t) => t,
        Err(tygen::Stage::Panic(p)) => return Ok(Some(("panic", p))),
        Err(s) => return Ok(Some(("serializer-error", s.detail()))),
    };
    let t = usable(&text);
    let mut skipped = false;
    if let Some(st) = tygen::check_one_document(&t, &mut skipped) {
        return Ok(Some((st.kind(), format!("{} | emitted: {:?}", st.detail(), text.chars().take(400).collect::<String>()))));
    }
    let rd = match read::<Val>(&t) {
        Ok(v) => v,
        Err(e) => return Ok(Some(("untyped-read-error", e))),
    };
    if !val_ok(&rb, &rd, &folds, o) {
        return Ok(Some(("untyped-data-differs", format!("bare: {rb} | wrapped: {rd}"))));
    }
    let want = serde_json::to_value(&bare).unwrap_or(Value::Null);
    match read::<DocBare>(&t) {
        Err(e) => return Ok(Some(("typed-read-error", format!("DocBare: {e}")))),
        Ok(b) => {
            let got = serde_json::to_value(&b).unwrap_or(Value::Null);
            if !json_ok(&want, &got, &folds, o) {
                return Ok(Some(("typed-data-differs", format!("plain struct: {got}"))));
            }
        }
    }
    match read::<Doc>(&t) {
        Err(e) => return Ok(Some(("wrapper-type-read-error", format!("Doc: {e}")))),
        Ok(d) => {
            let got = serde_json::to_value(d.bare()).unwrap_or(Value::Null);
            if !json_ok(&want, &got, &folds, o) {
                return Ok(Some(("wrapper-type-read-differs", format!("wrapped struct: {got}"))));
            }
            let comments_empty = d.title.1.is_empty() && d.items.iter().all(|c| c.1.is_empty()) && d.last.1.is_empty();
            if !comments_empty {
                return Ok(Some(("wrapper-type-read-differs", "a comment came back non-empty".into())));
            }
        }
    }
    Ok(None)
}

fn opt_for(rng: &mut Rng) -> Opt {
    if rng.chance(1, 3) {
        return Opt::default();
    }
    let mut bits = rng.below(128) as u8;
    bits &= !1; // empty_as_braces stays on: empty collections would otherwise be unspecified
    let mut o = Opt::from_bits(bits, *rng.pick(&[2usize, 2, 4, 3]));
    if rng.bool() {
        o.min_fold_chars = *rng.pick(&[0usize, 8, 64]);
    }
    if rng.bool() {
        o.folded_wrap_chars = *rng.pick(&[8usize, 20, 40, 200]);
    }
    o
}

fn judge(run: &Run, doc: &Doc, o: &Opt) {
    run.eval();
    match evaluate(doc, o) {
        Err(why) => run.count(&format!("derived/no_verdict/{}", why.chars().take(70).collect::<String>()), 1),
        Ok(None) => {
            run.count("derived/held", 1);
            let h = fnv(format!("{doc:?}").as_bytes()) ^ fnv(&o.hash_bytes());
            run.nontrivial(h);
        }
        Ok(Some((effect, detail))) => {
            // causal attribution by cumulative repairs: the class is the repair after which the case holds
            let holds = |d: &Doc| matches!(evaluate(d, o), Ok(None));
            let mut d = doc.clone();
            let mut sig = None;
            if effect == "panic" {
                sig = Some(format!("C20:panic:{}", vcore::obs::panic_site(&detail)));
            }
            let repairs: [(&str, &dyn Fn(&mut Doc)); 6] = [
                ("C20:comment:cr-injects-content", &|d: &mut Doc| d.map_comments(&|c| c.replace('\r', ""))),
                ("C20:comment:control-char-alters-document", &|d: &mut Doc| {
                    d.map_comments(&|c| c.chars().filter(|ch| !((ch.is_control() && !matches!(ch, '\n' | '\t')) || *ch == '\u{feff}')).collect())
                }),
                ("C20:space-after:string-kept-with-trailing-breaks-gains-a-line-break", &|d: &mut Doc| {
                    if let Some(t) = &mut d.tail {
                        t.0 = t.0.trim_end_matches('\n').to_string();
                    }
                }),
                ("C20:block-string-wrapper:indentation-indicator-in-nested-position", &|d: &mut Doc| {
                    d.map_block_strings(&|s| s.split('\n').map(|l| l.trim_start_matches(' ')).collect::<Vec<_>>().join("\n"))
                }),
                ("C20:block-string-wrapper:single-line-break-only", &|d: &mut Doc| {
                    d.map_block_strings(&|s| if s == "\n" { "x\n".to_string() } else { s.to_string() })
                }),
                ("C20:block-string-wrapper:string-of-line-breaks-only", &|d: &mut Doc| {
                    d.map_block_strings(&|s| if !s.is_empty() && s.chars().all(|c| c == '\n') { format!("x{s}") } else { s.to_string() })
                }),
            ];
            for (name, r) in repairs {
                if sig.is_some() {
                    break;
                }
                let before = d.clone();
                r(&mut d);
                if d != before && holds(&d) {
                    sig = Some(name.to_string());
                }
            }
            let sig = sig.unwrap_or_else(|| format!("C20:derived-struct:{effect}"));
            run.count(&format!("failing_cases/{sig}"), 1);
            run.violation(
                &sig,
                json!({"part": "derived", "bare": serde_json::to_value(doc.bare()).unwrap_or(Value::Null), "comments": doc.comments(), "opt": o.to_json(), "emitted": tygen::emit(doc, o).ok()}),
                format!("{effect}: {}", detail.chars().take(600).collect::<String>()),
            );
        }
    }
}

pub fn check(run: &Run, rng: &mut Rng, atoms: &[(&'static str, String)], lines: &[String], i: usize) {
    let mut uniq = 0u32;
    let doc = gen_doc(rng, atoms, lines, &mut uniq);
    let o = opt_for(rng);
    judge(run, &doc, &o);
    if i % 4999 == 0 {
        run.sample(|| json!({"part": "derived", "emitted": tygen::emit(&doc, &o).ok(), "opt": o.non_default()}));
    }
}

pub fn replay(run: &Run, cj: &Value) {
    let (Ok(bare), Ok(comments)) = (serde_json::from_value::<DocBare>(cj["bare"].clone()), serde_json::from_value::<Vec<String>>(cj["comments"].clone())) else {
        eprintln!("harness error: replay file has no usable doc");
        std::process::exit(2);
    };
    let doc = Doc::from_spec(&bare, &comments);
    let o = Opt::from_json(&cj["opt"]);
    judge(run, &doc, &o);
}
