use vcore::budgetmodel as bm;
use vcore::val::Val;

fn run(doc: &str, b: serde_saphyr::Budget) {
    let (o, got) = bm::options_with(b);
    let r = serde_saphyr::from_str_with_options::<Val>(doc, o);
    let m = bm::model(doc);
    println!("doc={doc:?}\n  -> {:?}\n  report={:?}\n  model={:?}", r.as_ref().map(|v| v.to_string()).map_err(|e| format!("{:?}", e.without_snippet())), got.borrow().last().map(bm::Counts::of_report), m.map(|m| m.all));
}

fn main() {
    let u = bm::unlimited_budget();
    run("a: 1\n", u.clone());
    let mut b = u.clone();
    b.max_events = 7;
    run("a: 1\n", b.clone());
    b.max_events = 5;
    run("a: 1\n", b.clone());
    run("x: &x 1\nm: &m {k: 2}\nt: {a: *x, <<: *m}\n", u.clone());
    run("x: &x 1\nm: &m {k: 2}\nt: {<<: *m, a: *x}\n", u.clone());
    run("x: &x 1\nt: {a: *x, b: <<}\n", u.clone());
    let mut b = u.clone();
    b.enforce_alias_anchor_ratio = true;
    b.alias_anchor_min_aliases = 0;
    b.alias_anchor_ratio_multiplier = 10;
    run("a: 1\n", b.clone());
    // per doc
    let mut b = u.clone();
    b.max_anchors = 1;
    let (o, _got) = bm::options_with(b);
    let txt = "&a 1\n---\n&a 2\n---\n&b 3\n";
    let mut rd = txt.as_bytes();
    for it in serde_saphyr::read_with_options::<_, Val>(&mut rd, o) {
        println!("item {:?}", it.map(|v| v.to_string()).map_err(|e| format!("{:?}", e.without_snippet())));
    }
}
