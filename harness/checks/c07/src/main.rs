//! C07 — budget limits are enforced exactly and the usage report is accurate.
//!
//! Reference model: `vcore::budgetmodel` (an independent fold over the raw
//! parser events, aliases followed by the reference expansion of their anchor).
//! A verdict is only given when the model agrees with the hook trace on every
//! quantity the trace can show (pumps by source, replayed events, nodes, depth,
//! scalar bytes, alias pushes, document resets); otherwise the case is
//! inconclusive.
//!
//! Oracles
//!  1. report accuracy: all limits off, the `BudgetReport` handed to
//!     `with_budget_report` equals the independent count field by field;
//!  2. threshold exactness, one counter at a time: limit = U ⇒ Ok (same value),
//!     limit = U−1 ⇒ `Error::Budget` with the breach variant of that counter
//!     (events additionally U−2 on the single-document entry points);
//!  3. alias/anchor ratio heuristic against its documented formula;
//!  4. per-document independence (`read_with_options`): the items of a stream are
//!     the concatenation of the items of its documents read alone (up to the
//!     first error), under every permutation tried, and follow the per-document
//!     model counts;
//!  5. `budget::check_yaml_budget` on alias-free inputs: report = model, breach
//!     exactly at U−1.
//!
//! A budget error raised while an alias is being replayed reaches the caller as
//! `Error::AliasError { msg = rendering of the budget error }`; it is accepted as
//! the matching budget error (`budgetmodel::effective_kind`) and counted.
//! Reproductions of the defects found on the pinned tree and the minimal fixes
//! that silence them: `checks/c07/repro/`.

use serde_json::{Value, json};
use std::collections::BTreeMap;
use vcore::budgetmodel::{self as bm, Counts, FIELDS, MonLimits, StreamModel};
use vcore::reftree::{self, render_checked};
use vcore::rng::{Rng, fnv_parts};
use vcore::run::{Finish, Run, Tier, par_range};
use vcore::treegen::{self, LEAVES_BASIC};
use vcore::val::Val;
use vcore::ydoc::{self, Node, RenderOpts};

// ------------------------------------------------------------------ running the real code

#[derive(Clone, Copy, Debug, PartialEq, Eq)]
enum Entry {
    Str,
    Reader,
    Multi,
}

impl Entry {
    fn name(self) -> &'static str {
        match self {
            Entry::Str => "from_str_with_options",
            Entry::Reader => "from_reader_with_options",
            Entry::Multi => "from_multiple_with_options",
        }
    }
    fn of(s: &str) -> Entry {
        match s {
            "from_reader_with_options" => Entry::Reader,
            "from_multiple_with_options" => Entry::Multi,
            _ => Entry::Str,
        }
    }
    fn single_document(self) -> bool {
        !matches!(self, Entry::Multi)
    }
}

/// Ok(value rendering) or Err(kind, budget field if `Error::Budget`).
type Out = Result<String, (String, Option<&'static str>)>;

fn to_out<T: std::fmt::Display>(r: Result<T, serde_saphyr::Error>) -> Out {
    match r {
        Ok(v) => Ok(v.to_string()),
        Err(e) => {
            let k = bm::effective_kind(&e);
            if !k.wrapped && (k.kind == "Message" || k.kind == "AliasError") && e.to_string().contains(POISON) {
                return Err(("Poison".to_string(), None));
            }
            if k.wrapped {
                WRAPPED.fetch_add(1, std::sync::atomic::Ordering::Relaxed);
            }
            Err((k.kind, k.budget_field))
        }
    }
}

/// `Run::violation` with a cap per signature (its bookkeeping is quadratic in the number of unlisted
/// violations); everything beyond the cap is only counted.
fn violation(run: &Run, sig: &str, case: Value, detail: impl Into<String>) {
    static SEEN: std::sync::Mutex<Option<std::collections::HashMap<String, u64>>> = std::sync::Mutex::new(None);
    let n = {
        let mut g = SEEN.lock().unwrap();
        let m = g.get_or_insert_with(Default::default);
        let e = m.entry(sig.to_string()).or_insert(0);
        *e += 1;
        *e
    };
    if n <= 300 {
        run.violation(sig, case, detail);
    } else {
        run.count(&format!("violations_beyond_cap/{sig}"), 1);
    }
}

/// Scalar text at which the `PVal` target fails with a custom (type-level) error while armed.
const POISON: &str = "POISON-VALUE";
thread_local! {
    static ARMED: std::cell::Cell<bool> = const { std::cell::Cell::new(true) };
}
fn with_armed<T>(armed: bool, f: impl FnOnce() -> T) -> T {
    let was = ARMED.with(|a| a.replace(armed));
    let r = f();
    ARMED.with(|a| a.set(was));
    r
}

/// `Val`, except that (while armed) visiting the string `POISON-VALUE` is a deserialization error —
/// raised from inside whatever containers are open at that point, like a type mismatch in a derived type.
#[derive(Debug, PartialEq)]
struct PVal(Val);
impl std::fmt::Display for PVal {
    fn fmt(&self, f: &mut std::fmt::Formatter<'_>) -> std::fmt::Result {
        self.0.fmt(f)
    }
}
struct PVisitor;
impl<'de> serde::de::Visitor<'de> for PVisitor {
    type Value = PVal;
    fn expecting(&self, f: &mut std::fmt::Formatter) -> std::fmt::Result {
        f.write_str("any YAML value except the poison value")
    }
    fn visit_unit<E>(self) -> Result<PVal, E> {
        Ok(PVal(Val::Null))
    }
    fn visit_none<E>(self) -> Result<PVal, E> {
        Ok(PVal(Val::Null))
    }
    fn visit_some<D: serde::Deserializer<'de>>(self, d: D) -> Result<PVal, D::Error> {
        <PVal as serde::Deserialize>::deserialize(d)
    }
    fn visit_bool<E>(self, v: bool) -> Result<PVal, E> {
        Ok(PVal(Val::Bool(v)))
    }
    fn visit_i64<E>(self, v: i64) -> Result<PVal, E> {
        Ok(PVal(Val::Int(v as i128)))
    }
    fn visit_u64<E>(self, v: u64) -> Result<PVal, E> {
        Ok(PVal(Val::Int(v as i128)))
    }
    fn visit_i128<E>(self, v: i128) -> Result<PVal, E> {
        Ok(PVal(Val::Int(v)))
    }
    fn visit_f64<E>(self, v: f64) -> Result<PVal, E> {
        Ok(PVal(Val::f(v)))
    }
    fn visit_str<E: serde::de::Error>(self, v: &str) -> Result<PVal, E> {
        if v == POISON && ARMED.with(|a| a.get()) {
            return Err(E::custom(format!("{POISON} is not acceptable here")));
        }
        Ok(PVal(Val::Str(v.to_string())))
    }
    fn visit_bytes<E>(self, v: &[u8]) -> Result<PVal, E> {
        Ok(PVal(Val::Bytes(v.to_vec())))
    }
    fn visit_seq<A: serde::de::SeqAccess<'de>>(self, mut a: A) -> Result<PVal, A::Error> {
        let mut v = Vec::new();
        while let Some(x) = a.next_element::<PVal>()? {
            v.push(x.0);
        }
        Ok(PVal(Val::Seq(v)))
    }
    fn visit_map<A: serde::de::MapAccess<'de>>(self, mut a: A) -> Result<PVal, A::Error> {
        let mut v = Vec::new();
        while let Some(k) = a.next_key::<PVal>()? {
            let x = a.next_value::<PVal>()?;
            v.push((k.0, x.0));
        }
        Ok(PVal(Val::Map(v)))
    }
}
impl<'de> serde::Deserialize<'de> for PVal {
    fn deserialize<D: serde::Deserializer<'de>>(d: D) -> Result<PVal, D::Error> {
        d.deserialize_any(PVisitor)
    }
}

/// Budget errors that arrived as `AliasError { msg: <rendering of the budget error> }`
/// (breach during an alias replay); accepted as the matching budget error, counted.
static WRAPPED: std::sync::atomic::AtomicU64 = std::sync::atomic::AtomicU64::new(0);

fn show(o: &Out) -> String {
    match o {
        Ok(v) => format!("Ok({v})"),
        Err((k, Some(f))) => format!("Err({k}:{f})"),
        Err((k, None)) => format!("Err({k})"),
    }
}

fn exec(entry: Entry, text: &str, o: serde_saphyr::Options) -> Out {
    match entry {
        Entry::Str => to_out(serde_saphyr::from_str_with_options::<Val>(text, o)),
        Entry::Reader => to_out(serde_saphyr::from_reader_with_options::<_, Val>(text.as_bytes(), o)),
        Entry::Multi => to_out(serde_saphyr::from_multiple_with_options::<Val>(text, o).map(Val::Seq)),
    }
}

/// One run under `budget`: (outcome, reports handed to the callback) or panic text.
fn run_budget(
    run: &Run,
    entry: Entry,
    text: &str,
    budget: serde_saphyr::Budget,
) -> Result<(Out, Vec<serde_saphyr::budget::BudgetReport>), String> {
    run.eval();
    let (o, got) = bm::options_with(budget);
    let r = vcore::obs::catch(|| exec(entry, text, o))?;
    let reports = got.borrow().clone();
    Ok((r, reports))
}

/// Like `run_budget`, with the hook monitor attached (what was handed on before the call returned).
fn run_budget_monitored(
    run: &Run,
    entry: Entry,
    text: &str,
    budget: serde_saphyr::Budget,
    anchor_cap: usize,
) -> Result<(Out, Vec<serde_saphyr::budget::BudgetReport>, bm::MonState), String> {
    run.eval();
    let (o, got) = bm::options_with(budget);
    let (r, mon) = bm::monitor(MonLimits::none(), anchor_cap, || vcore::obs::catch(|| exec(entry, text, o)));
    let r = r?;
    let reports = got.borrow().clone();
    Ok((r, reports, mon))
}

/// One signature for every manifestation of "the merge-key counter is off in a
/// document that has an alias as a direct child of a mapping".
const SIG_MERGE_MISCOUNT: &str = "C07:merge_keys:miscounted:alias-direct-map-child";

/// Is a wrong threshold outcome on `merge_keys` explained by the (wrong) count the
/// library itself reported? Then it is the same defect as the report mismatch;
/// otherwise the enforcement is broken in its own right and gets its own signature.
fn merge_threshold_sig(
    field: &str,
    m: &StreamModel,
    reported: Option<u64>,
    limit: u64,
    out: &Out,
    fallback: String,
) -> String {
    if field != "merge_keys" || !m.flags.alias_direct_map_child {
        return fallback;
    }
    let Some(r) = reported else { return fallback };
    if r == m.all.merge_keys {
        return fallback;
    }
    let consistent = match out {
        Ok(_) => r <= limit,
        Err((_, Some("merge_keys"))) => r > limit,
        Err(_) => false,
    };
    if consistent { SIG_MERGE_MISCOUNT.to_string() } else { fallback }
}

// ------------------------------------------------------------------ oracle 1+2+3+5 on one input

#[derive(Default)]
struct Local {
    c: BTreeMap<&'static str, u64>,
}
impl Local {
    fn add(&mut self, k: &'static str) {
        *self.c.entry(k).or_insert(0) += 1;
    }
}

fn check_input(run: &Run, entry: Entry, text: &str, loc: &mut Local) {
    let case = || json!({"kind": "input", "entry": entry.name(), "text": text});
    let m = match bm::model(text) {
        Ok(m) => m,
        Err(_) => {
            run.inconclusive("generator-invalid: raw parser rejects the input");
            return;
        }
    };
    if m.flags.unresolved_alias {
        loc.add("skipped/unresolvable-alias");
        return;
    }
    if entry.single_document() && m.docs.len() != 1 {
        run.inconclusive("generator-invalid: not exactly one document");
        return;
    }

    // ---- unlimited run, monitored
    run.eval();
    let (o, got) = bm::options_with(bm::unlimited_budget());
    let (r, mon) = bm::monitor(MonLimits::none(), m.max_anchor_id, || vcore::obs::catch(|| exec(entry, text, o)));
    let base = match r {
        Err(p) => {
            violation(run, &format!("C07:panic:{}", vcore::obs::panic_site(&p)), case(), p);
            return;
        }
        Ok(Err((k, f))) => {
            // not a document the untyped target accepts (merge of a scalar, …): no oracle here
            if f.is_some() {
                violation(
    run,
                    "C07:unlimited-budget-rejects",
                    case(),
                    format!("every limit at usize::MAX, ratio off, yet Err({k}:{})", f.unwrap_or("")),
                );
            } else {
                loc.add("skipped/unlimited-run-fails");
                run.observe("unlimited_run_error_kinds", &k);
            }
            return;
        }
        Ok(Ok(v)) => v,
    };
    if let Some(why) = bm::trace_disagreement(&m, &mon) {
        run.inconclusive(why);
        return;
    }
    loc.add("verdict_capable_inputs");
    *loc.c.entry("hook/parser_pumps").or_insert(0) += mon.pumps_parser;
    *loc.c.entry("hook/replay_pumps").or_insert(0) += mon.pumps_replay;
    *loc.c.entry("hook/alias_pushes").or_insert(0) += mon.alias_pushes;
    *loc.c.entry("hook/doc_resets").or_insert(0) += mon.doc_resets;

    let merge_unspecified = m.flags.alias_key_to_merge_scalar || m.flags.tagged_merge_like;
    if merge_unspecified {
        loc.add("unspecified/merge-key-through-alias-or-tag");
    }

    // ---- 1. report accuracy
    let reports = got.borrow().clone();
    let reported_merge: Option<u64> = if reports.len() == 1 { Some(reports[0].merge_keys as u64) } else { None };
    if reports.len() != 1 {
        violation(
    run,
            "C07:report:callback-count",
            case(),
            format!("successful parse, budget configured: callback invoked {} times (expected once)", reports.len()),
        );
    } else {
        let rep = &reports[0];
        if let Some(b) = &rep.breached {
            violation(run, "C07:report:breached-on-unlimited", case(), format!("breached = {b:?} with every limit off"));
        }
        let got_c = Counts::of_report(rep);
        let mut diff = got_c.diff(&m.all);
        if merge_unspecified {
            diff.retain(|f| *f != "merge_keys");
        }
        if diff.is_empty() {
            loc.add("report_equal_model");
        } else {
            let sig = if diff == ["merge_keys"] && m.flags.alias_direct_map_child {
                SIG_MERGE_MISCOUNT.to_string()
            } else {
                format!("C07:report:{}", diff.join("+"))
            };
            violation(
    run,
                &sig,
                case(),
                format!("report {} != independent count {}", got_c.to_json(), m.all.to_json()),
            );
        }
    }

    // ---- 2. threshold exactness
    let mut nontrivial = false;
    for field in FIELDS {
        if field == "merge_keys" && merge_unspecified {
            continue;
        }
        let u = m.all.get(field);
        if u >= (usize::MAX as u64) / 2 {
            continue;
        }
        let mut probes: Vec<(u64, bool)> = vec![(u, true)];
        if u >= 1 {
            probes.push((u - 1, false));
        }
        if field == "events" && u >= 2 {
            probes.push((u - 2, false));
        }
        let mut both = 0;
        for (limit, expect_ok) in probes {
            let mut b = bm::unlimited_budget();
            bm::set_limit(&mut b, field, limit as usize);
            let cj = || json!({"kind": "input", "entry": entry.name(), "text": text, "field": field, "limit": limit, "usage": u});
            let (out, reps, mon) = match run_budget_monitored(run, entry, text, b.clone(), m.max_anchor_id) {
                Ok(x) => x,
                Err(p) => {
                    violation(run, &format!("C07:panic:{}", vcore::obs::panic_site(&p)), cj(), p);
                    continue;
                }
            };
            both += 1;
            // "as soon as one is exceeded": whatever the outcome, nothing beyond the limit was handed on
            // (every pumped event passed the budget first)
            let handed_on: Option<u64> = match field {
                "events" => Some(mon.pumps() + mon.alias_pushes),
                "nodes" => Some(mon.nodes),
                "max_depth" => Some(mon.max_depth),
                "total_scalar_bytes" => Some(mon.bytes_parser + mon.bytes_replay),
                "aliases" => Some(mon.alias_pushes),
                _ => None,
            };
            if let Some(h) = handed_on {
                if h > limit {
                    violation(
                        run,
                        &format!("C07:threshold:{field}:failed-later-than-exceeded"),
                        cj(),
                        format!("limit {limit} on {field}, but the hook saw {h} handed on to the deserializer ({})", show(&out)),
                    );
                } else {
                    loc.add("handed_on_within_limit");
                }
            }
            match (&out, expect_ok) {
                (Ok(v), true) => {
                    if *v != base {
                        violation(
    run,
                            &format!("C07:threshold:{field}:value-changed"),
                            cj(),
                            format!("value under limit=U differs: {v} vs {base}"),
                        );
                    } else {
                        loc.add("threshold_at_usage_ok");
                    }
                    if reps.len() == 1 && reps[0].breached.is_some() {
                        violation(run, &format!("C07:threshold:{field}:ok-but-breached-report"), cj(), "Ok with breached report");
                    }
                }
                (Err((k, f)), true) => {
                    let sig = merge_threshold_sig(field, &m, reported_merge, limit, &out, format!("C07:threshold:{field}:false-rejection"));
                    violation(
    run,
                        &sig,
                        cj(),
                        format!("usage {u} within limit {limit}, got Err({k}:{})", f.unwrap_or("-")),
                    );
                }
                (Err((_, Some(f))), false) if *f == field => {
                    loc.add("threshold_below_usage_err");
                    // observation only (not part of the statement): Options docs say the report callback is
                    // also invoked when the budget was breached
                    loc.add(if reps.is_empty() { "observed/report_callback_not_invoked_on_breach" } else { "observed/report_callback_invoked_on_breach" });
                    run.observe("breach_fields_seen", field);
                }
                (Err((k, f)), false) => {
                    violation(
    run,
                        &format!("C07:threshold:{field}:wrong-error:{k}:{}", f.unwrap_or("-")),
                        cj(),
                        format!("usage {u} > limit {limit}: expected Budget/{field}, got Err({k}:{})", f.unwrap_or("-")),
                    );
                }
                (Ok(_), false) => {
                    let sfx = if field == "events" && limit + 1 == u && entry.single_document() {
                        ":breach-at-stream-end-swallowed"
                    } else {
                        ""
                    };
                    let sig = merge_threshold_sig(field, &m, reported_merge, limit, &out, format!("C07:threshold:{field}:not-enforced{sfx}"));
                    violation(
    run,
                        &sig,
                        cj(),
                        format!("usage {u} > limit {limit}, yet Ok ({})", entry.name()),
                    );
                }
            }
            // ---- 5. check_yaml_budget on alias-free input
            if m.all.aliases == 0 {
                run.eval();
                match vcore::obs::catch(|| {
                    serde_saphyr::budget::check_yaml_budget(text, b, serde_saphyr::budget::EnforcingPolicy::AllContent)
                }) {
                    Err(p) => violation(run, &format!("C07:panic:{}", vcore::obs::panic_site(&p)), cj(), p),
                    Ok(Err(e)) => violation(
    run,
                        "C07:check_yaml_budget:scan-error",
                        cj(),
                        format!("scan error {e} on an input the parser accepts"),
                    ),
                    Ok(Ok(rep)) => {
                        let bf = rep.breached.as_ref().map(bm::breach_field);
                        let want = if expect_ok { None } else { Some(field) };
                        if bf != want {
                            violation(
    run,
                                &format!("C07:check_yaml_budget:{field}:{}", if expect_ok { "false-breach" } else { "no-breach" }),
                                cj(),
                                format!("breached = {:?}, expected {:?}", rep.breached, want),
                            );
                        } else {
                            loc.add("check_yaml_budget_agrees");
                        }
                        if expect_ok && rep.breached.is_none() {
                            let d = Counts::of_report(&rep).diff(&m.all);
                            if !d.is_empty() {
                                violation(
    run,
                                    &format!("C07:check_yaml_budget:report:{}", d.join("+")),
                                    cj(),
                                    format!("report {} != count {}", Counts::of_report(&rep).to_json(), m.all.to_json()),
                                );
                            }
                        }
                    }
                }
            }
        }
        if u >= 2 && both >= 2 {
            nontrivial = true;
        }
    }
    if nontrivial {
        run.nontrivial(fnv_parts(&[text.as_bytes(), entry.name().as_bytes()]));
    }

    // ---- 3. ratio heuristic (documented: breach iff aliases >= min && aliases > multiplier * anchors)
    let a = m.all.aliases;
    let n = m.all.anchors;
    let mut ratio_cases: Vec<(u64, u64)> = Vec::new(); // (min_aliases, multiplier)
    let k_ok = if n > 0 { a.div_ceil(n) } else { 1 };
    ratio_cases.push((a, k_ok));
    ratio_cases.push((a + 1, 0));
    if a >= 1 {
        ratio_cases.push((a, 0));
        if n > 0 && k_ok >= 1 {
            ratio_cases.push((a, k_ok - 1));
        }
        ratio_cases.push((1, k_ok));
    }
    for (min_a, mult) in ratio_cases {
        let mut b = bm::unlimited_budget();
        b.enforce_alias_anchor_ratio = true;
        b.alias_anchor_min_aliases = min_a as usize;
        b.alias_anchor_ratio_multiplier = mult as usize;
        let expect_breach = a >= min_a && a > mult * n;
        let cj = || json!({"kind": "input", "entry": entry.name(), "text": text, "ratio": {"min_aliases": min_a, "multiplier": mult}, "aliases": a, "anchors": n});
        let (out, reps) = match run_budget(run, entry, text, b) {
            Ok(x) => x,
            Err(p) => {
                violation(run, &format!("C07:panic:{}", vcore::obs::panic_site(&p)), cj(), p);
                continue;
            }
        };
        match (&out, expect_breach) {
            (Ok(_), false) => loc.add("ratio_ok_as_documented"),
            (Err((_, Some("ratio"))), true) => {
                loc.add("ratio_breach_as_documented");
                run.observe("breach_fields_seen", "ratio");
                if !(reps.len() == 1 && reps[0].breached.as_ref().map(bm::breach_field) == Some("ratio")) {
                    violation(run, "C07:ratio:report-without-breach", cj(), "ratio error but the report handed over has no ratio breach");
                }
            }
            (Ok(_), true) => violation(
    run,
                "C07:ratio:not-enforced",
                cj(),
                format!("aliases {a} >= {min_a} and {a} > {mult}*{n}: expected AliasAnchorRatio, got Ok"),
            ),
            (Err((k, f)), false) => {
                let sig = if a == 0 && n == 0 && *f == Some("ratio") {
                    "C07:ratio:false-rejection:no-aliases-no-anchors".to_string()
                } else {
                    format!("C07:ratio:false-rejection:{k}:{}", f.unwrap_or("-"))
                };
                violation(
    run,
                    &sig,
                    cj(),
                    format!("documented rule gives no breach (aliases {a}, anchors {n}, min {min_a}, multiplier {mult}); got Err({k}:{})", f.unwrap_or("-")),
                );
            }
            (Err((k, f)), true) => violation(
    run,
                &format!("C07:ratio:wrong-error:{k}:{}", f.unwrap_or("-")),
                cj(),
                "expected AliasAnchorRatio",
            ),
        }
    }
}

// ------------------------------------------------------------------ oracle 4: per-document independence

fn read_items(run: &Run, text: &str, budget: serde_saphyr::Budget, cap: usize) -> Result<Vec<Out>, String> {
    run.eval();
    let (o, _got) = bm::options_with(budget);
    vcore::obs::catch(|| {
        let mut rd = text.as_bytes();
        let mut v = Vec::new();
        for it in serde_saphyr::read_with_options::<_, PVal>(&mut rd, o) {
            v.push(to_out(it));
            if v.len() >= cap {
                break;
            }
        }
        v
    })
}

fn is_poison(o: &Out) -> bool {
    matches!(o, Err((k, None)) if k == "Poison")
}

/// The iterator documents recovery after a deserialization error only; whatever follows a budget,
/// alias-limit or syntax error is unspecified and cut off.
fn truncate_after_first_err(v: &mut Vec<Out>) {
    if let Some(i) = v.iter().position(|o| o.is_err() && !is_poison(o)) {
        v.truncate(i + 1);
    }
}

fn join_stream(docs: &[String]) -> String {
    docs.join("---\n")
}

fn check_perdoc(run: &Run, docs: &[String], loc: &mut Local) {
    let text = join_stream(docs);
    let case = |extra: Value| json!({"kind": "perdoc", "docs": docs, "budget": extra});
    let m = match bm::model(&text) {
        Ok(m) => m,
        Err(_) => {
            run.inconclusive("generator-invalid: raw parser rejects the stream");
            return;
        }
    };
    if m.docs.len() != docs.len() || m.flags.unresolved_alias {
        run.inconclusive("generator-invalid: stream does not have the intended documents");
        return;
    }
    // each document alone must be the same document (per-document model counts equal)
    let mut solo_models = Vec::new();
    for (j, d) in docs.iter().enumerate() {
        match bm::model(d) {
            Ok(sm) if sm.docs.len() == 1 && doc_counts(&sm.docs[0]) == doc_counts(&m.docs[j]) => solo_models.push(sm),
            _ => {
                run.inconclusive("generator-invalid: document differs inside the stream");
                return;
            }
        }
    }
    // unlimited, monitored: items + guard
    run.eval();
    let (o, _got) = bm::options_with(bm::unlimited_budget());
    // (poison disarmed: every document is consumed completely, so the trace can be compared with the model)
    let (r, mon) = bm::monitor(MonLimits::none(), m.max_anchor_id, || {
        vcore::obs::catch(|| {
            with_armed(false, || {
                let mut rd = text.as_bytes();
                serde_saphyr::read_with_options::<_, PVal>(&mut rd, o).map(to_out).take(docs.len() + 3).collect::<Vec<Out>>()
            })
        })
    });
    let base = match r {
        Err(p) => {
            violation(run, &format!("C07:panic:{}", vcore::obs::panic_site(&p)), case(json!("unlimited")), p);
            return;
        }
        Ok(v) => v,
    };
    if base.len() != docs.len() || base.iter().any(|o| o.is_err()) {
        loc.add("skipped/stream-unlimited-run-not-all-ok");
        return;
    }
    if let Some(why) = bm::trace_disagreement(&m, &mon) {
        run.inconclusive(why);
        return;
    }
    loc.add("verdict_capable_streams");
    // documents that fail at the type level (poison armed), and the unlimited armed run
    let poisoned: Vec<bool> = docs.iter().map(|d| d.contains(POISON)).collect();
    let first_poisoned = poisoned.iter().position(|p| *p);
    let after_failed_sig = "C07:per-document:document-after-failed-one-charged-for-it";
    // first index at which two item lists differ, if it lies after a document that failed with the poison error
    let diverges_after_failed = |obs: &[Out], exp: &[Out]| -> bool {
        let i = (0..obs.len().max(exp.len())).find(|&i| obs.get(i) != exp.get(i));
        match (i, first_poisoned) {
            (Some(i), Some(fp)) => i > fp && (fp..i).any(|k| poisoned[k] && obs.get(k).is_some_and(is_poison)),
            _ => false,
        }
    };
    if first_poisoned.is_some() {
        loc.add("streams_with_failing_documents");
        let armed = match read_items(run, &text, bm::unlimited_budget(), docs.len() + 3) {
            Ok(v) => v,
            Err(p) => {
                violation(run, &format!("C07:panic:{}", vcore::obs::panic_site(&p)), case(json!("unlimited, poison armed")), p);
                return;
            }
        };
        let want: Vec<Out> =
            (0..docs.len()).map(|j| if poisoned[j] { Err(("Poison".to_string(), None)) } else { base[j].clone() }).collect();
        if armed != want {
            if diverges_after_failed(&armed, &want) {
                violation(
                    run,
                    after_failed_sig,
                    case(json!("unlimited")),
                    format!(
                        "every limit off: items {:?}, expected {:?}",
                        armed.iter().map(show).collect::<Vec<_>>(),
                        want.iter().map(show).collect::<Vec<_>>()
                    ),
                );
            } else {
                run.inconclusive("poisoned document did not fail with the poison error");
            }
            return;
        }
    }
    *loc.c.entry("hook/doc_resets").or_insert(0) += mon.doc_resets;
    *loc.c.entry("hook/replay_pumps").or_insert(0) += mon.pumps_replay;
    let merge_unspecified = m.flags.alias_key_to_merge_scalar || m.flags.tagged_merge_like;

    let per_doc = |f: &str, j: usize| -> u64 {
        let d = &m.docs[j];
        match f {
            "aliases" => d.aliases,
            "anchors" => d.anchors,
            "nodes" => d.nodes,
            "max_depth" => d.max_depth,
            "total_scalar_bytes" => d.total_scalar_bytes,
            "merge_keys" => d.merge_keys,
            // content events + alias events; the markers that belong to a document are not pinned down
            "events" => d.parser_pumps + d.replayed_events + d.aliases,
            _ => 0,
        }
    };
    let mut budgets: Vec<(&'static str, u64)> = Vec::new();
    for f in ["events", "aliases", "anchors", "nodes", "max_depth", "total_scalar_bytes", "merge_keys"] {
        if f == "merge_keys" && merge_unspecified {
            continue;
        }
        let us: Vec<u64> = (0..docs.len()).map(|j| per_doc(f, j)).collect();
        let mut ls: Vec<u64> = Vec::new();
        for u in &us {
            if f == "events" {
                for k in 0..4 {
                    ls.push(u + k);
                }
            } else {
                ls.push(*u);
                if *u > 0 {
                    ls.push(u - 1);
                }
            }
        }
        ls.sort();
        ls.dedup();
        for l in ls {
            budgets.push((f, l));
        }
    }
    // `max_documents` is documented as ignored under the per-document policy
    budgets.push(("documents", 0));

    let mut nontrivial = false;
    for (f, limit) in budgets {
        let mut b = bm::unlimited_budget();
        bm::set_limit(&mut b, f, limit as usize);
        let cj = || case(json!({"field": f, "limit": limit}));
        let mut observed = match read_items(run, &text, b.clone(), docs.len() + 3) {
            Ok(v) => v,
            Err(p) => {
                violation(run, &format!("C07:panic:{}", vcore::obs::panic_site(&p)), cj(), p);
                continue;
            }
        };
        truncate_after_first_err(&mut observed);
        // (a) differential: concatenation of the documents read alone
        let mut expected: Vec<Out> = Vec::new();
        let mut solo_first: Vec<Option<Out>> = vec![None; docs.len()];
        let mut bad = false;
        for (j, d) in docs.iter().enumerate() {
            match read_items(run, d, b.clone(), 4) {
                Ok(v) => {
                    solo_first[j] = v.first().cloned();
                    expected.extend(v);
                }
                Err(p) => {
                    violation(run, &format!("C07:panic:{}", vcore::obs::panic_site(&p)), cj(), p);
                    bad = true;
                }
            }
            if expected.iter().any(|o| o.is_err() && !is_poison(o)) {
                break;
            }
        }
        if bad {
            continue;
        }
        truncate_after_first_err(&mut expected);
        // classification helpers
        // "anchors are counted across documents": the first item that differs is an Anchors breach at a
        // document that is within the limit on its own while the documents read so far together are not
        let cumulative_anchor_class = |obs: &[Out], exp: &[Out]| {
            if f != "anchors" {
                return false;
            }
            let i = (0..obs.len().max(exp.len())).find(|&i| obs.get(i) != exp.get(i));
            match i {
                Some(i) if i < docs.len() => {
                    matches!(obs.get(i), Some(Err((_, Some("anchors")))))
                        && per_doc("anchors", i) <= limit
                        && (0..=i).map(|k| per_doc("anchors", k)).sum::<u64>() > limit
                }
                _ => false,
            }
        };
        if observed != expected {
            let sig = if diverges_after_failed(&observed, &expected) {
                after_failed_sig.to_string()
            } else if cumulative_anchor_class(&observed, &expected) {
                "C07:per-document:anchors:cumulative-across-documents".to_string()
            } else {
                format!("C07:per-document:{f}:stream-differs-from-documents-alone")
            };
            violation(
    run,
                &sig,
                cj(),
                format!(
                    "stream items {:?} != items of the documents read alone {:?}",
                    observed.iter().map(show).collect::<Vec<_>>(),
                    expected.iter().map(show).collect::<Vec<_>>()
                ),
            );
        } else {
            loc.add("perdoc_stream_equals_solo");
        }
        // (b) model: the first document whose own usage exceeds the limit fails with that field; all before are Ok
        if f != "events" && f != "documents" {
            // a document that fails at the type level is taken from its run alone (it may meet the limit
            // before the poison); every other document follows the per-document model count
            let first_bad = (0..docs.len()).find(|&j| !poisoned[j] && per_doc(f, j) > limit);
            let mut want: Vec<Out> = Vec::new();
            for j in 0..docs.len() {
                if poisoned[j] {
                    match &solo_first[j] {
                        Some(o) if is_poison(o) => want.push(o.clone()),
                        Some(o) => {
                            want.push(o.clone());
                            break;
                        }
                        None => break,
                    }
                    continue;
                }
                if Some(j) == first_bad {
                    want.push(Err(("Budget".to_string(), Some(f))));
                    break;
                }
                want.push(base[j].clone());
            }
            if observed != want {
                let sig = if diverges_after_failed(&observed, &want) {
                    after_failed_sig.to_string()
                } else if cumulative_anchor_class(&observed, &want) {
                    "C07:per-document:anchors:cumulative-across-documents".to_string()
                } else if f == "merge_keys" && m.flags.alias_direct_map_child {
                    SIG_MERGE_MISCOUNT.to_string()
                } else {
                    format!("C07:per-document:{f}:not-per-document-count")
                };
                violation(
    run,
                    &sig,
                    cj(),
                    format!(
                        "per-document usage {:?}, limit {limit}: items {:?}, expected {:?}",
                        (0..docs.len()).map(|j| per_doc(f, j)).collect::<Vec<_>>(),
                        observed.iter().map(show).collect::<Vec<_>>(),
                        want.iter().map(show).collect::<Vec<_>>()
                    ),
                );
            } else {
                loc.add("perdoc_model_agrees");
                if first_bad.is_some() {
                    run.observe("perdoc_breach_fields_seen", f);
                }
            }
            if docs.len() >= 2 && (0..docs.len()).any(|j| per_doc(f, j) >= 2) {
                nontrivial = true;
            }
        }
        if f == "documents" {
            let all_ok: Vec<Out> =
                (0..docs.len()).map(|j| if poisoned[j] { Err(("Poison".to_string(), None)) } else { base[j].clone() }).collect();
            if observed != all_ok {
                violation(
    run,
                    "C07:per-document:max_documents-not-ignored",
                    cj(),
                    format!("max_documents=0 under the per-document policy changed the items: {:?}", observed.iter().map(show).collect::<Vec<_>>()),
                );
            }
        }
    }
    if nontrivial {
        let parts: Vec<&[u8]> = docs.iter().map(|d| d.as_bytes()).collect();
        run.nontrivial(fnv_parts(&parts) ^ 0x7065_7264_6f63);
    }
}

fn doc_counts(d: &bm::DocModel) -> (u64, u64, u64, u64, u64, u64, u64, u64) {
    (d.parser_pumps, d.replayed_events, d.aliases, d.anchors, d.nodes, d.max_depth, d.total_scalar_bytes, d.merge_keys)
}

// ------------------------------------------------------------------ generators

/// All decorations of a base tree with <= 2 anchors and <= 2 aliases (>= 1 alias or anchor), plus merge-key variants.
fn decorations(base: &Node, max_an: usize, max_al: usize) -> Vec<Node> {
    let paths = treegen::node_paths(base);
    let leaf_paths: Vec<&Vec<usize>> = paths
        .iter()
        .filter(|p| match treegen::node_at(base, p) {
            Node::Scalar { .. } => true,
            Node::Seq { items, .. } => items.is_empty(),
            Node::Map { entries, .. } => entries.is_empty(),
            Node::Alias(_) => false,
        })
        .collect();
    let mut anchor_sets: Vec<Vec<(&Vec<usize>, &str)>> = vec![vec![]];
    for p in &paths {
        anchor_sets.push(vec![(p, "a")]);
    }
    for i in 0..paths.len() {
        for j in (i + 1)..paths.len() {
            anchor_sets.push(vec![(&paths[i], "a"), (&paths[j], "a")]);
            anchor_sets.push(vec![(&paths[i], "a"), (&paths[j], "b")]);
        }
    }
    let mut alias_sets: Vec<Vec<(&Vec<usize>, &str)>> = vec![vec![]];
    for p in &leaf_paths {
        alias_sets.push(vec![(p, "a")]);
        alias_sets.push(vec![(p, "b")]);
    }
    for i in 0..leaf_paths.len() {
        for j in (i + 1)..leaf_paths.len() {
            for (x, y) in [("a", "a"), ("a", "b"), ("b", "a"), ("b", "b")] {
                alias_sets.push(vec![(leaf_paths[i], x), (leaf_paths[j], y)]);
            }
        }
    }
    let mut out = Vec::new();
    for an in &anchor_sets {
        for al in &alias_sets {
            if an.is_empty() && al.is_empty() {
                continue;
            }
            if an.len() > max_an || al.len() > max_al {
                continue;
            }
            if an.iter().any(|(p, _)| al.iter().any(|(q, _)| p == q)) {
                continue;
            }
            let mut t = base.clone();
            for (p, name) in an {
                let n = treegen::node_at_mut(&mut t, p);
                *n = n.clone().with_anchor(name);
            }
            for (p, name) in al {
                *treegen::node_at_mut(&mut t, p) = Node::alias(name);
            }
            // only documents whose aliases resolve are of use here
            if ydoc::expand(&t).is_none() {
                continue;
            }
            out.push(t.clone());
            // merge-key variants: the key of an aliased map value, and (separately) of any map-valued entry
            for (p, _) in al {
                if let Some((&last, parent)) = p.split_last()
                    && last % 2 == 1
                    && matches!(treegen::node_at(&t, parent), Node::Map { .. })
                {
                    let mut t2 = t.clone();
                    let mut kp = parent.to_vec();
                    kp.push(last - 1);
                    let key = treegen::node_at_mut(&mut t2, &kp);
                    if key.anchor().is_none() && !matches!(key, Node::Alias(_)) {
                        *key = Node::plain("<<");
                        out.push(t2);
                    }
                }
            }
        }
    }
    out
}

fn random_decorated(rng: &mut Rng) -> Node {
    let mut counter = 0;
    let budget = rng.range(4, 40);
    let mut t = treegen::random_tree(rng, budget, 5, LEAVES_BASIC, &mut counter);
    let paths = treegen::node_paths(&t);
    let names = ["a", "b", "c", "d"];
    let n_anchor = rng.range(1, 6.min(paths.len()));
    for _ in 0..n_anchor {
        let p = rng.pick(&paths).clone();
        let name = *rng.pick(&names);
        let n = treegen::node_at_mut(&mut t, &p);
        if !matches!(n, Node::Alias(_)) {
            *n = n.clone().with_anchor(name);
        }
    }
    let n_alias = rng.range(1, 6);
    for _ in 0..n_alias {
        let paths = treegen::node_paths(&t);
        let p = rng.pick(&paths).clone();
        if p.is_empty() {
            continue;
        }
        let name = *rng.pick(&names);
        let mut t2 = t.clone();
        *treegen::node_at_mut(&mut t2, &p) = Node::alias(name);
        if let Some((&last, parent)) = p.split_last()
            && last % 2 == 1
            && rng.chance(1, 3)
        {
            let mut kp = parent.to_vec();
            kp.push(last - 1);
            *treegen::node_at_mut(&mut t2, &kp) = Node::plain("<<");
        }
        // keep the replacement only if everything still resolves
        if ydoc::expand(&t2).is_some() {
            t = t2;
        }
    }
    // occasionally a plain `<<` as an ordinary value / sequence item (must not count)
    if rng.chance(1, 5) {
        let paths = treegen::node_paths(&t);
        let p = rng.pick(&paths).clone();
        if let Some((&last, parent)) = p.split_last() {
            let in_map = matches!(treegen::node_at(&t, parent), Node::Map { .. });
            if (!in_map || last % 2 == 1) && matches!(treegen::node_at(&t, &p), Node::Scalar { anchor: None, .. }) {
                *treegen::node_at_mut(&mut t, &p) = Node::plain("<<");
            }
        }
    }
    t
}

/// Fixed pool of small documents for the stream part (rendered and confirmed at start-up).
fn stream_pool() -> Vec<Node> {
    let p = Node::plain;
    vec![
        p("x"),
        p("x").with_anchor("a"),
        Node::seq(vec![p("x").with_anchor("a"), Node::alias("a")]),
        Node::seq(vec![p("x").with_anchor("a"), p("y").with_anchor("b"), Node::alias("b")]),
        Node::map(vec![(p("k"), p("v"))]),
        Node::map(vec![(p("k"), p("v").with_anchor("a")), (p("j"), Node::alias("a"))]),
        Node::map(vec![(p("b"), Node::fmap(vec![(p("k"), p("v"))]).with_anchor("a")), (p("t"), Node::fmap(vec![(p("<<"), Node::alias("a"))]))]),
        Node::map(vec![
            (p("b"), Node::fmap(vec![(p("k"), p("v"))]).with_anchor("a")),
            (p("t"), Node::fmap(vec![(p("<<"), Node::alias("a")), (p("z"), p("1"))])),
            (p("u"), Node::fmap(vec![(p("<<"), Node::alias("a"))])),
        ]),
        Node::seq(vec![Node::fseq(vec![p("x"), p("yy")]).with_anchor("a"), Node::alias("a"), Node::alias("a")]),
        Node::seq(vec![Node::seq(vec![Node::seq(vec![p("deep")])])]),
        Node::fseq(vec![Node::fseq(vec![p("x").with_anchor("a")]).with_anchor("b"), Node::alias("b"), Node::alias("a")]),
        Node::map(vec![(p("x"), p("1").with_anchor("a")), (p("m"), Node::fmap(vec![(p("k"), p("2"))]).with_anchor("b")), (p("t"), Node::fmap(vec![(p("q"), Node::alias("a")), (p("<<"), Node::alias("b"))]))]),
        Node::dq("long scalar value"),
        Node::seq(vec![p("a1").with_anchor("a"), p("a2").with_anchor("a"), Node::alias("a")]),
        // inner anchor aliased while the outer one is open, then the outer one; nested three deep; re-defined
        // names between uses; an alias inside an anchored container that is itself aliased twice
        Node::seq(vec![Node::seq(vec![p("x").with_anchor("b"), Node::alias("b")]).with_anchor("a"), Node::alias("a")]),
        Node::seq(vec![
            Node::seq(vec![Node::seq(vec![Node::fseq(vec![p("y")]).with_anchor("c"), Node::alias("c")]).with_anchor("b"), Node::alias("b"), Node::alias("c")])
                .with_anchor("a"),
            Node::alias("a"),
            Node::alias("b"),
        ]),
        Node::seq(vec![
            p("x").with_anchor("a"),
            Node::alias("a"),
            Node::fseq(vec![p("y"), p("z")]).with_anchor("a"),
            Node::alias("a"),
            Node::fseq(vec![Node::alias("a"), p("w")]).with_anchor("b"),
            Node::alias("b"),
            p("v").with_anchor("b"),
            Node::alias("b"),
        ]),
        Node::map(vec![
            (p("i"), Node::fseq(vec![p("1"), p("2")]).with_anchor("a")),
            (p("o"), Node::fseq(vec![Node::alias("a"), Node::alias("a")]).with_anchor("b")),
            (p("u"), Node::alias("b")),
            (p("v"), Node::alias("b")),
        ]),
        // the same shapes failing at the type level while the outer anchor is still being recorded
        Node::seq(vec![Node::seq(vec![p("x").with_anchor("b"), Node::alias("b"), p(POISON)]).with_anchor("a"), Node::alias("a")]),
        Node::seq(vec![Node::seq(vec![p(POISON).with_anchor("b"), p("y")]).with_anchor("a"), Node::alias("b"), Node::alias("a")]),
        // documents that fail at the type level (PVal rejects the poison scalar) with containers open:
        // at the root, mid-sequence, deep inside nested containers, as a value after a key, as a key,
        // after anchors / an alias / a merge key
        p(POISON),
        Node::seq(vec![p("1"), p("2"), p("3"), p(POISON), p("5"), p("6")]),
        Node::map(vec![
            (p("a"), Node::map(vec![(p("b"), Node::map(vec![(p("c"), Node::seq(vec![p("x"), p(POISON), p("y")]))]))])),
            (p("z"), p("1")),
        ]),
        Node::map(vec![(p("k"), p("v")), (p("j"), p(POISON)), (p("l"), p("m"))]),
        Node::map(vec![(p("k"), p("v")), (p(POISON), Node::seq(vec![p("1"), p("2")])), (p("l"), p("m"))]),
        Node::map(vec![
            (p("b"), Node::fmap(vec![(p("k"), p("v"))]).with_anchor("a")),
            (p("t"), Node::fmap(vec![(p("<<"), Node::alias("a")), (p("q"), p(POISON)), (p("r"), p("1"))])),
            (p("u"), p("1")),
        ]),
        Node::map(vec![
            (p("x"), p("1").with_anchor("a")),
            (p("t"), Node::fmap(vec![(p("q"), Node::alias("a")), (p(POISON), p("1")), (p("<<"), Node::fmap(vec![(p("w"), p("2"))]))])),
        ]),
    ]
}

/// Replace one scalar leaf (key or value, anywhere) by the poison scalar; false if the tree has no scalar.
fn poison_random_leaf(rng: &mut Rng, t: &mut Node) -> bool {
    let paths: Vec<Vec<usize>> =
        treegen::node_paths(t).into_iter().filter(|p| matches!(treegen::node_at(t, p), Node::Scalar { .. })).collect();
    if paths.is_empty() {
        return false;
    }
    let p = rng.pick(&paths).clone();
    if let Node::Scalar { text, style, tag, .. } = treegen::node_at_mut(t, &p) {
        *text = POISON.to_string();
        *style = ydoc::Style::Plain;
        *tag = None;
    }
    true
}

fn render_doc(run: &Run, t: &Node, flow: bool, ro: &RenderOpts) -> Option<String> {
    let mut t = t.clone();
    if flow {
        t.set_flow(true);
    }
    match render_checked(&t, ro) {
        Some((text, _)) => Some(text),
        None => {
            run.inconclusive("generator-invalid: document not parsed as intended");
            None
        }
    }
}

// ------------------------------------------------------------------ main

fn main() {
    let run = Run::from_args("C07");
    if let Some(rep) = run.is_replay() {
        let case = &rep["case"];
        let mut loc = Local::default();
        match case["kind"].as_str() {
            Some("perdoc") => {
                let docs: Vec<String> =
                    case["docs"].as_array().map(|a| a.iter().filter_map(|s| s.as_str().map(String::from)).collect()).unwrap_or_default();
                check_perdoc(&run, &docs, &mut loc);
            }
            _ => {
                let text = case["text"].as_str().unwrap_or("").to_string();
                check_input(&run, Entry::of(case["entry"].as_str().unwrap_or("")), &text, &mut loc);
            }
        }
        run.finish(Finish::new("replay"));
    }

    let tier = run.tier;
    let ro = RenderOpts::new();
    let max_nodes = 5usize;
    // thorough additionally: every 6-node tree with <= 1 anchor and <= 1 alias
    let extra_nodes: Option<usize> = tier.pick(None, Some(6));
    let quick = tier == Tier::Quick;

    // ---- A. exhaustive small documents
    let mut bases: Vec<(Node, usize, usize)> = Vec::new();
    for n in 1..=max_nodes {
        bases.extend(treegen::base_trees(n, LEAVES_BASIC).into_iter().map(|t| (t, 2, 2)));
    }
    if let Some(n) = extra_nodes {
        bases.extend(treegen::base_trees(n, LEAVES_BASIC).into_iter().map(|t| (t, 1, 1)));
    }
    run.count("base_trees", bases.len() as u64);
    par_range(bases.len(), |i| {
        let mut loc = Local::default();
        let (base, max_an, max_al) = &bases[i];
        let full = *max_an == 2;
        // the undecorated tree too (alias-free: check_yaml_budget, ratio with no aliases)
        let mut all = vec![base.clone()];
        all.extend(decorations(base, *max_an, *max_al));
        for (j, d) in all.iter().enumerate() {
            for flow in [false, true] {
                let Some(text) = render_doc(&run, d, flow, &ro) else { continue };
                loc.add(if flow { "cases_flow" } else { "cases_block" });
                check_input(&run, Entry::Str, &text, &mut loc);
                // quick: every 2nd case also through the reader / every 3rd through from_multiple;
                // thorough: all three entry points for the <= 5-node space
                if full && (!quick || (i + j) % 2 == 0) {
                    check_input(&run, Entry::Reader, &text, &mut loc);
                }
                if full && (!quick || (i + j) % 3 == 0) {
                    check_input(&run, Entry::Multi, &text, &mut loc);
                }
                if (i * 31 + j) % 40_009 == 0 {
                    run.sample(|| json!({"text": text}));
                }
            }
        }
        run.count_map(&loc.c);
    });
    run.note(format!("phase A (exhaustive small documents) done at {:.1}s", run.elapsed_s()));

    // ---- A2. exhaustive nested-anchor documents: sequence-only trees, <= 3 anchors x <= 3 aliases over {a, b}
    // (inner anchor aliased while the outer one is open, aliases inside anchored containers followed by
    // aliases to those containers, re-defined names)
    let nested_nodes = tier.pick(6, 7);
    let mut seq_bases = Vec::new();
    for n in 2..=nested_nodes {
        seq_bases.extend(vcore::aliasgen::seq_trees(n));
    }
    run.count("nested_family_base_trees", seq_bases.len() as u64);
    let nested_pool: std::sync::Mutex<Vec<String>> = std::sync::Mutex::new(Vec::new());
    par_range(seq_bases.len(), |i| {
        let mut loc = Local::default();
        let docs = vcore::aliasgen::decorate(&seq_bases[i], 3, 3, &["a", "b"]);
        for (j, d) in docs.iter().enumerate() {
            for flow in [false, true] {
                let Some(text) = render_doc(&run, d, flow, &ro) else { continue };
                loc.add("nested_family_cases");
                check_input(&run, Entry::Str, &text, &mut loc);
                check_input(&run, Entry::Reader, &text, &mut loc);
                check_input(&run, Entry::Multi, &text, &mut loc);
                if !flow && (i * 131 + j) % 97 == 0 {
                    nested_pool.lock().unwrap().push(text.clone());
                }
                if (i * 31 + j) % 100_003 == 0 {
                    run.sample(|| json!({"text": text, "family": "nested"}));
                }
            }
        }
        run.count_map(&loc.c);
    });
    let mut nested_pool = nested_pool.into_inner().unwrap();
    nested_pool.sort();
    run.count("nested_family_documents_kept_for_streams", nested_pool.len() as u64);
    run.note(format!("phase A2 (exhaustive nested-anchor documents) done at {:.1}s", run.elapsed_s()));

    // ---- B. fixed small corpus (shapes the generators reach rarely)
    let corpus: &[&str] = &[
        "a: 1\n",
        "x: &x 1\nm: &m {k: 2}\nt: {a: *x, <<: *m}\n",
        "x: &x 1\nm: &m {k: 2}\nt: {<<: *m, a: *x}\n",
        "x: &x 1\nt: {a: *x, b: <<}\n",
        "k: &k kk\nt: {*k : 1, <<: {z: 2}}\n",
        "b: &b {k: v}\nl: &l [*b, *b]\nt: {<<: *l}\nu: *l\n",
        "- &a [1, 2, 3]\n- &b [*a, *a]\n- &c [*b, *b]\n- *c\n",
        "- &a\n  - &b\n    - &c [x, y]\n    - *c\n  - *b\n- *a\n",
        "- \"<<\"\n- '<<'\n- <<\n- {\"<<\": 1}\n",
        "? [a, b]\n: &v {<<: {p: 1}}\nw: *v\n",
        "s: &s |\n  literal text\nt: *s\n",
    ];
    {
        let mut loc = Local::default();
        for t in corpus {
            check_input(&run, Entry::Str, t, &mut loc);
            check_input(&run, Entry::Reader, t, &mut loc);
            check_input(&run, Entry::Multi, t, &mut loc);
        }
        run.count_map(&loc.c);
    }

    // ---- C. random larger documents
    let n_random = tier.pick(200_000, 2_500_000);
    par_range(n_random, |i| {
        let mut rng = Rng::stream(run.seed, i as u64);
        let mut loc = Local::default();
        let t = if i % 2 == 0 {
            random_decorated(&mut rng)
        } else {
            let size = rng.range(10, 120);
            vcore::aliasgen::random_resolvable(&mut rng, size, 7, 12)
        };
        let flow = rng.chance(1, 3);
        let ro = RenderOpts { indent: *rng.pick(&[1usize, 2, 4]), brk: "\n", compact: rng.bool() };
        if let Some(text) = render_doc(&run, &t, flow, &ro) {
            loc.add("random_documents");
            let e = *rng.pick(&[Entry::Str, Entry::Str, Entry::Reader, Entry::Multi]);
            check_input(&run, e, &text, &mut loc);
            if i % 997 == 0 {
                run.sample(|| json!({"text": text, "entry": e.name()}));
            }
        }
        run.count_map(&loc.c);
    });

    run.note(format!("phase B+C (corpus, random documents) done at {:.1}s", run.elapsed_s()));

    // ---- D. streams: AllContent (from_multiple) and PerDocument (read_with_options)
    let pool: Vec<String> = stream_pool().iter().filter_map(|t| render_doc(&run, t, false, &ro)).collect();
    run.count("stream_pool_documents", pool.len() as u64);
    let exh_len = tier.pick(2, 3);
    let mut streams: Vec<Vec<usize>> = Vec::new();
    for len in 1..=exh_len {
        let total = pool.len().pow(len as u32);
        for mut code in 0..total {
            let mut idx = Vec::with_capacity(len);
            for _ in 0..len {
                idx.push(code % pool.len());
                code /= pool.len();
            }
            streams.push(idx);
        }
    }
    let n_exh_streams = streams.len();
    run.count("streams_exhaustive", n_exh_streams as u64);
    let n_rand_streams = tier.pick(40_000, 400_000);
    par_range(n_exh_streams + n_rand_streams, |i| {
        let mut loc = Local::default();
        let mut rng = Rng::stream(run.seed ^ 0x5354_5245_414d, i as u64);
        let docs: Vec<String> = if i < n_exh_streams {
            streams[i].iter().map(|&k| pool[k].clone()).collect()
        } else {
            let len = rng.range(exh_len + 1, 6);
            (0..len)
                .map(|_| {
                    if rng.chance(1, 2) {
                        pool[rng.below(pool.len())].clone()
                    } else if rng.chance(1, 2) && !nested_pool.is_empty() {
                        // a document of the exhaustive nested-anchor family, sometimes failing at the type level
                        let d = nested_pool[rng.below(nested_pool.len())].clone();
                        if rng.chance(1, 4) {
                            // the last plain scalar leaf `x<i>` becomes the poison (same layout)
                            match d.rfind('x') {
                                Some(k) => {
                                    let end = d[k + 1..].find(|c: char| !c.is_ascii_digit()).map(|e| k + 1 + e).unwrap_or(d.len());
                                    format!("{}{POISON}{}", &d[..k], &d[end..])
                                }
                                None => d,
                            }
                        } else {
                            d
                        }
                    } else {
                        let mut t = if rng.bool() {
                            random_decorated(&mut rng)
                        } else {
                            let size = rng.range(6, 60);
                            vcore::aliasgen::random_resolvable(&mut rng, size, 6, 8)
                        };
                        if rng.chance(1, 4) {
                            poison_random_leaf(&mut rng, &mut t);
                        }
                        let is_nullish_root = matches!(&t, Node::Scalar { text, .. } if text == "~" || text.is_empty());
                        match render_checked(&t, &ro) {
                            Some((s, _)) if !is_nullish_root => s,
                            _ => pool[rng.below(pool.len())].clone(),
                        }
                    }
                })
                .collect()
        };
        check_perdoc(&run, &docs, &mut loc);
        // permutations of the documents (the oracle is per stream, so each permutation is checked in full)
        if docs.len() >= 2 {
            let mut p = docs.clone();
            if docs.len() <= 3 && i < n_exh_streams {
                // exhaustive part already contains every ordering of every multiset
            } else {
                for _ in 0..2 {
                    rng.shuffle(&mut p);
                    check_perdoc(&run, &p, &mut loc);
                    loc.add("perdoc_permutations");
                }
            }
        }
        // the same stream under AllContent
        let text = join_stream(&docs);
        if i % 3 == 0 || i >= n_exh_streams {
            check_input(&run, Entry::Multi, &text, &mut loc);
            loc.add("multi_streams");
        }
        if i % 499 == 0 {
            run.sample(|| json!({"stream": docs}));
        }
        run.count_map(&loc.c);
    });

    run.note(format!("phase D (streams) done at {:.1}s", run.elapsed_s()));
    run.count("budget_errors_wrapped_in_AliasError", WRAPPED.load(std::sync::atomic::Ordering::Relaxed));
    let _ = reftree::norm_tag;
    let scope = format!(
        "(A) every base tree with <= {max_nodes} nodes over 5 scalar leaves + empty seq/map, undecorated and with every placement of <= 2 anchors (a,a / a,b) x every replacement of <= 2 leaves by aliases whose expansion is defined x merge-key variant{}, x {{block, flow}}; (A2) every sequence-only tree with 2..={nested_nodes} nodes (leaves x<i> / []) x every placement of <= 3 anchors x 1..=3 aliases with names drawn independently from {{a, b}} such that every alias resolves, x {{block, flow}}; each input of (A)/(A2) under: all limits off (report = independent count), and for each of the 8 counters limit = U and U-1 (events also U-2) with the hook monitor attached, and 3-5 ratio settings, through from_str ({} the reader and from_multiple entry points); (D) every stream of <= {exh_len} documents over a pool of {} documents ({} of them failing at the type level), each under every per-document threshold budget of every counter",
        if extra_nodes.is_some() { "; plus every 6-node base tree with <= 1 anchor x <= 1 alias (from_str)" } else { "" },
        if quick { "(A2) and a fixed 1/2 resp. 1/3 slice of (A) also through" } else { "(A, <= 5 nodes) and (A2) also through" },
        pool.len(),
        pool.iter().filter(|d| d.contains(POISON)).count()
    );
    let fin = Finish::new(
        "a case (input, entry point) is non-trivial when >= 1 counter has usage >= 2 and both the limit=U and limit=U-1 runs executed; a stream is non-trivial when it has >= 2 documents and some counter has per-document usage >= 2 (both its U and U-1 budgets are run); distinct by hash(text, entry) / hash(documents)",
    )
    .exhaustive(scope)
    .assume("raw saphyr-parser event stream is the ground truth; a verdict is given only when the independent count equals the hook trace on pumps by source, replayed events, nodes, depth, scalar bytes, alias pushes and document resets")
    .assume("counted quantities mean what the doc comments of Budget/BudgetReport say; `<<` reached through an alias key or carrying a tag is unspecified")
    .assume("read_with_options: after a deserialization (type-level) error the following documents are specified (documented recovery); after the first budget, alias-limit or syntax error nothing is specified")
    .min_nontrivial(if tier == Tier::Quick { 50_000 } else { 500_000 });
    run.finish(fin);
}
