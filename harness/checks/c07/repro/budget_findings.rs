use serde_saphyr::{Error, Options, budget::BudgetBreach};
use serde_json::Value;
use std::cell::RefCell;
use std::rc::Rc;

fn kind(e: &Error) -> String {
    match e.without_snippet() {
        Error::Budget { breach, .. } => format!("Budget({breach:?})"),
        other => format!("{other:?}").chars().take(60).collect(),
    }
}

fn main() {
    // 1. merge-key counter is off after an alias that is a direct child of a mapping
    for y in ["x: &x 1\nm: &m {k: 2}\nt: {a: *x, <<: *m}\n", "x: &x 1\nm: &m {k: 2}\nt: {<<: *m, a: *x}\n", "x: &x 1\nt: {a: *x, b: <<}\n"] {
        let seen = Rc::new(RefCell::new(None));
        let s2 = seen.clone();
        let o = Options::default().with_budget_report(move |r| *s2.borrow_mut() = Some(r.merge_keys));
        let r: Result<Value, _> = serde_saphyr::from_str_with_options(y, o);
        let o0 = serde_saphyr::options! { budget: serde_saphyr::budget! { max_merge_keys: 0 } };
        let r0: Result<Value, _> = serde_saphyr::from_str_with_options(y, o0);
        println!("1. {y:?}: ok={} report.merge_keys={:?}; with max_merge_keys=0: {}", r.is_ok(), seen.borrow(), r0.map(|_| "Ok".to_string()).unwrap_or_else(|e| kind(&e)));
    }
    // 2. per-document policy: anchors accumulate over the documents of a stream
    let o = serde_saphyr::options! { budget: serde_saphyr::budget! { max_anchors: 1 } };
    let mut rd = "&a 1\n---\n&a 2\n---\n&b 3\n".as_bytes();
    let items: Vec<String> = serde_saphyr::read_with_options::<_, Value>(&mut rd, o).map(|r| r.map(|v| v.to_string()).unwrap_or_else(|e| kind(&e))).collect();
    println!("2. read_with_options, max_anchors=1, three documents with one anchor each: {items:?}");
    // 3. event budget: a breach on the stream-end event is swallowed by from_str / from_reader
    let seen = Rc::new(RefCell::new(None));
    let s2 = seen.clone();
    let o = serde_saphyr::options! { budget: serde_saphyr::budget! { max_events: 7 } }.with_budget_report(move |r| *s2.borrow_mut() = Some(r.events));
    let r: Result<Value, _> = serde_saphyr::from_str_with_options("a: 1\n", o);
    let o = serde_saphyr::options! { budget: serde_saphyr::budget! { max_events: 7 } };
    let rm: Result<Vec<Value>, _> = serde_saphyr::from_multiple_with_options("a: 1\n", o);
    println!("3. max_events=7 on \"a: 1\\n\" (8 events): from_str ok={} report.events={:?}; from_multiple: {}", r.is_ok(), seen.borrow(), rm.map(|_| "Ok".to_string()).unwrap_or_else(|e| kind(&e)));
    // 4. ratio heuristic rejects a document without aliases when alias_anchor_min_aliases = 0
    let o = serde_saphyr::options! { budget: serde_saphyr::budget! { alias_anchor_min_aliases: 0 } };
    let r: Result<Value, _> = serde_saphyr::from_str_with_options("a: 1\n", o);
    println!("4. alias_anchor_min_aliases=0 on \"a: 1\\n\": {}", r.map(|_| "Ok".to_string()).unwrap_or_else(|e| kind(&e)));
    // 5. (observation) a limit error during a replay loses its variant
    let o = serde_saphyr::options! { budget: serde_saphyr::budget! { max_nodes: 4 } };
    let r: Result<Value, _> = serde_saphyr::from_str_with_options("- &a\n  - x0\n- *a\n", o);
    println!("5. max_nodes=4: {}", r.map(|_| "Ok".to_string()).unwrap_or_else(|e| kind(&e)));
    let _ = BudgetBreach::SequenceUnbalanced;
}
