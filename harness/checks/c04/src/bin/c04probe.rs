use serde_saphyr::DuplicateKeyPolicy as P;
use vcore::Val;
fn main() {
    for d in std::env::args().skip(1) {
        let d = d.replace("\\n", "\n");
        println!("=== {d:?}");
        for (pn, p) in [("Err", P::Error), ("First", P::FirstWins), ("Last", P::LastWins)] {
            let mut o = vcore::errs::unlimited_options();
            #[allow(deprecated)]
            { o.duplicate_keys = p; }
            match serde_saphyr::from_str_with_options::<Val>(&d, o) {
                Ok(v) => println!("  {pn}: Ok {v}"),
                Err(e) => println!("  {pn}: Err {} loc={:?}", vcore::errs::kind(&e), vcore::errs::line_col(&e)),
            }
        }
    }
}
